// Demonstration tests for suspected defects in the icmp package.
// Every test asserts the CORRECT behaviour, so it fails while the defect exists.

package icmp

import (
	"net/netip"
	"testing"

	"github.com/golang/mock/gomock"
	"github.com/google/gopacket"
	"github.com/google/gopacket/layers"
	"github.com/stretchr/testify/require"

	"github.com/DataDog/datadog-traceroute/common"
)

// verifDemoEchoReply builds an ICMPv4 echo reply from src to the driver's local address
func verifDemoEchoReply(t *testing.T, driver *icmpDriver, src netip.Addr, id, seq uint16) []byte {
	ipLayer := &layers.IPv4{
		Version:  4,
		Length:   20,
		TTL:      42,
		Protocol: layers.IPProtocolICMPv4,
		SrcIP:    src.AsSlice(),
		DstIP:    driver.localAddr.AsSlice(),
	}
	icmpLayer := &layers.ICMPv4{
		TypeCode: layers.CreateICMPv4TypeCode(layers.ICMPv4TypeEchoReply, 0),
		Id:       id,
		Seq:      seq,
	}
	buf := gopacket.NewSerializeBuffer()
	opts := gopacket.SerializeOptions{FixLengths: true, ComputeChecksums: true}
	require.NoError(t, gopacket.SerializeLayers(buf, opts, ipLayer, icmpLayer, gopacket.Payload("hello")))
	return buf.Bytes()
}

// verifDemoTimeExceeded builds an ICMPv4 time-exceeded from hop quoting an echo request local->target
func verifDemoTimeExceeded(t *testing.T, driver *icmpDriver, hop netip.Addr, id, seq uint16) []byte {
	innerIPLayer := &layers.IPv4{
		Version:  4,
		Length:   20,
		TTL:      1,
		Id:       id,
		Protocol: layers.IPProtocolICMPv4,
		SrcIP:    driver.localAddr.AsSlice(),
		DstIP:    driver.params.Target.AsSlice(),
	}
	innerICMPEcho := &layers.ICMPv4{
		TypeCode: layers.CreateICMPv4TypeCode(layers.ICMPv4TypeEchoRequest, 0),
		Id:       id,
		Seq:      seq,
	}
	innerBuf := gopacket.NewSerializeBuffer()
	opts := gopacket.SerializeOptions{FixLengths: true, ComputeChecksums: true}
	require.NoError(t, gopacket.SerializeLayers(innerBuf, opts, innerIPLayer, innerICMPEcho, gopacket.Payload("hello")))

	ipLayer := &layers.IPv4{
		Version:  4,
		Length:   20,
		TTL:      42,
		Protocol: layers.IPProtocolICMPv4,
		SrcIP:    hop.AsSlice(),
		DstIP:    driver.localAddr.AsSlice(),
	}
	icmpLayer := &layers.ICMPv4{
		TypeCode: layers.CreateICMPv4TypeCode(layers.ICMPv4TypeTimeExceeded, layers.ICMPv4CodeTTLExceeded),
	}
	buf := gopacket.NewSerializeBuffer()
	require.NoError(t, gopacket.SerializeLayers(buf, opts, ipLayer, icmpLayer, gopacket.Payload(innerBuf.Bytes())))
	return buf.Bytes()
}

func verifDemoSendProbes(t *testing.T, driver *icmpDriver, maxTTL uint8) {
	for ttl := uint8(1); ttl <= maxTTL; ttl++ {
		require.NoError(t, driver.SendProbe(ttl))
	}
}

// F4: the 16-bit echo sequence number is narrowed to uint8 before being range-checked, so Seq=0x0105
// (which we never sent) is credited to TTL 5.
func TestVerifDemo_F4(t *testing.T) {
	t.Run("echo reply", func(t *testing.T) {
		driver, mockSink, _ := initTest(t, false)
		mockSink.EXPECT().WriteTo(gomock.Any(), gomock.Any()).AnyTimes().Return(nil)
		verifDemoSendProbes(t, driver, 5)

		// sanity: the genuine reply for Seq=5 is accepted
		pkt := verifDemoEchoReply(t, driver, driver.params.Target, driver.echoID, 5)
		require.NoError(t, driver.parser.Parse(pkt))
		resp, err := driver.handleProbeLayers(driver.parser)
		require.NoError(t, err)
		require.Equal(t, uint8(5), resp.TTL)

		pkt = verifDemoEchoReply(t, driver, driver.params.Target, driver.echoID, 0x0105)
		require.NoError(t, driver.parser.Parse(pkt))
		require.Equal(t, uint16(0x0105), driver.parser.ICMP4.Seq)
		resp, err = driver.handleProbeLayers(driver.parser)
		require.Nil(t, resp, "echo reply with Seq=0x0105 must not be credited to any TTL, got %+v", resp)
		require.Error(t, err)
		require.True(t, common.CheckProbeRetryable("test", err), "error should be retryable: %v", err)
	})
	t.Run("time exceeded", func(t *testing.T) {
		driver, mockSink, _ := initTest(t, false)
		mockSink.EXPECT().WriteTo(gomock.Any(), gomock.Any()).AnyTimes().Return(nil)
		verifDemoSendProbes(t, driver, 5)

		hop := netip.MustParseAddr("42.42.42.42")
		// sanity: the genuine time-exceeded for Seq=5 is accepted
		pkt := verifDemoTimeExceeded(t, driver, hop, driver.echoID, 5)
		require.NoError(t, driver.parser.Parse(pkt))
		resp, err := driver.handleProbeLayers(driver.parser)
		require.NoError(t, err)
		require.Equal(t, uint8(5), resp.TTL)

		pkt = verifDemoTimeExceeded(t, driver, hop, driver.echoID, 0x0105)
		require.NoError(t, driver.parser.Parse(pkt))
		resp, err = driver.handleProbeLayers(driver.parser)
		require.Nil(t, resp, "time-exceeded quoting Seq=0x0105 must not be credited to any TTL, got %+v", resp)
		require.Error(t, err)
		require.True(t, common.CheckProbeRetryable("test", err), "error should be retryable: %v", err)
	})
}

// F5: an echo reply is flagged IsDest=true without checking that it actually came from the target.
func TestVerifDemo_F5(t *testing.T) {
	driver, mockSink, _ := initTest(t, false)
	mockSink.EXPECT().WriteTo(gomock.Any(), gomock.Any()).AnyTimes().Return(nil)
	verifDemoSendProbes(t, driver, 2)

	stranger := netip.MustParseAddr("9.9.9.9")
	require.NotEqual(t, stranger, driver.params.Target)

	pkt := verifDemoEchoReply(t, driver, stranger, driver.echoID, 2)
	require.NoError(t, driver.parser.Parse(pkt))
	resp, err := driver.handleProbeLayers(driver.parser)
	require.Nil(t, resp, "echo reply from %s (target is %s) must be rejected, got %+v", stranger, driver.params.Target, resp)
	require.Error(t, err)
	require.True(t, common.CheckProbeRetryable("test", err), "error should be retryable: %v", err)
}
