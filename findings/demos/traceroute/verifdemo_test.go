// Demonstration test for a suspected defect in the traceroute package.
// The test asserts the CORRECT behaviour, so it fails while the defect exists.

package traceroute

import (
	"context"
	"strings"
	"testing"
	"time"

	"github.com/stretchr/testify/require"
)

// F3: runTracerouteOnce narrows the int MinTTL/MaxTTL to uint8 without validating them, so e.g.
// MaxTTL=300 silently becomes 44 and MaxTTL=-1 becomes 255. Out-of-range TTLs must be rejected with an
// error mentioning the TTL before any socket is opened.
//
// On the current tree the call instead goes on to open raw sockets: as root it really runs a traceroute
// against 127.0.0.1 with the wrapped-around TTL range and returns err == nil; without privileges it fails
// with a socket/permission error that does not mention the TTL.
func TestVerifDemo_F3(t *testing.T) {
	cases := []struct {
		name   string
		minTTL int
		maxTTL int
		// what the uint8 conversions turn the range into today
		wrapped string
	}{
		{name: "MaxTTL 300", minTTL: 1, maxTTL: 300, wrapped: "1..44"},
		{name: "MaxTTL -1", minTTL: 1, maxTTL: -1, wrapped: "1..255"},
		{name: "MinTTL 257 MaxTTL 286", minTTL: 257, maxTTL: 286, wrapped: "1..30"},
		// NB: today this one wraps to 0..0, which common.TracerouteParams.validate() happens to reject
		// ("min TTL must be at least 1") deep inside the driver AFTER the sockets were opened. The check
		// on the "could not generate" prefix below tells that late, accidental rejection apart from a
		// proper up-front validation.
		{name: "MinTTL 0 MaxTTL 256", minTTL: 0, maxTTL: 256, wrapped: "0..0"},
	}
	for _, protocol := range []string{"udp", "icmp"} {
		for _, tc := range cases {
			t.Run(protocol+" "+tc.name, func(t *testing.T) {
				params := TracerouteParams{
					Hostname:          "127.0.0.1",
					Port:              33434,
					Protocol:          protocol,
					MinTTL:            tc.minTTL,
					MaxTTL:            tc.maxTTL,
					Delay:             0,
					Timeout:           50 * time.Millisecond,
					TracerouteQueries: 1,
				}
				ctx, cancel := context.WithTimeout(context.Background(), 10*time.Second)
				defer cancel()

				run, err := runTracerouteOnce(ctx, params, 33434)
				require.Error(t, err, "MinTTL=%d MaxTTL=%d must be rejected, but a traceroute was run (uint8 wrap-around gives TTLs %s); run=%+v",
					tc.minTTL, tc.maxTTL, tc.wrapped, run)
				require.Nil(t, run)
				require.Contains(t, strings.ToLower(err.Error()), "ttl", "the error must name the TTL problem")
				// errors wrapped like this come out of the protocol driver, i.e. after raw sockets were opened
				require.NotContains(t, err.Error(), "could not generate",
					"the TTL range must be validated before the driver opens any socket")
			})
		}
	}
}
