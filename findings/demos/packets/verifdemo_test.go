// Demonstration tests for suspected defects in the packets package.
// Unless stated otherwise every test asserts the CORRECT behaviour, so it fails while the defect exists.
//
// F8 and F11 concern linux-only code, hence the build constraint on the whole file.

//go:build linux

package packets

import (
	"errors"
	"net"
	"syscall"
	"testing"
	"time"

	"github.com/stretchr/testify/require"

	"github.com/DataDog/datadog-traceroute/common"
)

// F7: gopacket decode errors are returned as plain (fatal) errors, so a single malformed frame on the
// wire aborts the whole traceroute instead of being skipped.
func TestVerifDemo_F7(t *testing.T) {
	validHeader := func() []byte {
		return []byte{
			0x45, 0x00, 0x00, 0x16, // version 4, IHL 5, total length 22
			0x12, 0x34, 0x00, 0x00, // id, flags/frag
			0x40, 0x01, 0x00, 0x00, // ttl 64, protocol ICMP, checksum (unchecked)
			42, 42, 42, 42, // src
			5, 6, 7, 8, // dst
		}
	}

	t.Run("IHL below 5", func(t *testing.T) {
		frame := validHeader()
		frame[0] = 0x44 // version 4, IHL 4 (invalid)
		frame[3] = 20

		err := NewFrameParser().Parse(frame)
		require.Error(t, err)
		require.True(t, common.CheckProbeRetryable("x", err), "malformed frame must give a retryable error, got fatal: %v", err)
	})
	t.Run("truncated ICMP", func(t *testing.T) {
		frame := append(validHeader(), 0x0b, 0x00) // only 2 bytes of ICMP

		err := NewFrameParser().Parse(frame)
		require.Error(t, err)
		require.True(t, common.CheckProbeRetryable("x", err), "malformed frame must give a retryable error, got fatal: %v", err)
	})
}

// F8: when draining fails, SetBPFAndDrain wraps the (nil) result of c.Control instead of recvErr, so
// the real cause is lost.
//
// No root needed: a connected UDP socket that sent a datagram to a closed loopback port has a pending
// ECONNREFUSED, which the drain loop's recvfrom() reports. Attaching a classic BPF filter to one's own
// UDP socket is unprivileged.
func TestVerifDemo_F8(t *testing.T) {
	// find a loopback UDP port with nobody listening
	probe, err := net.ListenUDP("udp4", &net.UDPAddr{IP: net.IPv4(127, 0, 0, 1)})
	require.NoError(t, err)
	closedAddr := probe.LocalAddr().(*net.UDPAddr)
	require.NoError(t, probe.Close())

	conn, err := net.DialUDP("udp4", nil, closedAddr)
	require.NoError(t, err)
	defer conn.Close()
	_, err = conn.Write([]byte("x"))
	require.NoError(t, err)
	// let the ICMP port-unreachable come back over loopback and become the pending socket error
	time.Sleep(200 * time.Millisecond)

	rawConn, err := conn.SyscallConn()
	require.NoError(t, err)

	err = SetBPFAndDrain(rawConn, dropAllFilter)
	if err == nil {
		t.Skip("no pending socket error was reported by recvfrom (no ICMP port-unreachable on loopback here?), cannot demonstrate")
	}
	t.Logf("SetBPFAndDrain returned: %v", err)
	require.Contains(t, err.Error(), "failed to drain")
	require.True(t, errors.Is(err, syscall.ECONNREFUSED),
		"the drain error must wrap the recvfrom error (ECONNREFUSED), got: %q", err.Error())
}

// F11 (mechanism): these assertions PASS on the current tree. They do not assert the desired behaviour
// of afPacketSource.Read (which needs an AF_PACKET socket, i.e. root); they document the mechanism by
// which afPacketSource.Read produces fatal errors for harmless frames:
//
//	(a) a frame shorter than an Ethernet header makes stripEthernetHeader return an error, which Read
//	    returns as is (a plain, non-retryable error);
//	(b) a 14-byte frame with an IP ethertype yields a non-nil, EMPTY payload and a nil error, so the
//	    `for payload == nil` loop in Read exits and Read returns (0, nil), which ReadAndParse turns
//	    into the fatal "ConnHandle Read() returned 0 bytes".
func TestVerifDemo_F11_mechanism(t *testing.T) {
	t.Run("short frame is an error", func(t *testing.T) {
		payload, err := stripEthernetHeader([]byte{1, 2, 3, 4, 5})
		require.Error(t, err)
		require.Nil(t, payload)
		// ... and that error is not one the traceroute engine would skip over
		require.False(t, common.CheckProbeRetryable("x", err))
	})
	t.Run("header-only IP frame gives empty non-nil payload", func(t *testing.T) {
		frame := []byte{
			0xaa, 0xbb, 0xcc, 0xdd, 0xee, 0xff, // dst MAC
			0x11, 0x22, 0x33, 0x44, 0x55, 0x66, // src MAC
			0x08, 0x00, // ethertype IPv4
		}
		payload, err := stripEthernetHeader(frame)
		require.NoError(t, err)
		require.NotNil(t, payload, "non-nil payload terminates the `for payload == nil` loop in afPacketSource.Read")
		require.Len(t, payload, 0)

		// what ReadAndParse does with the resulting (0, nil)
		err = ReadAndParse(verifDemoZeroSource{}, make([]byte, 64), NewFrameParser())
		require.EqualError(t, err, "ConnHandle Read() returned 0 bytes")
		require.False(t, common.CheckProbeRetryable("x", err))
	})
}

// verifDemoZeroSource mimics what afPacketSource.Read returns for a header-only IP frame: (0, nil)
type verifDemoZeroSource struct{}

func (verifDemoZeroSource) SetReadDeadline(time.Time) error        { return nil }
func (verifDemoZeroSource) Read([]byte) (int, error)               { return 0, nil }
func (verifDemoZeroSource) Close() error                           { return nil }
func (verifDemoZeroSource) SetPacketFilter(PacketFilterSpec) error { return nil }
