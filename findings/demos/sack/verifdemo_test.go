// Demonstration tests for suspected defects in the sack package.
// Every test asserts the CORRECT behaviour, so it fails while the defect exists.

package sack

import (
	"net/netip"
	"sync"
	"testing"
	"time"

	"github.com/golang/mock/gomock"
	"github.com/google/gopacket"
	"github.com/google/gopacket/layers"
	"github.com/stretchr/testify/assert"
	"github.com/stretchr/testify/require"

	"github.com/DataDog/datadog-traceroute/common"
	"github.com/DataDog/datadog-traceroute/packets"
)

var (
	verifDemoTarget = netip.MustParseAddrPort("1.2.3.4:443")
	verifDemoLocal  = netip.MustParseAddr("5.6.7.8")
)

func verifDemoDriver(t *testing.T, maxTTL uint8, loosenICMPSrc bool) (*sackDriver, *packets.MockSink, *packets.MockSource) {
	ctrl := gomock.NewController(t)
	mockSource := packets.NewMockSource(ctrl)
	mockSink := packets.NewMockSink(ctrl)

	params := Params{
		Target:           verifDemoTarget,
		HandshakeTimeout: 500 * time.Millisecond,
		FinTimeout:       500 * time.Millisecond,
		ParallelParams: common.TracerouteParallelParams{TracerouteParams: common.TracerouteParams{
			MinTTL:            1,
			MaxTTL:            maxTTL,
			TracerouteTimeout: time.Second,
			PollFrequency:     time.Millisecond,
			SendDelay:         time.Millisecond,
		}},
		LoosenICMPSrc: loosenICMPSrc,
	}
	driver, err := newSackDriver(params, verifDemoLocal, mockSink, mockSource)
	require.NoError(t, err)
	return driver, mockSink, mockSource
}

// F1: sendTimes is written by SendProbe and read by getRTTFromRelSeq (from ReceiveProbe) without
// any lock although the driver advertises SupportsParallel=true.
// Run with: go test -race ./sack/ -run TestVerifDemo_F1
func TestVerifDemo_F1(t *testing.T) {
	driver, mockSink, _ := verifDemoDriver(t, 30, false)
	driver.FakeHandshake()
	require.True(t, driver.GetDriverInfo().SupportsParallel)

	mockSink.EXPECT().WriteTo(gomock.Any(), gomock.Any()).AnyTimes().Return(nil)

	start := make(chan struct{})
	var wg sync.WaitGroup
	wg.Add(2)
	// the "send" goroutine of the parallel engine
	go func() {
		defer wg.Done()
		<-start
		for ttl := uint8(1); ttl <= 30; ttl++ {
			if err := driver.SendProbe(ttl); err != nil {
				t.Errorf("SendProbe(%d): %v", ttl, err)
			}
			time.Sleep(100 * time.Microsecond)
		}
	}()
	// the "receive" goroutine of the parallel engine
	go func() {
		defer wg.Done()
		<-start
		for i := 0; i < 200; i++ {
			for k := uint32(1); k <= 30; k++ {
				_, _ = driver.getRTTFromRelSeq(k)
			}
			time.Sleep(20 * time.Microsecond)
		}
	}()
	close(start)
	wg.Wait()
}

// F2: MaxTTL+1 is computed in uint8, so MaxTTL=255 gives a zero-length sendTimes slice.
func TestVerifDemo_F2(t *testing.T) {
	driver, mockSink, _ := verifDemoDriver(t, 255, false)
	driver.FakeHandshake()

	mockSink.EXPECT().WriteTo(gomock.Any(), gomock.Any()).AnyTimes().Return(nil)

	assert.Equal(t, 256, len(driver.sendTimes), "sendTimes must have room for TTLs 0..255")
	require.NotPanics(t, func() {
		err := driver.SendProbe(5)
		require.NoError(t, err)
	})
}

func verifDemoTimeExceeded(t *testing.T, routerIP netip.Addr, innerSrc, innerDst netip.Addr, tcpInfo packets.TCPInfo) []byte {
	ipLayer := &layers.IPv4{
		Version:  4,
		Length:   20,
		TTL:      42,
		Id:       1234,
		Protocol: layers.IPProtocolICMPv4,
		SrcIP:    routerIP.AsSlice(),
		DstIP:    verifDemoLocal.AsSlice(),
	}
	icmpLayer := &layers.ICMPv4{
		TypeCode: layers.CreateICMPv4TypeCode(layers.ICMPv4TypeTimeExceeded, layers.ICMPv4CodeTTLExceeded),
	}
	innerIPLayer := &layers.IPv4{
		Version:  4,
		Length:   20,
		TTL:      1,
		Id:       41821,
		Protocol: layers.IPProtocolTCP,
		SrcIP:    innerSrc.AsSlice(),
		DstIP:    innerDst.AsSlice(),
	}
	buf := gopacket.NewSerializeBuffer()
	opts := gopacket.SerializeOptions{FixLengths: true, ComputeChecksums: true}
	err := gopacket.SerializeLayers(buf, opts,
		ipLayer,
		icmpLayer,
		innerIPLayer,
		gopacket.Payload(packets.SerializeTCPFirstBytes(tcpInfo)),
	)
	require.NoError(t, err)
	return buf.Bytes()
}

// F6: in strict mode (LoosenICMPSrc=false) the quoted source must be compared with OUR address,
// but the code compares the OUTER source (the router), rejecting every genuine time-exceeded.
func TestVerifDemo_F6(t *testing.T) {
	driver, mockSink, _ := verifDemoDriver(t, 30, false)
	driver.FakeHandshake() // localPort=1234, localInitSeq=5678

	mockSink.EXPECT().WriteTo(gomock.Any(), gomock.Any()).Return(nil)
	require.NoError(t, driver.SendProbe(3))

	router := netip.MustParseAddr("42.42.42.42")
	pkt := verifDemoTimeExceeded(t, router, verifDemoLocal, verifDemoTarget.Addr(), packets.TCPInfo{
		SrcPort: driver.localPort,
		DstPort: verifDemoTarget.Port(),
		Seq:     driver.state.localInitSeq + 3,
	})

	// control: the very same packet is accepted when the source check is disabled, so the
	// rejection below is caused by the strict source comparison and nothing else.
	driver.params.LoosenICMPSrc = true
	require.NoError(t, driver.parser.Parse(pkt))
	resp, err := driver.handleProbeLayers(driver.parser)
	require.NoError(t, err)
	require.Equal(t, uint8(3), resp.TTL)
	driver.params.LoosenICMPSrc = false

	require.NoError(t, driver.parser.Parse(pkt))
	resp, err = driver.handleProbeLayers(driver.parser)
	require.NoError(t, err, "a genuine time-exceeded from a router must be accepted in strict mode")
	require.NotNil(t, resp)
	require.Equal(t, uint8(3), resp.TTL)
	require.Equal(t, router, resp.IP)
	require.False(t, resp.IsDest)
}

func verifDemoSynAck(t *testing.T, localPort uint16, options []layers.TCPOption) []byte {
	ipLayer := &layers.IPv4{
		Version:  4,
		Length:   20,
		TTL:      42,
		Id:       1234,
		Protocol: layers.IPProtocolTCP,
		SrcIP:    verifDemoTarget.Addr().AsSlice(),
		DstIP:    verifDemoLocal.AsSlice(),
	}
	tcpLayer := &layers.TCP{
		SrcPort: layers.TCPPort(verifDemoTarget.Port()),
		DstPort: layers.TCPPort(localPort),
		Seq:     1000,
		Ack:     2000,
		SYN:     true,
		ACK:     true,
		Window:  1024,
		Options: options,
	}
	require.NoError(t, tcpLayer.SetNetworkLayerForChecksum(ipLayer))
	buf := gopacket.NewSerializeBuffer()
	opts := gopacket.SerializeOptions{FixLengths: true, ComputeChecksums: true}
	require.NoError(t, gopacket.SerializeLayers(buf, opts, ipLayer, tcpLayer))
	return buf.Bytes()
}

// F12: a SYN-ACK carrying a truncated timestamps option aborts the whole handshake with a fatal
// error instead of being skipped.
func TestVerifDemo_F12(t *testing.T) {
	driver, _, _ := verifDemoDriver(t, 30, false)
	driver.localPort = 4321

	// SACK-permitted (2 bytes) + timestamps with only 4 data bytes (kind 8, len 6) = 8 bytes, aligned
	malformed := verifDemoSynAck(t, driver.localPort, []layers.TCPOption{
		{OptionType: layers.TCPOptionKindSACKPermitted},
		{OptionType: layers.TCPOptionKindTimestamps, OptionData: []byte{0, 0, 0, 1}},
	})
	require.NoError(t, driver.parser.Parse(malformed))
	// sanity check that the parser sees what we intended to craft
	require.Len(t, driver.parser.TCP.Options, 2)
	require.Equal(t, layers.TCPOptionKind(layers.TCPOptionKindTimestamps), driver.parser.TCP.Options[1].OptionType)
	require.Len(t, driver.parser.TCP.Options[1].OptionData, 4)

	err := driver.handleHandshake()
	if err != nil {
		require.True(t, common.CheckProbeRetryable("handleHandshake", err),
			"a malformed SYN-ACK must be skipped, not abort the handshake; got fatal error: %v", err)
	}
	require.False(t, driver.IsHandshakeFinished(), "handshake must not be finished by a malformed SYN-ACK")

	// a later well-formed SYN-ACK still completes the handshake
	wellFormed := verifDemoSynAck(t, driver.localPort, []layers.TCPOption{
		{OptionType: layers.TCPOptionKindSACKPermitted},
		{OptionType: layers.TCPOptionKindTimestamps, OptionData: []byte{0, 0, 0, 1, 0, 0, 0, 2}},
		{OptionType: layers.TCPOptionKindNop},
		{OptionType: layers.TCPOptionKindNop},
	})
	require.NoError(t, driver.parser.Parse(wellFormed))
	require.NoError(t, driver.handleHandshake())
	require.True(t, driver.IsHandshakeFinished())
}
