// Demonstration test for a suspected defect in the publicip package.
// The test asserts the CORRECT behaviour, so it fails while the defect exists.

package publicip

import (
	"context"
	"net"
	"net/http"
	"net/http/httptest"
	"testing"
	"time"

	"github.com/cenkalti/backoff/v5"
	"github.com/stretchr/testify/require"
)

// F9: the HTTP request carries no context and the client has no Timeout, so a server that accepts the
// connection but never answers blocks client.Do forever. The 2s ipCheckerCallTimeout is only consulted
// by backoff.Retry between attempts, i.e. never.
func TestVerifDemo_F9(t *testing.T) {
	release := make(chan struct{})
	server := httptest.NewServer(http.HandlerFunc(func(w http.ResponseWriter, r *http.Request) {
		// accept the request but never answer (until the test is over)
		select {
		case <-release:
		case <-r.Context().Done():
		}
	}))
	// cleanups run last-in-first-out: release the handler first, otherwise server.Close() blocks
	t.Cleanup(server.Close)
	t.Cleanup(func() { close(release) })

	// same client and backoff policy as NewPublicIPFetcher()
	client := buildHttpClient()
	require.Zero(t, client.Timeout)
	backoffPolicy := backoff.NewExponentialBackOff()
	backoffPolicy.InitialInterval = 500 * time.Millisecond
	backoffPolicy.MaxInterval = 3 * time.Second

	type result struct {
		ip  net.IP
		err error
	}
	done := make(chan result, 1)
	start := time.Now()
	go func() {
		ip, err := getPublicIPUsingIPChecker(context.Background(), client, backoffPolicy, server.URL)
		done <- result{ip, err}
	}()

	const limit = 3500 * time.Millisecond
	select {
	case res := <-done:
		t.Logf("returned after %s with err=%v", time.Since(start), res.err)
		require.Error(t, res.err)
		require.Nil(t, res.ip)
	case <-time.After(limit):
		t.Fatalf("getPublicIPUsingIPChecker still blocked after %s against a server that never answers "+
			"(ipCheckerCallTimeout is %s): the per-checker timeout is not applied to the HTTP request", limit, ipCheckerCallTimeout)
	}
}
