#!/usr/bin/env python3
"""Validates MANIFEST.json and every evidence file against the harness schemas (uses the tooling venv's jsonschema)."""
import json, sys, glob
import jsonschema
ms = json.load(open('/root/.vp/MANIFEST.schema.json'))
es = json.load(open('/root/.vp/EVIDENCE.schema.json'))
m = json.load(open('/verif/MANIFEST.json'))
jsonschema.validate(m, ms)
bad = 0
for c in m['checks']:
    try:
        jsonschema.validate(json.load(open(c['evidence_file'])), es)
    except Exception as e:
        bad += 1
        print("EVIDENCE INVALID", c['evidence_file'], str(e)[:300])
print("manifest valid; checks:", len(m['checks']), "bad evidence:", bad)
sys.exit(1 if bad else 0)
