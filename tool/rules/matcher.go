package rules

import (
	"go/types"
	"strings"

	"golang.org/x/tools/go/ssa"

	"verif/tool/internal/core"
)

// Roles names, per driver, the receiver fields that hold the run's own
// identifying values (frozen table, §2.2 of DESIGN.md; cross-checked against
// the probe builder by C06 R06.3/R06.6 on every run).
type Roles struct {
	TargetAddr string
	TargetPort string
	LocalAddr  string
	LocalPort  string
	RunID      string // per-run echo identifier
	Relaxed    string // bool switch that disables the quoted-source check
	Variant    string // icmp | udp | syn | sack
}

var roleTable = map[string]Roles{
	"icmp.icmpDriver": {TargetAddr: "recv.params.Target", LocalAddr: "recv.localAddr", RunID: "recv.echoID", Variant: "icmp"},
	"udp.udpDriver":   {TargetAddr: "recv.config.Target", TargetPort: "recv.config.TargetPort", LocalAddr: "recv.config.srcIP", LocalPort: "recv.config.srcPort", Relaxed: "recv.config.LoosenICMPSrc", Variant: "udp"},
	"tcp.tcpDriver":   {TargetAddr: "recv.config.Target", TargetPort: "recv.config.DestPort", LocalAddr: "recv.config.srcIP", LocalPort: "recv.config.srcPort", Relaxed: "recv.config.LoosenICMPSrc", Variant: "syn"},
	"sack.sackDriver": {TargetAddr: "recv.params.Target", TargetPort: "recv.params.Target", LocalAddr: "recv.localAddr", LocalPort: "recv.localPort", Relaxed: "recv.params.LoosenICMPSrc", Variant: "sack"},
}

// fieldChain returns the field names from the outside in and the base term:
// X.a.b → ["b","a"], X.
func fieldChain(t *core.Term) ([]string, *core.Term) {
	var names []string
	for t != nil && t.Op == "field" {
		names = append(names, t.Name)
		t = t.Args[0]
	}
	return names, t
}

func isCallTo(t *core.Term, suffix string) bool {
	return t != nil && t.Op == "call" && strings.HasSuffix(t.Name, suffix)
}

// access reports whether t is <call ...callSuffix>#idx.f1.f2… (fields given outermost-last).
func access(t *core.Term, callSuffix string, idx string, fields ...string) bool {
	names, base := fieldChain(t)
	if len(names) != len(fields) {
		return false
	}
	for i := range fields {
		if names[len(names)-1-i] != fields[i] {
			return false
		}
	}
	if idx != "" {
		if base == nil || base.Op != "extract" || base.Name != idx {
			return false
		}
		base = base.Args[0]
	}
	return isCallTo(base, callSuffix)
}

// parserField reports whether t is <parser>.f1.f2… where <parser> is the
// driver's FrameParser (receiver field or matcher parameter).
func parserField(t *core.Term, fields ...string) bool {
	names, base := fieldChain(t)
	if len(names) < len(fields) {
		return false
	}
	for i := range fields {
		if names[len(fields)-1-i] != fields[i] {
			return false
		}
	}
	rest := names[len(fields):]
	if base == nil {
		return false
	}
	switch {
	case base.Op == "param" && len(rest) == 0:
		return isFrameParser(base.Typ)
	case base.Op == "recv" && len(rest) == 1:
		return true // recv.<parserfield>
	}
	return false
}

// parserFieldLoose is parserField that tolerates embedded structs between
// the layer and the field (ICMP6.BaseLayer.Payload).
func parserFieldLoose(t *core.Term, layer, field string) bool {
	names, base := fieldChain(t)
	if len(names) < 2 || names[0] != field {
		return false
	}
	li := -1
	for i, n := range names {
		if n == layer {
			li = i
		}
	}
	if li < 1 {
		return false
	}
	rest := names[li+1:]
	switch {
	case base != nil && base.Op == "param" && len(rest) == 0:
		return isFrameParser(base.Typ)
	case base != nil && base.Op == "recv" && len(rest) == 1:
		return true
	}
	return false
}

func isFrameParserTerm(t *core.Term) bool {
	switch {
	case t.Op == "param":
		return isFrameParser(t.Typ)
	case t.Op == "field" && len(t.Args) == 1 && t.Args[0].Op == "recv":
		return true
	case t.Op == "recv":
		return true
	}
	return false
}

func isFrameParser(t types.Type) bool {
	return t != nil && isNamed(t, core.ModulePath+"/packets", "FrameParser")
}

// packetDerived reports whether the term depends on the inbound packet.
func packetDerived(t *core.Term) bool {
	return t.Has(func(x *core.Term) bool {
		if x.Op == "call" {
			n := x.Name
			if strings.Contains(n, "FrameParser") || strings.Contains(n, "FirstBytes") || strings.Contains(n, "ParseMessage") ||
				strings.Contains(n, "extractEchoRequest") || strings.Contains(n, "getMinSack") || strings.Contains(n, "BigEndian") {
				return true
			}
		}
		if x.Op == "param" && isFrameParser(x.Typ) {
			return true
		}
		if x.Op == "field" && x.Args[0].Op == "recv" && (x.Name == "parser" || x.Name == "buffer") {
			return true
		}
		return false
	})
}

// ownOnly reports whether every leaf of t is run state of the driver
// (receiver fields other than parser/buffer), a constant or a pure library call.
func ownOnly(t *core.Term) bool {
	if packetDerived(t) {
		return false
	}
	ok := true
	for _, l := range t.Leaves() {
		if strings.HasPrefix(l, "recv.") || strings.HasPrefix(l, "call:") || l == "recv" {
			continue
		}
		if strings.HasPrefix(l, "param:") || strings.HasPrefix(l, "free:") || strings.HasPrefix(l, "unknown") || strings.HasPrefix(l, "clobbered") {
			ok = false
		}
	}
	return ok
}

func hasLeaf(t *core.Term, label string) bool {
	if label == "" {
		return false
	}
	for _, l := range t.Leaves() {
		if l == label {
			return true
		}
	}
	return false
}

// Eq is one component equality implied by a path's accepting atoms.
type Eq struct {
	A, B *core.Term
	Atom core.Atom
}

// pathEqs expands the accepting equality atoms of a path into component
// equalities: == / Compare()==0 on values, AddrPortFrom(a,p) == AddrPortFrom(b,q)
// ⇒ a=b ∧ p=q, IPPair == {Src,Dst} ⇒ field-wise.
func pathEqs(atoms []core.Atom) []Eq {
	var out []Eq
	for _, a := range atoms {
		n := a.Norm()
		if !n.Sign || n.Cond.Op != "binop" || n.Cond.Name != "==" {
			continue
		}
		x, y := n.Cond.Args[0], n.Cond.Args[1]
		// Compare(a,b) == 0
		if y.IsConst("0") && x.Op == "call" && strings.HasSuffix(x.Name, ".Compare") && len(x.Args) == 2 {
			x, y = x.Args[0], x.Args[1]
		} else if x.IsConst("0") && y.Op == "call" && strings.HasSuffix(y.Name, ".Compare") && len(y.Args) == 2 {
			x, y = y.Args[0], y.Args[1]
		}
		decompose(x, y, a, &out, 0)
	}
	return out
}

func isAddrPortFrom(t *core.Term) bool {
	return t.Op == "call" && t.Name == "netip.AddrPortFrom" && len(t.Args) == 2
}

func mkCall(name string, arg *core.Term) *core.Term {
	return &core.Term{Op: "call", Name: name, Args: []*core.Term{arg}}
}

func decompose(x, y *core.Term, a core.Atom, out *[]Eq, depth int) {
	*out = append(*out, Eq{x, y, a})
	if depth > 3 {
		return
	}
	switch {
	case isAddrPortFrom(x) && isAddrPortFrom(y):
		decompose(x.Args[0], y.Args[0], a, out, depth+1)
		decompose(x.Args[1], y.Args[1], a, out, depth+1)
	case isAddrPortFrom(x):
		decompose(x.Args[0], mkCall("(netip.AddrPort).Addr", y), a, out, depth+1)
		decompose(x.Args[1], mkCall("(netip.AddrPort).Port", y), a, out, depth+1)
	case isAddrPortFrom(y):
		decompose(y.Args[0], mkCall("(netip.AddrPort).Addr", x), a, out, depth+1)
		decompose(y.Args[1], mkCall("(netip.AddrPort).Port", x), a, out, depth+1)
	case y.Op == "struct":
		for _, kv := range y.Args {
			decompose(&core.Term{Op: "field", Name: kv.Name, Args: []*core.Term{x}}, kv.Args[0], a, out, depth+1)
		}
	case x.Op == "struct":
		for _, kv := range x.Args {
			decompose(&core.Term{Op: "field", Name: kv.Name, Args: []*core.Term{y}}, kv.Args[0], a, out, depth+1)
		}
	}
}

// unwrap strips value-preserving wrappers (conversions, Unmap, Addr of AddrPortFrom).
func unwrap(t *core.Term) *core.Term {
	for {
		switch {
		case t.Op == "conv":
			t = t.Args[0]
		case t.Op == "call" && t.Name == "(netip.Addr).Unmap" && len(t.Args) == 1:
			t = t.Args[0]
		case t.Op == "call" && t.Name == "(netip.AddrPort).Addr" && len(t.Args) == 1 && isAddrPortFrom(t.Args[0]):
			t = t.Args[0].Args[0]
		case t.Op == "call" && t.Name == "(netip.AddrPort).Port" && len(t.Args) == 1 && isAddrPortFrom(t.Args[0]):
			t = t.Args[0].Args[1]
		default:
			return t
		}
	}
}

// Packet-side predicates (API names of packets.FrameParser / gopacket / x-net, spelled out).
func isInnerDstAddr(t *core.Term) bool {
	return access(unwrap(t), ".GetICMPInfo", "0", "ICMPPair", "DstAddr")
}
func isInnerSrcAddr(t *core.Term) bool {
	return access(unwrap(t), ".GetICMPInfo", "0", "ICMPPair", "SrcAddr")
}
func isOuterSrcViaICMPInfo(t *core.Term) bool {
	return access(unwrap(t), ".GetICMPInfo", "0", "IPPair", "SrcAddr")
}
func isQuotedDstPort(t *core.Term) bool {
	u := unwrap(t)
	return access(u, "ParseTCPFirstBytes", "0", "DstPort") || access(u, "ParseUDPFirstBytes", "0", "DstPort")
}
func isQuotedSrcPort(t *core.Term) bool {
	u := unwrap(t)
	return access(u, "ParseTCPFirstBytes", "0", "SrcPort") || access(u, "ParseUDPFirstBytes", "0", "SrcPort")
}
func isOuterSrcAddr(t *core.Term) bool {
	u := unwrap(t)
	return access(u, ".GetIPPair", "0", "SrcAddr") || isOuterSrcViaICMPInfo(u)
}
func isOuterDstAddr(t *core.Term) bool {
	u := unwrap(t)
	return access(u, ".GetIPPair", "0", "DstAddr") || access(u, ".GetICMPInfo", "0", "IPPair", "DstAddr")
}
func isTCPSrcPort(t *core.Term) bool { return parserField(unwrap(t), "TCP", "SrcPort") }
func isTCPDstPort(t *core.Term) bool { return parserField(unwrap(t), "TCP", "DstPort") }

// isEchoID recognises the echo identifier of the three decoders the ICMP matcher uses.
func isEchoID(t *core.Term) bool {
	u := unwrap(t)
	if parserField(u, "ICMP4", "Id") {
		return true
	}
	names, base := fieldChain(u)
	if len(names) == 1 && names[0] == "ID" && base.Op == "extract" && base.Args[0].Op == "assert" && strings.Contains(base.Args[0].Name, "icmp.Echo") {
		return true
	}
	if len(names) == 1 && names[0] == "Identifier" && (access(u, "extractEchoRequest", "0", "Identifier")) {
		return true
	}
	// ICMPv6 echo reply: BigEndian.Uint16(payload[0:2]) of parser.ICMP6.Payload
	if u.Op == "call" && strings.HasSuffix(u.Name, ".Uint16") {
		return u.Has(func(x *core.Term) bool { return parserFieldLoose(x, "ICMP6", "Payload") }) && sliceBounds(u, "0", "2")
	}
	return false
}

func sliceBounds(t *core.Term, lo, hi string) bool {
	return t.Has(func(x *core.Term) bool {
		return x.Op == "slice" && len(x.Args) >= 3 && x.Args[1].IsConst(lo) && x.Args[2].IsConst(hi)
	})
}

// findEq looks for a component equality between a packet-side term accepted
// by pk and an own-side term that carries the role label (and nothing packet-derived).
func findEq(eqs []Eq, pk func(*core.Term) bool, role string) *Eq {
	for i := range eqs {
		e := &eqs[i]
		for _, pair := range [][2]*core.Term{{e.A, e.B}, {e.B, e.A}} {
			if pk(pair[0]) && hasLeaf(pair[1], role) && ownOnly(pair[1]) {
				return e
			}
		}
	}
	return nil
}

// Path classification by reply form.
type pathClass struct {
	Form     string // icmp-quote | tcp-direct | echo-reply | other
	Family   string // v4 | v6 | any
	ICMPType string // te | du | te|du | ""
}

func atomTrue(atoms []core.Atom, pred func(*core.Term) bool) (found bool, sign bool) {
	for _, a := range atoms {
		n := a.Norm()
		if pred(n.Cond) {
			return true, n.Sign
		}
	}
	return false, false
}

func isTransportEq(c *core.Term, layer string) bool {
	if c.Op != "binop" || c.Name != "==" {
		return false
	}
	for i := 0; i < 2; i++ {
		// the transport-layer getter of the parser, under whatever name inlining of one-line wrappers leaves it: a call on a
		// FrameParser compared with a layer-type constant (the constant itself says which layer is meant)
		if x := c.Args[i]; x.Op == "call" && (strings.HasSuffix(x.Name, ".GetTransportLayer") || strings.Contains(x.Name, "(*packets.FrameParser).") && len(x.Args) >= 1 && isFrameParserTerm(x.Args[0])) && c.Args[1-i].Op == "global" && c.Args[1-i].Name == "layers."+layer {
			return true
		}
	}
	return false
}

func isTypeEq(c *core.Term, field string, val string) bool {
	if c.Op != "binop" || c.Name != "==" {
		return false
	}
	for i := 0; i < 2; i++ {
		x := c.Args[i]
		if x.Op == "call" && strings.HasSuffix(x.Name, "TypeCode).Type") && len(x.Args) == 1 && parserField(x.Args[0], field, "TypeCode") && c.Args[1-i].IsConst(val) {
			return true
		}
	}
	return false
}

func classify(pi PathInfo) pathClass {
	has := func(pred func(*core.Term) bool) bool {
		f, s := atomTrue(pi.Atoms, pred)
		return f && s
	}
	pc := pathClass{Form: "other", Family: "any"}
	v4 := has(func(c *core.Term) bool { return isTransportEq(c, "LayerTypeICMPv4") })
	v6 := has(func(c *core.Term) bool { return isTransportEq(c, "LayerTypeICMPv6") })
	tcp := has(func(c *core.Term) bool { return isTransportEq(c, "LayerTypeTCP") })
	switch {
	case v4:
		pc.Family = "v4"
	case v6:
		pc.Family = "v6"
	}
	quote := has(func(c *core.Term) bool {
		return c.Op == "binop" && c.Name == "==" && c.Args[1].IsConst("nil") && access(c.Args[0], ".GetICMPInfo", "1")
	})
	switch {
	case tcp:
		pc.Form = "tcp-direct"
		pc.Family = "v4|v6"
	case quote:
		pc.Form = "icmp-quote"
		te := has(func(c *core.Term) bool { return isCallTo(c, ".IsTTLExceeded") }) ||
			has(func(c *core.Term) bool { return isTypeEq(c, "ICMP4", "11") }) || has(func(c *core.Term) bool { return isTypeEq(c, "ICMP6", "3") })
		du := has(func(c *core.Term) bool { return isCallTo(c, ".IsDestinationUnreachable") })
		switch {
		case te:
			pc.ICMPType = "te"
		case du:
			pc.ICMPType = "du"
		}
	case has(func(c *core.Term) bool { return isTypeEq(c, "ICMP4", "0") }) || has(func(c *core.Term) bool { return isTypeEq(c, "ICMP6", "129") }):
		pc.Form = "echo-reply"
	}
	return pc
}

// flagAssignments enumerates the SYN/ACK/RST/FIN assignments consistent with the path's flag atoms.
func flagAssignments(atoms []core.Atom) []map[string]bool {
	cons := map[string]bool{}
	contradict := false
	for _, a := range atoms {
		n := a.Norm()
		for _, f := range []string{"SYN", "ACK", "RST", "FIN"} {
			if parserField(n.Cond, "TCP", f) {
				if v, ok := cons[f]; ok && v != n.Sign {
					contradict = true
				}
				cons[f] = n.Sign
			}
		}
	}
	if contradict {
		return nil
	}
	var out []map[string]bool
	for m := 0; m < 16; m++ {
		as := map[string]bool{"SYN": m&1 != 0, "ACK": m&2 != 0, "RST": m&4 != 0, "FIN": m&8 != 0}
		ok := true
		for f, v := range cons {
			if as[f] != v {
				ok = false
			}
		}
		if ok {
			out = append(out, as)
		}
	}
	return out
}

// lookupAtom finds the successful sent-probe lookup on a path: a call to a
// method of the driver (receiver = recv) whose success branch was taken.
type lookupInfo struct {
	Call *core.Term
	Atom core.Atom
}

// isLookupCall: the call is to a function of the driver's package that reads the sent-probe table (directly or through helpers).
func isLookupCall(p *core.Prog, d Driver, call *core.Term) bool {
	if call == nil || call.Op != "call" {
		return false
	}
	site, ok := call.Val.(*ssa.Call)
	if !ok {
		return false
	}
	f := site.Common().StaticCallee()
	return f != nil && core.FuncPkg(f) == core.FuncPkg(d.ReceiveProbe) && readsSentTable(p, d, f)
}

func findLookups(p *core.Prog, d Driver, atoms []core.Atom) []lookupInfo {
	var out []lookupInfo
	for _, a := range atoms {
		n := a.Norm()
		c := n.Cond
		if c.Op != "binop" || c.Name != "==" {
			continue
		}
		x, y := c.Args[0], c.Args[1]
		var call *core.Term
		switch {
		case y.IsConst("nil") && n.Sign: // err == nil
			if x.Op == "extract" {
				call = x.Args[0]
			}
		case y.Op == "zero" && !n.Sign: // result != zero value
			call = x
			if call.Op == "extract" {
				call = call.Args[0]
			}
		case y.IsConst("true") && n.Sign:
			if x.Op == "extract" {
				call = x.Args[0]
			}
		}
		if !isLookupCall(p, d, call) {
			continue
		}
		out = append(out, lookupInfo{Call: call, Atom: a})
	}
	// comma-ok form: `v, ok := s.find(k)` tested as a bare boolean extract
	for _, a := range atoms {
		n := a.Norm()
		if n.Sign && n.Cond.Op == "extract" && n.Cond.Args[0].Op == "call" {
			call := n.Cond.Args[0]
			if isLookupCall(p, d, call) {
				out = append(out, lookupInfo{Call: call, Atom: a})
			}
		}
	}
	return out
}

// recvFieldsTouched returns the receiver fields a method tree reads/writes (first-level names).
func recvFieldsTouched(p *core.Prog, roots ...*ssa.Function) (reads, writes map[string]bool) {
	reads, writes = map[string]bool{}, map[string]bool{}
	// only methods of the roots' own receiver type: field names of other types reached on the way (config objects, parsers) are not these fields
	var owner types.Type
	if len(roots) > 0 && roots[0] != nil && roots[0].Signature.Recv() != nil {
		owner = roots[0].Signature.Recv().Type()
	}
	for _, f := range ModReach(p, roots...) {
		if f.Signature.Recv() == nil || len(f.Params) == 0 {
			continue
		}
		if owner != nil && !types.Identical(f.Signature.Recv().Type(), owner) {
			continue
		}
		recv := f.Params[0]
		for _, b := range f.Blocks {
			for _, in := range b.Instrs {
				fa, ok := in.(*ssa.FieldAddr)
				if !ok || fa.X != ssa.Value(recv) {
					continue
				}
				st := fa.X.Type().Underlying().(*types.Pointer).Elem().Underlying().(*types.Struct)
				name := st.Field(fa.Field).Name()
				w := addrWritten(fa, 0)
				if w {
					writes[name] = true
				} else {
					reads[name] = true
				}
			}
		}
	}
	return
}

// addrWritten reports whether the address (or an address derived from it, or
// the slice/map value loaded from it) is the target of a store / map update.
func addrWritten(v ssa.Value, depth int) bool {
	if depth > 4 {
		return false
	}
	refs := v.Referrers()
	if refs == nil {
		return false
	}
	for _, r := range *refs {
		switch x := r.(type) {
		case *ssa.Store:
			if x.Addr == v {
				return true
			}
		case *ssa.MapUpdate:
			if x.Map == v {
				return true
			}
		case *ssa.FieldAddr:
			if addrWritten(x, depth+1) {
				return true
			}
		case *ssa.IndexAddr:
			if addrWritten(x, depth+1) {
				return true
			}
		case *ssa.UnOp:
			// loaded slice/map header: element stores count as writes of the field
			if _, isSlice := x.Type().Underlying().(*types.Slice); isSlice {
				if addrWritten(x, depth+1) {
					return true
				}
			}
			if _, isMap := x.Type().Underlying().(*types.Map); isMap {
				if addrWritten(x, depth+1) {
					return true
				}
			}
		}
	}
	return false
}
