package rules

import (
	"fmt"
	"strings"

	"golang.org/x/tools/go/ssa"

	"verif/tool/internal/core"
)

func init() {
	register("C07", "Decides that the parallel engine's result depends on the accepted replies only through the two rules, for every schedule: (R07.1) the closure that writes the slot table is evaluated exhaustively over the finite abstract domain previous ∈ {nil, non-destination, destination} × reply ∈ {non-destination, destination}; its branch conditions may only be nil(previous), previous.IsDest, reply.IsDest, and the resulting store/no-store table must equal 'store iff previous = nil or (previous non-destination and reply destination)', the stored value being the reply itself; (R07.2) in the receiver every path from an accepted and validated reply back to the loop head passes through that update, and the retryable edge reaches the loop head without a store; (R07.3) the table is accessed only under the one mutex or after the join, and nothing else the sender shares with the receiver is written after the spawn; (R07.4) the result is clipResults(MinTTL, table) taken after g.Wait(). Delivery order by the driver and deadline races (accepted 'before the deadline') are not decided.", runC07)
	darwinRules["C07"] = runC07
}

func parallelEngine(c *Ctx) *Engine {
	for _, e := range Engines(c.P) {
		if e.Update != nil && e.Parallel {
			return e
		}
	}
	return nil
}

func runC07(c *Ctx) {
	R := c.R
	// shared clauses: the merge's result is cut at the lowest destination answer (R03.6, with C03), and what the receiver skips
	// as "no packet / bad packet" is exactly the two retryable types found through errors.As (R09.2, with C09) – a wrapped
	// no-packet error taken for fatal discards every reply already merged
	checkClipSearch(c)
	checkRetryablePredicate(c)
	e := parallelEngine(c)
	if e == nil {
		R.Fail("R07.1", "common.TracerouteParallel#anchor", 0, "", "no engine with goroutines and an update closure found: anchor lost")
		return
	}
	up := e.Update
	fn := core.FuncName(up)
	// R07.1
	rps, complete := core.ReturnPaths(c.P, up, 5000)
	nreply := 0
	for _, pa := range up.Params {
		if isNamed(pa.Type(), core.ModulePath+"/common", "ProbeResponse") {
			nreply++
		}
	}
	if !complete || nreply != 1 {
		R.Fail("R07.1", fn+"#enumeration", up.Pos(), fn, "update closure could not be enumerated completely: undecided")
		return
	}
	var storeBlocks = map[*ssa.BasicBlock]*ssa.Store{}
	for _, st := range e.Stores {
		if st.Parent() == up {
			storeBlocks[st.Block()] = st
		}
	}
	type pathEval struct {
		rp     core.RetPath
		stores bool
		undec  string
	}
	var pes []pathEval
	for _, rp := range rps {
		// skip the synthetic recover block return
		if rp.Ret.Block().Comment == "recover" {
			continue
		}
		pe := pathEval{rp: rp}
		for _, b := range rp.Path.Blocks {
			if st, ok := storeBlocks[b]; ok {
				pe.stores = true
				v := rp.Env.Term(st.Val)
				if !(v.Op == "param") {
					pe.undec = "stored value is " + v.String() + ", not the reply"
				}
			}
		}
		pes = append(pes, pe)
	}
	ev := &absEval{c: c}
	closureObj := func(t *core.Term) string {
		switch {
		case isPrevious(t, up):
			return "previous"
		case t.Op == "param":
			return "reply"
		}
		return ""
	}
	cases := 0
	for _, prev := range []string{"nil", "non-dest", "dest"} {
		for _, reply := range []string{"non-dest", "dest"} {
			cases++
			cs := absCase{prevNil: prev == "nil", prevDest: prev == "dest", replyDest: reply == "dest"}
			var got []bool
			var which []string
			undec := ""
			for _, pe := range pes {
				if pe.undec != "" {
					undec = pe.undec
					continue
				}
				ok := true
				for _, a := range pe.rp.Atoms {
					n := a.Norm()
					v := ev.evalBool(n.Cond, closureObj, cs, 0)
					if v == "unknown" {
						undec = "branch on " + n.Cond.String() + " cannot be evaluated over the abstract domain (previous == nil, previous.IsDest, reply.IsDest)"
						ok = false
						break
					}
					if (v == "true") != n.Sign {
						ok = false
						break
					}
				}
				if ok {
					got = append(got, pe.stores)
					which = append(which, pe.rp.Path.String())
				}
			}
			want := prev == "nil" || (prev == "non-dest" && reply == "dest")
			key := fmt.Sprintf("%s#update-rule[previous=%s,reply=%s]", fn, prev, reply)
			switch {
			case undec != "":
				R.Fail("R07.1", key, up.Pos(), fn, "undecided: "+undec)
			case len(got) == 0:
				R.Fail("R07.1", key, up.Pos(), fn, "no path of the update closure is consistent with this case: undecided")
			default:
				all := true
				for _, g := range got {
					if g != want {
						all = false
					}
				}
				R.Check(all, "R07.1", key, up.Pos(), fn, fmt.Sprintf("store=%v as the reference requires (paths %s)", want, strings.Join(which, " | ")), fmt.Sprintf("closure stores=%v but the reference (first wins, destination overrides) requires store=%v (paths %s)", got, want, strings.Join(which, " | ")))
			}
			R.Sample(map[string]any{"case": map[string]string{"previous": prev, "reply": reply}, "reference_store": want, "closure_store": got, "paths": which})
		}
	}
	// side effects on the stored objects: the closure (and its helpers) may write nothing but the slot
	for _, g := range ModReach(c.P, up) {
		for _, b := range g.Blocks {
			for _, in := range b.Instrs {
				st, ok := in.(*ssa.Store)
				if !ok {
					continue
				}
				if fa, ok := st.Addr.(*ssa.FieldAddr); ok && isNamed(fa.X.Type(), core.ModulePath+"/common", "ProbeResponse") {
					R.Fail("R07.1", core.FuncName(g)+"#mutates-reply["+core.FieldName(fa)+"]", st.Pos(), core.FuncName(g), "the merge rewrites the field "+core.FieldName(fa)+" of a stored reply instead of keeping or replacing the reply as a whole: a hop can end up with one reply's address and another's flags")
				}
			}
		}
	}
	R.Exhaustive = true
	R.Extra["abstract_cases"] = cases
	// R07.2 receiver must-pass-through. The merge may be reached through wrappers (a callback closure that merges and then cancels
	// the sender, a method of a table type): mergeFns = the update function plus every function of the scope that calls a merge
	// function on every path to a normal return.
	cg := c.P.CallGraph()
	calleesAt := func(site ssa.CallInstruction) []*ssa.Function {
		var out []*ssa.Function
		if n := cg.Nodes[site.Parent()]; n != nil {
			for _, oe := range n.Out {
				if oe.Site == site && oe.Callee.Func != nil {
					out = append(out, oe.Callee.Func)
				}
			}
		}
		return out
	}
	mergeFns := map[*ssa.Function]bool{up: true}
	isMergeCall := func(in ssa.Instruction) bool {
		ci, ok := in.(*ssa.Call)
		if !ok {
			return false
		}
		cs := calleesAt(ci)
		if len(cs) == 0 {
			return false
		}
		for _, f := range cs {
			if !mergeFns[f] {
				return false
			}
		}
		return true
	}
	for changed := true; changed; {
		changed = false
		for _, g := range e.Scope {
			if mergeFns[g] || len(g.Blocks) == 0 || hasDriverInvoke(g, "ReceiveProbe") {
				continue
			}
			cut := map[*ssa.BasicBlock]bool{}
			for _, b := range g.Blocks {
				for _, in := range b.Instrs {
					if isMergeCall(in) {
						cut[b] = true
					}
				}
			}
			if len(cut) == 0 {
				continue
			}
			all := true
			for _, b := range g.Blocks {
				if _, isRet := b.Instrs[len(b.Instrs)-1].(*ssa.Return); isRet && b.Comment != "recover" && !cut[b] && reachAvoiding(g.Blocks[0], b, cut, nil) {
					all = false
				}
			}
			if all && !cut[g.Blocks[0]] || all {
				mergeFns[g] = true
				changed = true
			}
		}
	}
	nrecvFns := 0
	for _, g := range e.Scope {
		var recv *ssa.Call
		for _, r := range e.RecvSites {
			if r.Parent() == g {
				recv = r
			}
		}
		if recv == nil {
			continue
		}
		nrecvFns++
		gn := core.FuncName(g)
		key := gn + "#merge"
		cut := map[*ssa.BasicBlock]bool{}
		var firstSite ssa.Instruction
		for _, b := range g.Blocks {
			for _, in := range b.Instrs {
				if isMergeCall(in) {
					cut[b] = true
					if firstSite == nil {
						firstSite = in
					}
				}
			}
		}
		if firstSite == nil {
			R.Fail("R07.2", key, recv.Pos(), gn, "the function that calls ReceiveProbe never hands a reply to the merge (directly, through a callback or a method)")
			continue
		}
		// success edge of validateProbe and retryable edge
		var succTo, retryTo *ssa.BasicBlock
		for _, b := range g.Blocks {
			iff, ok := b.Instrs[len(b.Instrs)-1].(*ssa.If)
			if !ok {
				continue
			}
			call, tIdx := condCall(iff)
			if call == nil || call.Common().StaticCallee() == nil {
				continue
			}
			switch {
			case strings.HasSuffix(shortName(call.Common().StaticCallee()), ".validateProbe"):
				succTo = b.Succs[1-tIdx]
			case calleeIs(call, "common.CheckProbeRetryable"):
				retryTo = b.Succs[tIdx]
			}
		}
		if succTo == nil || retryTo == nil {
			R.Fail("R07.2", key, firstSite.Pos(), gn, "receiver has no validateProbe / CheckProbeRetryable branch: anchor lost")
			continue
		}
		loopHead := recv.Block()
		for _, b := range g.Blocks {
			for _, p := range b.Preds {
				if b.Dominates(p) && b.Dominates(recv.Block()) {
					loopHead = b
				}
			}
		}
		skip := false
		if !cut[succTo] {
			if reachAvoiding(succTo, loopHead, cut, nil) {
				skip = true
			}
			for _, b := range g.Blocks {
				if _, isRet := b.Instrs[len(b.Instrs)-1].(*ssa.Return); isRet && reachAvoiding(succTo, b, cut, nil) {
					skip = true
				}
			}
		}
		R.Check(!skip, "R07.2", key, firstSite.Pos(), gn, "every path from an accepted+validated reply to the next iteration passes through the merge", "an accepted and validated reply can reach the next iteration (or a return) without being merged")
		cut2 := map[*ssa.BasicBlock]bool{recv.Block(): true}
		leak := false
		for b := range cut {
			if retryTo != recv.Block() && reachAvoiding(retryTo, b, cut2, nil) {
				leak = true
			}
		}
		R.Check(!leak, "R07.2", key+"/retry-no-store", firstSite.Pos(), gn, "the retryable edge leads back to ReceiveProbe without a merge", "a retryable (skipped) packet can reach the merge")
	}
	R.Floor("R07.2:receiving-functions", nrecvFns, 1)
	// R07.3 lockset on the table inside the update function; everything else touches it only before the spawn or after Wait
	touches := func(in ssa.Instruction) bool {
		var addr ssa.Value
		switch x := in.(type) {
		case *ssa.Store:
			addr = x.Addr
		case *ssa.UnOp:
			addr = x.X
		default:
			return false
		}
		switch a := addr.(type) {
		case *ssa.IndexAddr:
			return e.isTable(c.P, a.X)
		case *ssa.FieldAddr:
			return e.TableFields[fieldKeyOf(a)]
		case *ssa.Alloc:
			return a == allocOfSlice(c, e)
		}
		return false
	}
	la := core.NewLockAnalysis(c.P)
	recvObj := ""
	if up.Signature.Recv() != nil {
		recvObj = "recv"
	}
	la.Collect(up, recvObj, nil)
	nacc := 0
	for _, a := range la.Accesses {
		if !touches(a.Instr) {
			continue
		}
		nacc++
		R.Check(len(a.Locks) > 0, "R07.3", fmt.Sprintf("%s#table-access[%d]", fn, nacc), a.Instr.Pos(), fn, "slot table accessed under "+strings.Join(a.Locks, ","), "slot table accessed without the mutex")
	}
	R.Floor("R07.3:table-accesses-in-update", nacc, 2)
	// table accesses anywhere else in the engine
	var waits []ssa.Instruction
	for _, b := range e.Fn.Blocks {
		for _, in := range b.Instrs {
			if isWaitCall(in) {
				waits = append(waits, in)
			}
		}
	}
	spawns := spawnSites(e.Fn)
	for _, g := range withClosures(e.Fn) {
		if g == up {
			continue
		}
		lg := core.NewLockAnalysis(c.P)
		lg.StopAt[up] = true
		lg.Collect(g, "", nil)
		for _, a := range lg.Accesses {
			if !touches(a.Instr) || a.Fn == up {
				continue
			}
			gn := core.FuncName(a.Fn)
			if g == e.Fn && a.Site != nil && a.Site.Parent() == e.Fn {
				before, after := true, false
				for _, sp := range spawns {
					if !core.InstrDominates(a.Site, sp) {
						before = false
					}
				}
				for _, w := range waits {
					if core.InstrDominates(w, a.Site) {
						after = true
					}
				}
				R.Check(before || after, "R07.3", fmt.Sprintf("%s#table-access@%s", gn, kindRW(a.Write)), a.Instr.Pos(), gn, "engine touches the table only before the spawn or after g.Wait()", "engine touches the slot table while the goroutines run and outside the mutex")
			} else {
				R.Check(len(a.Locks) > 0, "R07.3", fmt.Sprintf("%s#table-access", gn), a.Instr.Pos(), gn, "under the mutex", "goroutine touches the slot table directly, outside the update function's mutex")
			}
		}
	}
	// R07.4 shares R03.3
	checkEngineReturns(c, e)
	// the success return is dominated by Wait
	for _, b := range e.Fn.Blocks {
		ret, ok := b.Instrs[len(b.Instrs)-1].(*ssa.Return)
		if !ok {
			continue
		}
		if cst, isC := ret.Results[1].(*ssa.Const); isC && cst.Value == nil {
			dom := false
			for _, w := range waits {
				if core.InstrDominates(w, ret) {
					dom = true
				}
			}
			R.Check(dom, "R07.4", e.Name+"#result-after-join", ret.Pos(), e.Name, "the success return is dominated by g.Wait()", "the result is produced without joining the goroutines")
		}
	}
}

func kindRW(w bool) string {
	if w {
		return "write"
	}
	return "read"
}

// isPrevious: results[reply.TTL] of the closure's captured table.
func isPrevious(t *core.Term, up *ssa.Function) bool {
	if t.Op != "index" || len(t.Args) != 2 {
		return false
	}
	idx := t.Args[1].StripConv()
	return idx.Op == "field" && idx.Name == "TTL" && idx.Args[0].Op == "param"
}

// allocOfSlice finds the local variable that holds the engine's slot table.
func allocOfSlice(c *Ctx, e *Engine) *ssa.Alloc {
	for _, r := range *e.Results.Referrers() {
		if st, ok := r.(*ssa.Store); ok && st.Val == ssa.Value(e.Results) {
			if a, ok := st.Addr.(*ssa.Alloc); ok {
				return a
			}
		}
	}
	return &ssa.Alloc{}
}

// ---- abstract evaluation over the (previous, reply) domain, through module helpers ----

type absCase struct{ prevNil, prevDest, replyDest bool }

type absEval struct{ c *Ctx }

func b2s(b bool) string {
	if b {
		return "true"
	}
	return "false"
}

// evalBool evaluates a boolean term to "true" / "false" / "unknown"; obj names the abstract object a term denotes.
func (ev *absEval) evalBool(t *core.Term, obj func(*core.Term) string, cs absCase, depth int) string {
	if depth > 4 || t == nil {
		return "unknown"
	}
	switch t.Op {
	case "const":
		if t.Name == "true" || t.Name == "false" {
			return t.Name
		}
		return "unknown"
	case "not":
		v := ev.evalBool(t.Args[0], obj, cs, depth+1)
		switch v {
		case "true":
			return "false"
		case "false":
			return "true"
		}
		return v
	case "field":
		if t.Name != "IsDest" {
			return "unknown"
		}
		switch obj(t.Args[0]) {
		case "previous":
			if cs.prevNil {
				return "unknown" // dereference of a nil previous: no well-defined value
			}
			return b2s(cs.prevDest)
		case "reply":
			return b2s(cs.replyDest)
		}
		return "unknown"
	case "binop":
		if t.Name == "==" || t.Name == "!=" {
			var v string
			x, y := t.Args[0], t.Args[1]
			switch {
			case y.IsConst("nil") || x.IsConst("nil"):
				o := x
				if x.IsConst("nil") {
					o = y
				}
				switch obj(o) {
				case "previous":
					v = b2s(cs.prevNil)
				case "reply":
					v = "false"
				default:
					return "unknown"
				}
			default:
				a, b := ev.evalBool(x, obj, cs, depth+1), ev.evalBool(y, obj, cs, depth+1)
				if a == "unknown" || b == "unknown" {
					return "unknown"
				}
				v = b2s(a == b)
			}
			if t.Name == "!=" {
				if v == "true" {
					return "false"
				}
				return "true"
			}
			return v
		}
		return "unknown"
	case "call":
		return ev.evalCall(t, obj, cs, depth)
	}
	return "unknown"
}

// evalCall evaluates a call of a bool-returning module helper by enumerating its return paths under the case.
func (ev *absEval) evalCall(t *core.Term, obj func(*core.Term) string, cs absCase, depth int) string {
	var f *ssa.Function
	for _, mf := range ev.c.P.ModFuncs {
		if shortName(mf) == t.Name && mf.Synthetic == "" {
			f = mf
		}
	}
	if f == nil || len(f.Params) != len(t.Args) {
		return "unknown"
	}
	bind := map[string]string{}
	for i, p := range f.Params {
		bind[p.Name()] = obj(t.Args[i])
	}
	calleeObj := func(x *core.Term) string {
		if x.Op == "param" {
			return bind[x.Name]
		}
		return ""
	}
	rps, complete := core.ReturnPaths(ev.c.P, f, 2000)
	if !complete || len(rps) == 0 {
		return "unknown"
	}
	res := ""
	for _, rp := range rps {
		if rp.Ret.Block().Comment == "recover" || len(rp.Results) != 1 {
			continue
		}
		ok := true
		for _, a := range rp.Atoms {
			n := a.Norm()
			v := ev.evalBool(n.Cond, calleeObj, cs, depth+1)
			if v == "unknown" {
				// a nil-previous dereference guarded by an earlier atom of the same path is simply an infeasible path
				ok = false
				break
			}
			if (v == "true") != n.Sign {
				ok = false
				break
			}
		}
		if !ok {
			continue
		}
		v := ev.evalBool(rp.Results[0], calleeObj, cs, depth+1)
		if v == "unknown" || (res != "" && res != v) {
			return "unknown"
		}
		res = v
	}
	if res == "" {
		return "unknown"
	}
	return res
}
