package rules

import (
	"fmt"
	"go/token"
	"go/types"
	"math"
	"strings"

	"golang.org/x/tools/go/ssa"

	"verif/tool/internal/core"
)

func init() {
	register("C18", "Decides the structural clauses of enrichment: (R18.1) in GetReverseDnsForIPs the map key and the lookup argument are both the goroutine's own ip parameter, passed by value at the go statement from the loop variable, the key conversion string(ip) is the one EnrichWithReverseDns applies to the hop's / destination's own address, and the names are assigned to that very hop / destination; (R18.2) the failing branch of the lookup goroutine writes nothing and the function never returns an error, EnrichWithReverseDns returns nothing and never writes a hop list; (R18.3) in every instantiation of cache.GetWithExpiration Cache.Set is reached only on the callback's err == nil edge, the callback is not called on a hit and a hit returns the stored value; (R18.4) GetPublicIP ranges over the provider list in order, returns at the first nil-error answer and continues otherwise, and handleRequest marks the 4xx-status and invalid-body outcomes Permanent; (R18.5) map and accumulator accesses are under the mutex (C14 R14.2). Expiry timing of go-cache, the resolver's answers and completion orders beyond the lockset argument are not decided. No other outcome of a completely received answer that may carry a 4xx status is reported with a retryable error. (R18.3b) The callbacks handed to the cache return a non-nil error on every path on which the error of a call they made is not known to be nil. The goroutine's own address may be a captured per-iteration variable; skipping the empty address is tolerated; names attached through a helper must reach the document's element, not a copy. (R18.5) The fan-out's lookups run outside the shared lock. Each provider is asked under the caller's context, not under one deadline attached before the loop; every kind of owner that gets names has its address in the list handed to the batch lookup. (R18.3) A miss returns what the callback produced: its error when it failed (or the regular entry of the same key that a concurrent caller stored meanwhile), its value when it succeeded. (R18.1) The resolver and the cache are keyed by net.IP.String() of the address; (R18.4) a provider's answer is read to its end (io.ReadAll / a read loop), not with a single Read. The value obtained from the cache is only read, and a cache callback does not narrow a fetched address to one family (To4 / To16).", runC18)
}

// skipsEmptyOnly: block b (a latch that goes back to the loop header without passing the spawn) is reached only under the
// condition len(<the range element>) == 0.
func skipsEmptyOnly(c *Ctx, f *ssa.Function, b *ssa.BasicBlock, spawn *ssa.BasicBlock) bool {
	conds, truth := domFacts(b)
	// the skipping edge may be the branch itself (an empty `continue` block is fused away)
	if iff, ok := b.Instrs[len(b.Instrs)-1].(*ssa.If); ok {
		for i, sx := range b.Succs {
			if sx.Dominates(b) && sx != b {
				conds = append(conds, iff.Cond)
				truth = append(truth, i == 0)
			}
		}
	}
	for i, cd := range conds {
		bo, ok := cd.(*ssa.BinOp)
		if !ok {
			continue
		}
		k, isK := bo.Y.(*ssa.Const)
		call, isCall := bo.X.(*ssa.Call)
		if !isK || !isCall || k.Value == nil || k.Int64() != 0 {
			continue
		}
		bi, isB := call.Common().Value.(*ssa.Builtin)
		if !isB || bi.Name() != "len" || !isNamed(call.Common().Args[0].Type(), "net", "IP") {
			continue
		}
		if bo.Op == token.EQL && truth[i] || bo.Op == token.NEQ && !truth[i] || bo.Op == token.GTR && !truth[i] {
			return true
		}
	}
	return false
}

// checkLookupsConcurrent (R18.5, also run by C08 as part of R08.1): the per-address lookups of the reverse-DNS fan-out overlap –
// no goroutine holds the mutex that its siblings need while it waits for the resolver. A lookup made under the shared lock
// serialises the fan-out: the call then takes the SUM of the lookup times (each up to the lookup timeout) instead of one.
func checkLookupsConcurrent(c *Ctx, rule string) {
	R := c.R
	f := c.P.Func("reversedns.GetReverseDnsForIPs")
	if f == nil {
		R.Fail(rule, "reversedns.GetReverseDnsForIPs#anchor", 0, "", "anchor reversedns.GetReverseDnsForIPs no longer resolves")
		return
	}
	n := 0
	for _, sp := range spawnSites(f) {
		cl := spawnedClosure(c.P, sp)
		if cl == nil {
			continue
		}
		for _, ip := range InlinedPaths(c.P, cl, inlineOpts{pkg: core.FuncPkg(cl), stop: func(h *ssa.Function) bool { return h.Signature.Results().Len() == 2 }}) {
			for _, ev := range ip.Events {
				call, ok := ev.Instr.(*ssa.Call)
				if !ok || ev.Kind != "call" {
					continue
				}
				h := call.Common().StaticCallee()
				if h == nil || !core.InModule(h) || h.Signature.Results().Len() != 2 {
					continue
				}
				n++
				key := core.FuncName(cl) + "#lookup-not-under-lock"
				if ev.Locked {
					R.FailPath(rule, key, call.Pos(), core.FuncName(cl), "the lookup "+ev.Callee+" is made while the goroutine holds the mutex its siblings need: the fan-out is serialised and the call is bounded by the sum of the lookup timeouts, not by one", ip.Desc)
				} else {
					R.OK(rule, key, call.Pos(), core.FuncName(cl), "the lookup runs outside the shared lock")
				}
			}
		}
	}
	R.Floor(rule+":fanout-lookups", n, 1)
}

// checkLookupSpelling: the resolver (and the cache key) are asked with net.IP.String() of the address - the one spelling that is the
// same for the 4-byte and the 16-byte form of an IPv4 address. A conversion through netip.AddrFromSlice prints the 16-byte form as
// "::ffff:a.b.c.d": another name to resolve (under ip6.arpa) and another cache key for the same address.
func checkLookupSpelling(c *Ctx) {
	R := c.R
	n := 0
	for _, f := range c.P.ModFuncs {
		if core.ShortPkg(core.FuncPkg(f)) != "reversedns" || len(f.Params) == 0 || !isNamed(f.Params[0].Type(), "net", "IP") {
			continue
		}
		fn := core.FuncName(f)
		for _, b := range f.Blocks {
			for _, in := range b.Instrs {
				call, ok := in.(*ssa.Call)
				if !ok || call.Common().StaticCallee() == nil || core.FuncName(call.Common().StaticCallee()) != "reversedns.GetReverseDns" || len(call.Common().Args) == 0 {
					continue
				}
				n++
				for _, pa := range firstPath(f, b) {
					a := core.NewEnv(c.P, pa).Term(call.Common().Args[0])
					want := "(net.IP).String(param:" + f.Params[0].Name() + ")"
					R.Check(a.String() == want, "R18.1", fn+"#lookup-spelling", call.Pos(), fn, "the resolver is asked with net.IP.String() of the address", "the resolver and the cache are keyed by "+a.String()+" instead of net.IP.String() of the address: the 16-byte form of an IPv4 address then spells another name (::ffff:a.b.c.d), so the hop gets the names of a different question, or none, and the cached answer of the 4-byte form is not reused")
				}
			}
		}
	}
	R.Floor("R18.1:lookup-spellings", n, 1)
}

// checkBodyReadWhole is R18.4b: a provider's answer is read to its end before it is parsed. A single Read on the response body
// returns whatever fragment has arrived (chunked encoding, a flush, TCP segmentation): a prefix of the address that happens to be
// an address itself is then reported - and cached - as the public IP, and a fragment that is not makes a provider that answered
// correctly look broken.
func checkBodyReadWhole(c *Ctx) {
	R := c.R
	n := 0
	for _, f := range c.P.ModFuncs {
		if core.ShortPkg(core.FuncPkg(f)) != "publicip" || strings.Contains(core.FuncName(f), "Mock") {
			continue
		}
		fn := core.FuncName(f)
		for _, b := range f.Blocks {
			for _, in := range b.Instrs {
				call, ok := in.(*ssa.Call)
				if !ok {
					continue
				}
				cc := call.Common()
				isBody := func(v ssa.Value) bool {
					ld, ok := c.P.Def(v).(*ssa.UnOp)
					if !ok {
						return false
					}
					fa, ok := ld.X.(*ssa.FieldAddr)
					return ok && core.FieldName(fa) == "Body" && isNamed(fa.X.Type(), "net/http", "Response")
				}
				switch {
				case cc.IsInvoke() && cc.Method.Name() == "Read" && isBody(cc.Value):
					n++
					R.Check(innermostLoop(f, b) != nil, "R18.4", fn+"#body-read-whole", call.Pos(), fn, "the body is read in a loop", "the provider's answer is taken from a single Read on the response body: a Read returns whatever fragment has arrived, so a prefix of the address (itself a valid address) is reported and cached as the public IP, or a provider that answered correctly is skipped")
				case cc.StaticCallee() != nil && (cc.StaticCallee().String() == "io.ReadAll" || cc.StaticCallee().String() == "io.ReadFull") && len(cc.Args) > 0:
					// through a MakeInterface / LimitReader wrapper the body is still read to the end
					n++
					R.OK("R18.4", fn+"#body-read-whole", call.Pos(), fn, "the body is read to its end ("+cc.StaticCallee().String()+")")
				}
			}
		}
	}
	R.Floor("R18.4:body-reads", n, 1)
}

// checkCachedValueUntouched (R18.3c, shared with C14 as R14.5): what cache.GetWithExpiration hands back is the stored object itself
// (no copy), shared by every caller and by results already returned: it may be read, never written through. And the value a cache
// callback stores is what it fetched: a family-narrowing conversion (To4 / To16) of a fetched address turns a valid IPv6 answer
// into nil, which is then cached as a success.
func checkCachedValueUntouched(c *Ctx, rule string) {
	R := c.R
	n := 0
	for _, f := range c.P.ModFuncs {
		fn := core.FuncName(f)
		for _, b := range f.Blocks {
			for _, in := range b.Instrs {
				call, ok := in.(*ssa.Call)
				if !ok || call.Common().StaticCallee() == nil {
					continue
				}
				cal := call.Common().StaticCallee()
				if !strings.HasPrefix(cal.Name(), "GetWithExpiration") || core.ShortPkg(core.FuncPkg(cal)) != "cache" {
					continue
				}
				n++
				written := false
				for _, r := range *call.Referrers() {
					ex, ok := r.(*ssa.Extract)
					if !ok || ex.Index != 0 {
						continue
					}
					for _, r2 := range *ex.Referrers() {
						ia, ok := r2.(*ssa.IndexAddr)
						if !ok || ia.X != ssa.Value(ex) {
							continue
						}
						for _, r3 := range *ia.Referrers() {
							if st, ok := r3.(*ssa.Store); ok && st.Addr == ssa.Value(ia) {
								written = true
							}
						}
					}
				}
				R.Check(!written, rule, fn+"#cached-value-untouched", call.Pos(), fn, "the value obtained from the cache is only read", "an element of the value obtained from the cache is assigned in place: the cache hands out the stored slice itself, so this writes, without any lock, into memory that concurrent lookups and results already returned are reading")
				// the callback handed to the cache
				if len(call.Common().Args) >= 2 {
					if mc, ok := c.P.Def(call.Common().Args[1]).(*ssa.MakeClosure); ok {
						cb := mc.Fn.(*ssa.Function)
						for _, g := range ModReach(c.P, cb) {
							if core.FuncPkg(g) != core.FuncPkg(cb) {
								continue
							}
							for _, gb := range g.Blocks {
								for _, gin := range gb.Instrs {
									gc, ok := gin.(*ssa.Call)
									if !ok || gc.Common().StaticCallee() == nil {
										continue
									}
									if nm := gc.Common().StaticCallee().String(); nm == "(net.IP).To4" || nm == "(net.IP).To16" {
										R.Fail(rule, core.FuncName(g)+"#cached-address-family", gc.Pos(), core.FuncName(g), "the value stored in the cache passes through "+nm+": it is nil for an address of the other family, and the nil is cached as a success - the valid answer is lost and no provider is asked again until the entry expires")
									}
								}
							}
						}
					}
				}
			}
		}
	}
	R.Floor(rule+":cache-reads", n, 2)
}

func runC18(c *Ctx) {
	checkLookupsConcurrent(c, "R18.5")
	checkCachedValueUntouched(c, "R18.3")
	checkLookupSpelling(c)
	checkBodyReadWhole(c)
	R := c.R
	// ---- R18.1 / R18.2 writer
	f := c.P.Func("reversedns.GetReverseDnsForIPs")
	if f == nil {
		R.Fail("R18.1", "reversedns.GetReverseDnsForIPs#anchor", 0, "", "anchor reversedns.GetReverseDnsForIPs no longer resolves")
	} else {
		fn := core.FuncName(f)
		spawns := spawnSites(f)
		R.Floor("R18.1:spawns", len(spawns), 1)
		for _, sp := range spawns {
			g, isGo := sp.(*ssa.Go)
			cl := spawnedClosure(c.P, sp)
			// the goroutine's own address: its parameter, or a captured per-iteration variable (allocated inside the loop body, so
			// every goroutine has its own) that holds the range element
			own := ""
			var ownArg ssa.Value
			if cl != nil && len(cl.Params) == 1 && isGo {
				own = "param:" + cl.Params[0].Name()
				ownArg = g.Call.Args[0]
			} else if cl != nil && len(cl.Params) == 0 {
				loop := innermostLoop(f, sp.Block())
				for _, fv := range cl.FreeVars {
					al, isAl := c.P.Binding(fv).(*ssa.Alloc)
					if !isAl || loop == nil || !loop[al.Block()] {
						continue
					}
					if pt, ok := al.Type().Underlying().(*types.Pointer); !ok || !isNamed(pt.Elem(), "net", "IP") {
						continue
					}
					var st *ssa.Store
					nst := 0
					for _, r := range *al.Referrers() {
						if x, ok := r.(*ssa.Store); ok && x.Addr == ssa.Value(al) {
							st, nst = x, nst+1
						}
					}
					if nst == 1 {
						ownArg = st.Val
						// terms of the closure resolve a captured single-assignment variable to the spawner's value
						for _, pa := range firstPath(f, sp.Block()) {
							own = core.NewEnv(c.P, pa).Term(ownArg).String()
						}
					}
				}
			}
			if cl == nil || own == "" {
				R.Fail("R18.1", fn+"#goroutine", sp.Pos(), fn, "the lookup goroutine has no address of its own (neither a parameter nor a per-iteration variable holding the range element)")
				continue
			}
			// every address gets its own lookup: the go statement is passed on every iteration of the range loop
			if loop := innermostLoop(f, sp.Block()); loop != nil {
				every := true
				for b := range loop {
					for _, sx := range b.Succs {
						if loop[sx] && sx.Dominates(b) && sx != b && !sp.Block().Dominates(b) {
							// an iteration that skips the goroutine: tolerated only for the empty address (len(elem) == 0), which
							// cannot resolve and which no reader can ask for by its bytes
							if !skipsEmptyOnly(c, f, b, sp.Block()) {
								every = false
							}
						}
					}
				}
				R.Check(every, "R18.1", fn+"#one-lookup-per-address", sp.Pos(), fn, "a lookup goroutine is started for every element of the input", "some iterations skip the lookup goroutine: addresses that differ only in representation (4-byte vs 16-byte form) or that were 'seen' never get their names although the reader asks for them by their own bytes")
			} else {
				R.Fail("R18.1", fn+"#one-lookup-per-address", sp.Pos(), fn, "the lookup goroutine is not started from a loop over the input")
			}
			// argument at the go statement is the range element
			for _, pa := range firstPath(f, sp.Block()) {
				env := core.NewEnv(c.P, pa)
				a := env.Term(ownArg)
				ok := a.Op == "index" && len(f.Params) > 0 && a.Args[0].String() == "param:"+f.Params[0].Name()
				R.Check(ok, "R18.1", fn+"#go-arg", sp.Pos(), fn, "the goroutine receives ips[i] by value", "the goroutine receives "+a.String())
			}
			// the goroutine's paths with the helpers of the package opened (a collector type with a locked record method, ...)
			np := 0
			cases := map[bool]bool{}
			for _, ip := range InlinedPaths(c.P, cl, inlineOpts{pkg: core.FuncPkg(cl), stop: func(h *ssa.Function) bool { return h.Signature.Results().Len() == 2 }}) {
				np++
				failed := false
				var lookupArg *core.Term
				for _, a := range ip.Atoms {
					nn := a.Norm()
					if nn.Cond.Op == "binop" && nn.Cond.Name == "==" && nn.Cond.Args[1].IsConst("nil") && nn.Cond.Args[0].Op == "extract" {
						failed = !nn.Sign
						call := nn.Cond.Args[0].Args[0]
						if call.Op == "call" && len(call.Args) > 0 {
							lookupArg = call.Args[0]
						}
					}
				}
				cases[failed] = true
				var updates []Event
				for _, ev := range ip.Events {
					if ev.Kind == "mapupdate" {
						updates = append(updates, ev)
					}
				}
				key := fmt.Sprintf("%s#path[failed=%v]", core.FuncName(cl), failed)
				if failed {
					R.Check(len(updates) == 0, "R18.2", key, cl.Pos(), core.FuncName(cl), "a failed lookup writes nothing", "a failed lookup still writes the result map")
					continue
				}
				ok := len(updates) == 1 && lookupArg != nil && lookupArg.String() == own
				if ok {
					k, v := updates[0].Elems[0], updates[0].Val
					ok = k.String() == "conv[string]("+own+")" && v.Op == "extract" && v.Name == "0" && v.Args[0].Op == "call" && len(v.Args[0].Args) > 0 && v.Args[0].Args[0].String() == own
					R.Check(ok, "R18.1", key, cl.Pos(), core.FuncName(cl), "result[string(ip)] = names looked up for that same ip", "map entry is "+k.String()+" → "+v.String()+": key and lookup argument are not the goroutine's own ip")
				} else {
					R.Fail("R18.1", key, cl.Pos(), core.FuncName(cl), "successful lookup does not store exactly one entry keyed by its own ip")
				}
			}
			np = len(cases)
			R.Floor("R18.1:goroutine-paths", np, 2)
		}
		rps := InlinedPaths(c.P, f, inlineOpts{pkg: core.FuncPkg(f), stop: hasLoop})
		okNil := len(rps) > 0
		for _, rp := range rps {
			if len(rp.Results) < 2 || !rp.Results[1].IsConst("nil") {
				okNil = false
			}
		}
		R.Check(okNil, "R18.2", fn+"#never-fails", f.Pos(), fn, "lookup failures never fail the batch", "GetReverseDnsForIPs can return an error: one failed lookup would drop all names")
	}
	// ---- reader
	e := c.P.Func("(*result.Results).EnrichWithReverseDns")
	if e == nil {
		R.Fail("R18.1", "result.EnrichWithReverseDns#anchor", 0, "", "anchor (*result.Results).EnrichWithReverseDns no longer resolves")
	} else {
		fn := core.FuncName(e)
		R.Check(e.Signature.Results().Len() == 0, "R18.2", fn+"#no-error", e.Pos(), fn, "enrichment cannot fail the request", "EnrichWithReverseDns now returns a value")
		nst := 0
		assignedKinds := map[string]bool{}
		// the pass may be split over methods of the document's types (a per-run method that attaches the names)
		var scope []*ssa.Function
		for _, g := range ModReach(c.P, e) {
			if core.FuncPkg(g) == core.FuncPkg(e) {
				scope = append(scope, g)
			}
		}
		for _, g := range scope {
			for _, b := range g.Blocks {
				for _, in := range b.Instrs {
					st, ok := in.(*ssa.Store)
					if !ok {
						continue
					}
					fa, ok := st.Addr.(*ssa.FieldAddr)
					if !ok {
						continue
					}
					name := structFieldName(fa)
					root, _ := addrRootFields(st.Addr)
					if al, isA := root.(*ssa.Alloc); isA && !al.Heap {
						continue
					}
					if name != "ReverseDns" {
						if len(g.Params) > 0 && root == ssa.Value(g.Params[0]) || isNamedStruct(fa.X.Type(), "result") {
							R.Fail("R18.2", fn+"#other-store["+name+"]", st.Pos(), fn, "enrichment writes the field "+name+" of the document: it may only attach names")
						}
						continue
					}
					nst++
					// a store through a parameter of a helper reaches the document only if every caller passes an address inside the
					// document, not the address of a copy (a range variable)
					if pr, isParam := root.(*ssa.Parameter); isParam && g != e {
						idx := 0
						for k, q := range g.Params {
							if q == pr {
								idx = k
							}
						}
						if n := c.P.CallGraph().Nodes[g]; n != nil {
							for _, in := range n.In {
								if in.Caller.Func == nil || !core.InModule(in.Caller.Func) || in.Site.Common().IsInvoke() || idx >= len(in.Site.Common().Args) {
									continue
								}
								aroot, _ := addrRootFields(in.Site.Common().Args[idx])
								if al, isAl := aroot.(*ssa.Alloc); isAl {
									if _, isStruct := al.Type().Underlying().(*types.Pointer).Elem().Underlying().(*types.Struct); isStruct {
										R.Fail("R18.1", fmt.Sprintf("%s#assign-to-copy[%s]", fn, core.FuncName(g)), in.Site.Pos(), fn, "the names are attached through "+core.FuncName(g)+" to a copy of the document's element ("+al.Name()+", a local variable): fields held by value (the destination) keep no names")
									}
								}
							}
						}
					}
					for _, pa := range firstPath(g, b) {
						env := core.NewEnv(c.P, pa)
						owner := env.Term(fa.X)
						v := env.Term(st.Val)
						// the map is what the batch lookup returned (handed down as a parameter, if the store sits in a helper)
						fromBatch := v.Op == "lookup" && strings.Contains(v.Args[0].String(), "GetReverseDnsForIPs")
						if !fromBatch {
							// the map read: directly, or inside a one-line accessor of a named map type (names.namesFor(ip))
							var mp ssa.Value
							if lk, isLk := st.Val.(*ssa.Lookup); isLk {
								mp = lk.X
							} else if acc, isCall := st.Val.(*ssa.Call); isCall && !acc.Common().IsInvoke() {
								if h := acc.Common().StaticCallee(); h != nil && core.InModule(h) && len(h.Blocks) == 1 {
									if ret, isRet := h.Blocks[0].Instrs[len(h.Blocks[0].Instrs)-1].(*ssa.Return); isRet && len(ret.Results) == 1 {
										if lk, isLk := ret.Results[0].(*ssa.Lookup); isLk {
											for k, q := range h.Params {
												if lk.X == ssa.Value(q) && k < len(acc.Common().Args) {
													mp = acc.Common().Args[k]
												}
											}
										}
									}
								}
							}
							for i := 0; mp != nil && i < 6; i++ {
								d := c.P.DefX(mp)
								if ct, isCT := d.(*ssa.ChangeType); isCT {
									mp = ct.X
									continue
								}
								if ex, isEx := d.(*ssa.Extract); isEx {
									if call, isCall := ex.Tuple.(*ssa.Call); isCall && call.Common().StaticCallee() != nil && core.FuncName(call.Common().StaticCallee()) == "reversedns.GetReverseDnsForIPs" {
										fromBatch = true
									}
								}
								break
							}
						}
						// v = lookup(map, conv[string](X.IPAddress)) with X the owner
						ok := v.Op == "lookup" && v.Args[1].Op == "conv" && v.Args[1].Name == "string" && v.Args[1].Args[0].Op == "field" && v.Args[1].Args[0].Name == "IPAddress" &&
							sameOwner(v.Args[1].Args[0].Args[0], owner) && fromBatch
						assignedKinds[ownerKind(owner)] = true
						R.Check(ok, "R18.1", fmt.Sprintf("%s#assign[%s]", fn, ownerKind(owner)), st.Pos(), fn, "names = map[string(own address)] assigned to the owner of that address", "names assigned to "+owner.String()+" come from "+v.String())
					}
				}
			}
		}
		R.Floor("R18.1:reader-assignments", nst, 2)
		// every kind of owner that gets names attached (destination, hop) has its address in the list handed to the batch lookup:
		// names are read from the map by the owner's own address, so an address that was never looked up gets none although the
		// resolver has them
		asked := map[string]bool{}
		for _, g := range scope {
			for _, b := range g.Blocks {
				for _, in := range b.Instrs {
					call, ok := in.(*ssa.Call)
					if !ok {
						continue
					}
					bi, ok := call.Common().Value.(*ssa.Builtin)
					if !ok || bi.Name() != "append" || len(call.Common().Args) != 2 {
						continue
					}
					sl, ok := call.Type().Underlying().(*types.Slice)
					if !ok || !isNamed(sl.Elem(), "net", "IP") {
						continue
					}
					for _, pa := range firstPath(g, b) {
						env := core.NewEnv(c.P, pa)
						var elems []*core.Term
						if s2, ok := call.Common().Args[1].(*ssa.Slice); ok {
							if arr, ok := s2.X.(*ssa.Alloc); ok {
								for _, r := range *arr.Referrers() {
									if ia, ok := r.(*ssa.IndexAddr); ok {
										for _, r2 := range *ia.Referrers() {
											if st, ok := r2.(*ssa.Store); ok && st.Addr == ssa.Value(ia) {
												elems = append(elems, env.Term(st.Val))
											}
										}
									}
								}
							}
						}
						for _, t := range elems {
							if t.Op == "field" && t.Name == "IPAddress" && len(t.Args) == 1 {
								asked[ownerKind(t.Args[0])] = true
							}
						}
					}
				}
			}
		}
		for _, k := range []string{"destination", "hop"} {
			if assignedKinds[k] {
				R.Check(asked[k], "R18.1", fmt.Sprintf("%s#looked-up[%s]", fn, k), e.Pos(), fn, "the "+k+" addresses are handed to the batch lookup", "names are attached to the "+k+" from the lookup map, but the "+k+"'s address is never put into the list handed to the batch lookup: the resolver is not asked for it and the names stay empty unless another entry happens to have byte-identical address bytes")
			}
		}
		// hop lists are never written
		for _, g := range scope {
			for _, b := range g.Blocks {
				for _, in := range b.Instrs {
					if call, ok := in.(*ssa.Call); ok {
						if bi, ok := call.Common().Value.(*ssa.Builtin); ok && bi.Name() == "append" {
							// appends to the local ips list only
							if st := appendTarget(call); st != nil {
								if al, ok := st.Addr.(*ssa.Alloc); !ok || al.Heap {
									R.Fail("R18.2", fn+"#append", call.Pos(), fn, "enrichment appends to something other than its local address list")
								}
							}
						}
					}
				}
			}
		}
	}
	// ---- R18.3 cache
	ninst := 0
	for _, f := range c.P.ModFuncs {
		if f.Origin() == nil || core.FuncName(f.Origin()) != "cache.GetWithExpiration" && !strings.HasPrefix(f.Name(), "GetWithExpiration[") {
			continue
		}
		if len(f.Blocks) == 0 || len(f.TypeArgs()) == 0 {
			continue // the uninstantiated generic body is not executable code
		}
		generic := false
		for _, ta := range f.TypeArgs() {
			if _, ok := ta.(*types.TypeParam); ok {
				generic = true
			}
		}
		if generic {
			continue
		}
		ninst++
		fn := core.FuncName(f)
		// inlined paths: the cache consultation may sit in a typed lookup helper of the package
		for _, rp := range InlinedPaths(c.P, f, inlineOpts{pkg: core.FuncPkg(f)}) {
			found, fsign := atomTrue(rp.Atoms, func(t *core.Term) bool {
				return t.Op == "extract" && t.Name == "1" && strings.Contains(t.Args[0].String(), ".Get(")
			})
			var cbCalled, setCalled bool
			for _, ev := range rp.Events {
				if ev.Kind != "call" {
					continue
				}
				if ci, ok := ev.Instr.(*ssa.Call); ok {
					if pv, ok := ci.Common().Value.(*ssa.Parameter); ok && pv.Parent() == f {
						cbCalled = true // the callback parameter is invoked
					}
				}
				if strings.HasSuffix(ev.Callee, ".Set") && strings.Contains(ev.Callee, "cache") {
					setCalled = true
				}
			}
			key := fmt.Sprintf("cache.GetWithExpiration#path[%s]", rp.Desc)
			switch {
			case !found:
				R.FailPath("R18.3", key, rp.Ret.Pos(), fn, "a path does not consult the cache first", rp.Desc)
			case fsign:
				ok := !cbCalled && !setCalled && rp.Results[1].IsConst("nil") && strings.Contains(rp.Results[0].String(), ".Get(")
				R.Check(ok, "R18.3", "cache.GetWithExpiration#hit", rp.Ret.Pos(), fn, "a hit returns the stored value without calling the callback", fmt.Sprintf("on a hit: callback called=%v, Set called=%v, returns %s", cbCalled, setCalled, rp.Results[0].String()))
			default:
				f1, s1 := atomTrue(rp.Atoms, func(t *core.Term) bool {
					return t.Op == "binop" && t.Name == "==" && t.Args[1].IsConst("nil") && t.Args[0].Op == "extract" && t.Args[0].Name == "1" && t.Args[0].Args[0].Op == "call" && strings.Contains(t.Args[0].Args[0].String(), "param:")
				})
				okErr := f1 && (s1 == setCalled)
				R.Check(cbCalled && okErr, "R18.3", fmt.Sprintf("cache.GetWithExpiration#miss[err==nil:%v]", s1), rp.Ret.Pos(), fn, "on a miss the callback runs and its result is stored exactly when err == nil", fmt.Sprintf("on a miss: callback called=%v, err tested=%v, err==nil=%v, Set called=%v: failures must never be cached and successes must be", cbCalled, f1, s1, setCalled))
				// what a miss hands back is what the callback produced: its error when it failed (never a substitute value with a
				// nil error: a remembered older answer would outlive the caller's expiry), its value when it succeeded
				fromCb := func(t *core.Term, idx string) bool {
					return t.Has(func(x *core.Term) bool {
						return x.Op == "extract" && x.Name == idx && len(x.Args) == 1 && x.Args[0].Op == "call" && strings.Contains(x.Args[0].String(), "param:")
					})
				}
				if f1 && cbCalled && len(rp.Results) == 2 {
					if s1 {
						R.Check(fromCb(rp.Results[0], "0") && rp.Results[1].IsConst("nil") || fromCb(rp.Results[1], "1"), "R18.3", "cache.GetWithExpiration#miss-returns[ok]", rp.Ret.Pos(), fn, "a successful miss returns the callback's value", "after a successful callback the function returns "+rp.Results[0].String()+", not the callback's value")
					} else {
						// the regular entry of this very key, stored meanwhile by a concurrent caller: what a call arriving now would
						// get as an ordinary hit, bounded by the caller's expiry
						sameKeyHit := rp.Results[1].IsConst("nil") && rp.Results[0].Has(func(x *core.Term) bool {
							return x.Op == "call" && strings.HasSuffix(x.Name, ".Get") && len(x.Args) >= 2 && x.Args[len(x.Args)-1].String() == "param:key"
						})
						R.Check(sameKeyHit || !rp.Results[1].IsConst("nil") && fromCb(rp.Results[1], "1"), "R18.3", "cache.GetWithExpiration#miss-returns[failed]", rp.Ret.Pos(), fn, "a failed miss returns the callback's error", "after a failed callback the function returns ("+rp.Results[0].String()+", "+rp.Results[1].String()+"): the failure is replaced by a substitute answer with no error, so a value older than the caller's expiry (or one that was never valid for this key) is served as a fresh success")
					}
				}
			}
		}
	}
	R.Floor("R18.3:instantiations", ninst, 2)
	// R18.3b: the callbacks handed to the cache do not turn a failed lookup into a success (which the cache would then store):
	// on every inlined path of a callback on which the error of a call it made is not known to be nil, the callback returns a
	// non-nil error
	ncb := 0
	for _, f := range c.P.ModFuncs {
		for _, b := range f.Blocks {
			for _, in := range b.Instrs {
				call, ok := in.(*ssa.Call)
				if !ok {
					continue
				}
				cal := call.Common().StaticCallee()
				if cal == nil || cal.Origin() == nil && !strings.HasPrefix(cal.Name(), "GetWithExpiration") || cal.Origin() != nil && core.FuncName(cal.Origin()) != "cache.GetWithExpiration" {
					continue
				}
				if core.ShortPkg(core.FuncPkg(f)) == "cache" {
					continue
				}
				var cb *ssa.Function
				for _, a := range call.Common().Args {
					if mc, ok := c.P.Def(a).(*ssa.MakeClosure); ok {
						cb, _ = mc.Fn.(*ssa.Function)
					} else if fv, ok := a.(*ssa.Function); ok {
						cb = fv
					}
				}
				if cb == nil {
					R.Fail("R18.3", core.FuncName(f)+"#cache-callback", call.Pos(), core.FuncName(f), "the callback handed to the cache cannot be resolved: undecided")
					continue
				}
				ncb++
				cfn := core.FuncName(cb)
				res := cb.Signature.Results()
				if res.Len() != 2 || !isErrorType(res.At(1).Type()) {
					continue
				}
				bad := ""
				for _, ip := range InlinedPaths(c.P, cb, inlineOpts{pkg: core.FuncPkg(cb), stop: hasLoop}) {
					if !ip.Results[1].IsConst("nil") {
						continue
					}
					// a success return: every error a call produced on this path was tested nil
					for _, ev := range ip.Events {
						cl, ok := ev.Instr.(*ssa.Call)
						if !ok || ev.Kind != "call" || cl.Referrers() == nil {
							continue
						}
						var errv ssa.Value
						if tup, ok := cl.Type().(*types.Tuple); ok {
							for _, r := range *cl.Referrers() {
								if ex, ok := r.(*ssa.Extract); ok && ex.Index == tup.Len()-1 && isErrorType(ex.Type()) {
									errv = ex
								}
							}
						} else if isErrorType(cl.Type()) {
							errv = cl
						}
						if errv == nil {
							continue
						}
						known := false
						for _, a := range ip.Atoms {
							nn := a.Norm()
							if nn.Sign && nn.Cond.Op == "binop" && nn.Cond.Name == "==" && nn.Cond.Args[1].IsConst("nil") && nn.Cond.Args[0].Val == errv {
								known = true
							}
						}
						if !known {
							bad = "returns a nil error at " + c.P.PosStr(ip.Ret.Pos()) + " on a path where the error of " + ev.Callee + " (" + c.P.PosStr(cl.Pos()) + ") is not known to be nil"
						}
					}
				}
				R.Check(bad == "", "R18.3", cfn+"#failure-stays-failure", cb.Pos(), cfn, "the cache callback reports every failed call as an error", "the cache callback "+bad+": the failure is handed to the cache as a success and stored, so later lookups get the empty value without asking again")
			}
		}
	}
	R.Floor("R18.3:cache-callbacks", ncb, 2)
	// ---- R18.4 providers
	gp := c.P.Func("publicip.GetPublicIP")
	if gp == nil {
		R.Fail("R18.4", "publicip.GetPublicIP#anchor", 0, "", "anchor publicip.GetPublicIP no longer resolves")
	} else {
		fn := core.FuncName(gp)
		// the checker call sits in a range loop over @publicip.ipCheckers; success edge returns its value; failure edge stays in the loop
		var call *ssa.Call
		for _, b := range gp.Blocks {
			for _, in := range b.Instrs {
				if cl, ok := in.(*ssa.Call); ok && calleeIs(cl, "publicip.getPublicIPUsingIPChecker") {
					call = cl
				}
			}
		}
		if call == nil {
			R.Fail("R18.4", fn+"#provider-call", gp.Pos(), fn, "GetPublicIP no longer calls the per-provider fetch")
		} else {
			loop := innermostLoop(gp, call.Block())
			okLoop := loop != nil
			okArg := false
			for _, pa := range firstPath(gp, call.Block()) {
				env := core.NewEnv(c.P, pa)
				a := env.Term(call.Common().Args[len(call.Common().Args)-1])
				// range form (rangeindex+1) or index-loop form (the induction variable itself), over the list or a snapshot of it
				okArg = a.Op == "index" && strings.Contains(a.Args[0].String(), "@publicip.ipCheckers") && a.Args[1].Has(func(z *core.Term) bool { return z.Op == "loopphi" })
			}
			iff, _ := call.Block().Instrs[len(call.Block().Instrs)-1].(*ssa.If)
			okEdges := false
			if iff != nil && loop != nil {
				cc, tIdx := condCall(iff)
				if cc == call {
					failB, succB := call.Block().Succs[tIdx], call.Block().Succs[1-tIdx]
					ret, isRet := succB.Instrs[len(succB.Instrs)-1].(*ssa.Return)
					okEdges = isRet && valueFrom(ret.Results[0], call, 0) && reachAvoiding(failB, call.Block(), nil, nil) && loop[failB]
				}
			}
			// every provider gets its own time budget: the context handed to the per-provider fetch is the caller's, not one that a
			// deadline was attached to before the loop (a shared deadline is used up by the first slow provider; the following
			// ones then fail at once although they are healthy)
			if loop != nil && len(call.Common().Args) > 0 {
				okCtx := true
				if ex, ok := c.P.Def(call.Common().Args[0]).(*ssa.Extract); ok {
					if src, ok := ex.Tuple.(*ssa.Call); ok && src.Common().StaticCallee() != nil {
						nm := src.Common().StaticCallee().String()
						if (nm == "context.WithTimeout" || nm == "context.WithDeadline") && !loop[src.Block()] {
							okCtx = false
						}
					}
				}
				R.Check(okCtx, "R18.4", fn+"#per-provider-budget", call.Pos(), fn, "each provider is asked under the caller's context (its own timeout is attached per call)", "all providers share one deadline attached before the loop: a slow or failing first provider uses it up and every later provider fails immediately, so a healthy provider further down the list is never really asked")
			}
			R.Check(okLoop && okArg && okEdges, "R18.4", fn+"#iteration", call.Pos(), fn, "providers are asked in list order; the first nil-error answer is returned, failures move on to the next", fmt.Sprintf("provider iteration broken: in range loop=%v, argument is ipCheckers[i]=%v, success returns/failed continues=%v", okLoop, okArg, okEdges))
		}
	}
	hr := c.P.Func("publicip.handleRequest")
	if hr == nil {
		R.Fail("R18.4", "publicip.handleRequest#anchor", 0, "", "anchor publicip.handleRequest no longer resolves")
	} else {
		fn := core.FuncName(hr)
		// inlined paths (the interpretation of the answer may live in helpers: a tail-called parser, a status predicate) and
		// interval bounds on the status code instead of one spelling of the range test
		n4xx, nbad := 0, 0
		exact := false
		for _, rp := range InlinedPaths(c.P, hr, inlineOpts{pkg: core.FuncPkg(hr)}) {
			if len(rp.Results) != 2 || rp.Results[1].IsConst("nil") {
				continue
			}
			perm := strings.Contains(rp.Results[1].String(), "backoff.Permanent(")
			// the status code term on this path
			var status *core.Term
			received := 0
			invalidBody := false
			for _, a := range rp.Atoms {
				nn := a.Norm()
				nn.Cond.Walk(func(x *core.Term) bool {
					if x.Op == "field" && x.Name == "StatusCode" && status == nil {
						status = x
					}
					return true
				})
				s := nn.Cond.String()
				if nn.Sign && (strings.HasSuffix(s, ".Do(param:client, param:req)#1 == nil)") || strings.Contains(s, "io.ReadAll(") && strings.HasSuffix(s, "#1 == nil)")) {
					received++
				}
				if nn.Sign && strings.Contains(s, "net.ParseIP") && strings.HasSuffix(s, "== nil)") {
					invalidBody = true
				}
			}
			bd := bounds{lo: math.Inf(-1), hi: math.Inf(1)}
			if status != nil {
				bd = atomBounds(rp.Atoms, status.Key())
			}
			is4xx := bd.loK && bd.hiK && bd.lo >= 400 && bd.hi <= 499
			may4xx := !(bd.hiK && bd.hi < 400) && !(bd.loK && bd.lo >= 500)
			switch {
			case is4xx:
				n4xx++
				if bd.lo == 400 && bd.hi == 499 {
					exact = true
				}
				R.Check(perm, "R18.4", fn+"#client-error", rp.Ret.Pos(), fn, "a 4xx answer is final for the provider (Permanent)", "a 4xx answer is retried: client errors must be final for the provider")
			case invalidBody:
				nbad++
				R.Check(perm, "R18.4", fn+"#invalid-body", rp.Ret.Pos(), fn, "an invalid body is final for the provider (Permanent)", "an invalid body is retried: it must be final for the provider")
			case received >= 2 && may4xx && !perm:
				R.FailPath("R18.4", fn+"#client-error-retried", rp.Ret.Pos(), fn, "an answer that was received completely and may carry a 4xx status is reported with a retryable error ("+rp.Results[1].String()+"): client errors must be final for the provider", rp.Desc)
			}
		}
		R.Floor("R18.4:4xx-paths", n4xx, 1)
		R.Floor("R18.4:invalid-body-paths", nbad, 1)
		R.Check(exact, "R18.4", fn+"#4xx-range", hr.Pos(), fn, "client errors are 400 <= status <= 499", "no path treats exactly the range 400..499 as a client error: the client-error range test changed")
	}
	// ---- R18.5
	checkClosures(c)
}

func structFieldName(fa *ssa.FieldAddr) string {
	return core.FieldName(fa)
}

func sameOwner(a, b *core.Term) bool {
	if a.Key() == b.Key() {
		return true
	}
	// run.Destination via &Runs[i] : compare index keys
	ia, ja := hopIndex(a)
	ib, jb := hopIndex(b)
	if ia != "" && ia == ib && ja == jb {
		return true
	}
	// destination: a = X.Destination, b = X.Destination
	return strings.TrimSuffix(a.String(), ".Destination") == strings.TrimSuffix(b.String(), ".Destination") && a.String() != ""
}

func ownerKind(t *core.Term) string {
	if strings.HasSuffix(t.String(), ".Destination") {
		return "destination"
	}
	return "hop"
}

func appendTarget(call *ssa.Call) *ssa.Store {
	for _, r := range *call.Referrers() {
		if st, ok := r.(*ssa.Store); ok && st.Val == ssa.Value(call) {
			return st
		}
	}
	return nil
}
