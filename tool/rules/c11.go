package rules

import (
	"fmt"
	"go/token"
	"go/types"
	"sort"
	"strings"

	"golang.org/x/tools/go/ssa"

	"verif/tool/internal/core"
)

func init() {
	register("C11", "Decides the structural clauses of run isolation: (R11.1) every accept path of every matcher compares a value that is unique to the run by construction: the echo id handed out by nextEchoID (ICMP), the local port of a socket that stays open until the entry point returns (UDP strict mode, TCP SYN), the 4-tuple of the dialled connection (SACK), plus the AllocPacketID-based IP-ID for TCP SYN time-exceeded; (R11.2) the package-level allocators have sync/atomic types, code reachable from the run entry points touches them only through one read-modify-write Add per allocation, AllocPacketID returns Add(n)-n with n the widened maxTTL and the SYN driver's ids are base+ttl; (R11.3) no other package-level variable is written from code reachable from the run entry points (reviewed table: internally synchronised cache, logger settings, test seams) and each driver owns freshly allocated parser, buffer and probe table. The 65536-live-identifier arithmetic and the relaxed-source UDP case (indistinguishable by design) are not decided. Package-level variables that run-path code hands to calls by address or by reference (pools, maps, caches) must be in the reviewed table. Allocator state is recognised by structure (package-level sync/atomic values, or structs made of them; their methods); an identifier is the counter through conversions to >= 16 bits and constant shifts only.", runC11)
	darwinRules["C11"] = runC11
}

func runRoots(c *Ctx) []*ssa.Function {
	var roots []*ssa.Function
	for _, n := range []string{"(*traceroute.Traceroute).RunTraceroute", "(traceroute.Traceroute).RunTraceroute", "traceroute.runTracerouteOnce", "traceroute.runE2eProbeOnce",
		"icmp.RunICMPTraceroute", "sack.RunSackTraceroute", "(*udp.UDPv4).Traceroute", "(*tcp.TCPv4).Traceroute"} {
		if f := c.P.Func(n); f != nil {
			roots = append(roots, f)
		}
	}
	return roots
}

func runC11(c *Ctx) {
	R := c.R
	// shared with C09 (R09.1): a reply to ANOTHER run's probe is just an unrelated packet for this run – every error the matcher
	// builds from packet content must be retryable, otherwise a concurrent run's traffic aborts this one
	{
		ea := NewErrAnalysis(c)
		roots, _ := inboundRoots(c)
		checkErrClasses(c, ea, roots, "R09.1")
	}
	forEachMatcher(c, "R11", func(m *matcherCtx) {
		for si, s := range m.sites {
			if s.Ret == nil {
				continue
			}
			for _, pi := range s.Paths {
				cls := classify(pi)
				key := siteKey(c.P, m.d, s, si, cls)
				fn := core.FuncName(s.Fn)
				pos := s.Alloc.Pos()
				pstr := pi.Desc
				eqs := pathEqs(pi.Atoms)
				var disc []string
				if m.roles.RunID != "" && findEq(eqs, isEchoID, m.roles.RunID) != nil {
					disc = append(disc, "echo id == "+m.roles.RunID)
				}
				if m.roles.LocalPort != "" {
					if findEq(eqs, isQuotedSrcPort, m.roles.LocalPort) != nil {
						disc = append(disc, "quoted source port == "+m.roles.LocalPort)
					}
					if findEq(eqs, isTCPDstPort, m.roles.LocalPort) != nil {
						disc = append(disc, "TCP destination port == "+m.roles.LocalPort)
					}
				}
				// TCP SYN: IP-ID from the per-run AllocPacketID block is part of the lookup key
				for _, l := range findLookups(c.P, m.d, pi.Atoms) {
					for _, ka := range l.Call.Args[1:] {
						if access(unwrap(ka), ".GetICMPInfo", "0", "WrappedPacketID") && m.roles.Variant == "syn" {
							disc = append(disc, "lookup keyed by the quoted IP-ID (allocated per run by AllocPacketID)")
						}
					}
				}
				relaxed := false
				if m.roles.Relaxed != "" {
					f, sgn := atomTrue(pi.Atoms, func(t *core.Term) bool { return t.String() == m.roles.Relaxed })
					relaxed = f && sgn
				}
				switch {
				case len(disc) > 0:
					R.OK("R11.1", key, pos, fn, strings.Join(disc, "; "))
				case relaxed && (m.roles.Variant == "udp" || m.roles.Variant == "sack"):
					R.Info("R11.1", key+"/relaxed", pos, fn, "relaxed-source path: runs to one target are indistinguishable by design; the property is decided for strict mode")
				default:
					R.FailPath("R11.1", key, pos, fn, "accept path compares no per-run discriminator (echo id, reserved local port, per-run IP-ID): replies to another run's probes would be accepted", pstr)
				}
			}
		}
	})
	checkRunIDOrigin(c)
	checkAllocators(c, "R11.2")
	checkGlobals(c)
	checkDriverFreshness(c, "R11.3")
	checkPortHeld(c)
}

// checkRunIDOrigin: icmp driver's echoID field is assigned from nextEchoID().
func checkRunIDOrigin(c *Ctx) {
	R := c.R
	n := 0
	for _, f := range c.P.ModFuncs {
		for _, b := range f.Blocks {
			for _, in := range b.Instrs {
				st, ok := in.(*ssa.Store)
				if !ok {
					continue
				}
				fa, ok := st.Addr.(*ssa.FieldAddr)
				if !ok {
					continue
				}
				stt := fa.X.Type().Underlying().(*types.Pointer).Elem()
				if !isNamed(stt, core.ModulePath+"/icmp", "icmpDriver") {
					continue
				}
				name := stt.Underlying().(*types.Struct).Field(fa.Field).Name()
				if name != "echoID" {
					continue
				}
				n++
				okv := false
				if call, ok := st.Val.(*ssa.Call); ok {
					if cal := call.Common().StaticCallee(); cal != nil && core.FuncName(cal) == "icmp.nextEchoID" {
						okv = true
					}
				}
				// the constructor may receive the identifier: then every call of it in the module passes a nextEchoID() made for
				// that very call (same function, same loop nest)
				if pa, isParam := c.P.Def(st.Val).(*ssa.Parameter); isParam && pa.Parent() == f {
					idx := -1
					for k, q := range f.Params {
						if q == pa {
							idx = k
						}
					}
					sites, good := 0, 0
					if node := c.P.CallGraph().Nodes[f]; node != nil && idx >= 0 {
						for _, e := range node.In {
							if e.Caller.Func == nil || !core.InModule(e.Caller.Func) || e.Site == nil {
								continue
							}
							sites++
							cc := e.Site.Common()
							if cc.IsInvoke() || cc.StaticCallee() != f || idx >= len(cc.Args) {
								continue
							}
							if call, ok := c.P.Def(cc.Args[idx]).(*ssa.Call); ok {
								if cal := call.Common().StaticCallee(); cal != nil && core.FuncName(cal) == "icmp.nextEchoID" && call.Parent() == e.Site.Parent() && sameLoopNest(call.Parent(), call.Block(), e.Site.Block()) {
									good++
								}
							}
						}
					}
					okv = sites > 0 && sites == good
				}
				R.Check(okv, "R11.1", core.FuncName(f)+"#echoID", st.Pos(), core.FuncName(f), "echoID = nextEchoID() (fresh per driver instance)", "echoID is not assigned from the allocator nextEchoID()")
			}
		}
	}
	R.Floor("R11.1:echoID-stores", n, 1)
}

// allAtomic: the type is a sync/atomic value, or a struct all of whose fields are (an allocator: nothing in it can be touched
// except through atomic operations).
func allAtomic(t types.Type) bool {
	if nt, ok := t.(*types.Named); ok && nt.Obj().Pkg() != nil && nt.Obj().Pkg().Path() == "sync/atomic" {
		return true
	}
	st, ok := t.Underlying().(*types.Struct)
	if !ok || st.NumFields() == 0 {
		return false
	}
	for i := 0; i < st.NumFields(); i++ {
		if !allAtomic(st.Field(i).Type()) {
			return false
		}
	}
	return true
}

// counterBijection: t is the result of one atomic Add, converted to 16 or more bits and shifted by constants only – a bijection
// of the counter value modulo the identifier width, so two allocations differ as long as fewer than 2^16 are live.
func counterBijection(t *core.Term) bool {
	switch {
	case t.Op == "call" && strings.HasSuffix(t.Name, ".Add") && strings.Contains(t.Name, "atomic"):
		return true
	case t.Op == "conv":
		if bits, _ := core.IntBits(t.Typ); bits != 0 && bits < 16 {
			return false
		}
		return counterBijection(t.Args[0])
	case t.Op == "binop" && (t.Name == "+" || t.Name == "-") && len(t.Args) == 2:
		if t.Args[1].Op == "const" {
			return counterBijection(t.Args[0])
		}
		if t.Args[0].Op == "const" && t.Name == "+" {
			return counterBijection(t.Args[1])
		}
		// Add(n) - n with the same n: the start of the block
		if t.Name == "-" && t.Args[0].Op == "call" && strings.HasSuffix(t.Args[0].Name, ".Add") && len(t.Args[0].Args) == 2 && t.Args[0].Args[1].Key() == t.Args[1].Key() {
			return true
		}
	}
	return false
}

// checkAllocators is R11.2 / R14.3.
func checkAllocators(c *Ctx, rule string) {
	R := c.R
	reach := map[*ssa.Function]bool{}
	for _, f := range ModReach(c.P, runRoots(c)...) {
		reach[f] = true
	}
	natomic := 0
	// allocator state: package-level variables that are a sync/atomic value, or a struct made of sync/atomic values only
	allocTypes := map[*types.Named]bool{}
	for _, pk := range c.P.SSAPkgs {
		for _, m := range pk.Members {
			if g, ok := m.(*ssa.Global); ok && allAtomic(g.Type().(*types.Pointer).Elem()) {
				natomic++
				if nt, ok := g.Type().(*types.Pointer).Elem().(*types.Named); ok {
					allocTypes[nt] = true
				}
			}
		}
	}
	// every atomic cell (a global, or a field of a module struct type) is touched, per function on the run path, by exactly one Add
	type cellUse struct {
		ops map[string]int
		pos token.Pos
	}
	uses := map[*ssa.Function]map[string]*cellUse{}
	for _, f := range c.P.ModFuncs {
		for _, b := range f.Blocks {
			for _, in := range b.Instrs {
				ci, ok := in.(ssa.CallInstruction)
				if !ok {
					continue
				}
				cc := ci.Common()
				cal := cc.StaticCallee()
				if cal == nil || cal.Pkg == nil || cal.Pkg.Pkg.Path() != "sync/atomic" || len(cc.Args) == 0 {
					continue
				}
				cell := ""
				switch x := cc.Args[0].(type) {
				case *ssa.Global:
					if x.Pkg != nil && strings.HasPrefix(x.Pkg.Pkg.Path(), core.ModulePath) {
						cell = x.Pkg.Pkg.Name() + "." + x.Name()
					}
				case *ssa.FieldAddr:
					// a field of an allocator type (the type of a package-level allocator); atomic fields of other structs are
					// ordinary synchronisation, not identifier allocation
					if k, nt := typedFieldKey(x); k != "" && allocTypes[nt] {
						cell = k
					}
				}
				if cell == "" {
					continue
				}
				if uses[f] == nil {
					uses[f] = map[string]*cellUse{}
				}
				if uses[f][cell] == nil {
					uses[f][cell] = &cellUse{ops: map[string]int{}}
				}
				uses[f][cell].ops[cal.Name()]++
				uses[f][cell].pos = in.Pos()
			}
		}
	}
	var fs []*ssa.Function
	for f := range uses {
		fs = append(fs, f)
	}
	sort.Slice(fs, func(i, j int) bool { return core.FuncName(fs[i]) < core.FuncName(fs[j]) })
	for _, f := range fs {
		var cells []string
		for k := range uses[f] {
			cells = append(cells, k)
		}
		sort.Strings(cells)
		for _, gname := range cells {
			ops, pos := uses[f][gname].ops, uses[f][gname].pos
			key := fmt.Sprintf("%s#atomic[%s]", core.FuncName(f), gname)
			if !reach[f] {
				R.Info(rule, key, pos, core.FuncName(f), fmt.Sprintf("uses %v but is not reachable from the run entry points (test helper)", ops))
				continue
			}
			bad := ops["Load"] > 0 || ops["Store"] > 0 || ops["Swap"] > 0
			multi := 0
			for _, n := range ops {
				multi += n
			}
			R.Check(!bad && multi == 1 && ops["Add"] == 1, rule, key, pos, core.FuncName(f), "one atomic Add per allocation", fmt.Sprintf("allocator touches %s with %v: an allocation must be a single atomic read-modify-write (Add)", gname, ops))
		}
	}
	R.Floor(rule+":atomic-globals", natomic, 2)
	if rule != "R11.2" {
		return // the block arithmetic below is an isolation clause (C11), not a race-freedom clause (C14 R14.3)
	}
	// AllocPacketID shape
	f := c.P.Func("packets.AllocPacketID")
	if f == nil {
		R.Fail(rule, "packets.AllocPacketID#anchor", 0, "", "anchor packets.AllocPacketID no longer resolves")
	} else {
		// inlined paths: the read-modify-write may sit in a method of an allocator type
		rps := InlinedPaths(c.P, f, inlineOpts{pkg: core.FuncPkg(f), stop: hasLoop})
		for _, rp := range rps {
			r := rp.Results[0].StripConv()
			ok := r.Op == "binop" && r.Name == "-" && r.Args[0].Op == "call" && strings.HasSuffix(r.Args[0].Name, ".Add") &&
				len(r.Args[0].Args) == 2 && r.Args[0].Args[1].Key() == r.Args[1].Key() && len(f.Params) == 1 && r.Args[1].StripConv().Op == "param" && r.Args[1].StripConv().Name == f.Params[0].Name() && !r.Args[1].Narrowing()
			R.Check(ok, rule, "packets.AllocPacketID#range-start", rp.Ret.Pos(), core.FuncName(f), "returns Add(n)-n with n = the widened size parameter: consecutive half-open blocks of one counter", "result "+rp.Results[0].String()+" is not Add(n)-n with n the widened size parameter")
		}
	}
	// the echo id handed out is the counter value itself: no post-processing that could map two counter values to one id
	if ne := c.P.Func("icmp.nextEchoID"); ne == nil {
		R.Fail(rule, "icmp.nextEchoID#anchor", 0, "", "anchor icmp.nextEchoID no longer resolves")
	} else {
		rps := InlinedPaths(c.P, ne, inlineOpts{pkg: core.FuncPkg(ne), openAll: true, stop: hasLoop})
		ok := len(rps) == 1
		desc := ""
		for _, rp := range rps {
			desc = rp.Results[0].String()
			if !(counterBijection(rp.Results[0]) && len(rp.Atoms) == 0) {
				ok = false
			}
		}
		R.Check(ok, rule, "icmp.nextEchoID#result", ne.Pos(), core.FuncName(ne), "the echo id is the atomically incremented counter (mod 2^16), shifted by constants at most", fmt.Sprintf("the echo id is post-processed after the atomic increment (%d return paths, e.g. %s): two allocations can yield the same identifier while fewer than 65536 are live", len(rps), desc))
	}
	// SYN driver ids are base + widen(ttl) with base from AllocPacketID(MaxTTL)
	for _, d := range Drivers(c.P) {
		if d.Pkg == "tcp" {
			checkSynProbeIDs(c, d, rule)
		}
	}
	// basePacketID = AllocPacketID(config.MaxTTL)
	h := c.P.Func("tcp.newTCPDriver")
	if h != nil {
		found := false
		// in the constructor or a helper of its package it delegates the allocation to
		for _, hh := range ModReach(c.P, h) {
			if core.FuncPkg(hh) != core.FuncPkg(h) {
				continue
			}
			for _, b := range hh.Blocks {
				for _, in := range b.Instrs {
					if call, ok := in.(*ssa.Call); ok {
						if cal := call.Common().StaticCallee(); cal != nil && core.FuncName(cal) == "packets.AllocPacketID" {
							paths, _ := core.EnumPaths(hh, b, 100)
							for _, pa := range paths {
								env := core.NewEnv(c.P, pa)
								a := env.Term(call.Common().Args[0])
								found = true
								R.Check(strings.HasSuffix(a.String(), ".MaxTTL"), rule, "tcp.newTCPDriver#alloc-size", call.Pos(), core.FuncName(hh), "block size = config.MaxTTL", "IP-ID block size is "+a.String()+", not the run's MaxTTL")
							}
						}
					}
				}
			}
		}
		R.Check(found, rule, "tcp.newTCPDriver#alloc", h.Pos(), core.FuncName(h), "driver allocates its IP-ID block with AllocPacketID", "newTCPDriver no longer calls packets.AllocPacketID")
	} else {
		R.Fail(rule, "tcp.newTCPDriver#anchor", 0, "", "anchor tcp.newTCPDriver no longer resolves")
	}
}

// allowedGlobalWrites is the reviewed table of R11.3.
var allowedGlobalWrites = map[string]string{}

// sharedGlobals: reviewed package-level state that run-path code reaches by reference (one reason each).
var sharedGlobals = map[string]string{
	"icmp.curEchoID":      "the echo-id allocator: an atomic counter whose only use is one Add per allocation (decided by R11.2)",
	"packets.curPacketID": "the IP-ID block allocator: an atomic counter whose only use is one Add per allocation (decided by R11.2)",
}

// checkGlobals: no non-atomic package-level variable is written on the run path.
func checkGlobals(c *Ctx) {
	R := c.R
	fs := ModReach(c.P, runRoots(c)...)
	R.Analysed["run_path_functions"] = len(fs)
	nw := 0
	for _, f := range fs {
		for _, b := range f.Blocks {
			for _, in := range b.Instrs {
				var addr ssa.Value
				switch x := in.(type) {
				case *ssa.Store:
					addr = x.Addr
				case *ssa.MapUpdate:
					if l, ok := x.Map.(*ssa.UnOp); ok {
						addr = l.X
					}
				}
				if addr == nil {
					continue
				}
				root, _ := addrRootFields(addr)
				g, ok := root.(*ssa.Global)
				if !ok || g.Pkg == nil || !strings.HasPrefix(g.Pkg.Pkg.Path(), core.ModulePath) {
					continue
				}
				if f.Name() == "init" {
					continue
				}
				nw++
				name := g.Pkg.Pkg.Name() + "." + g.Name()
				key := fmt.Sprintf("%s#global-write[%s]", core.FuncName(f), name)
				if why, ok := allowedGlobalWrites[name]; ok {
					R.OK("R11.3", key, in.Pos(), core.FuncName(f), "reviewed: "+why)
				} else {
					R.Fail("R11.3", key, in.Pos(), core.FuncName(f), "package-level variable "+name+" is written from code reachable from the run entry points: state shared by concurrent runs")
				}
			}
		}
	}
	// every other USE of a module package-level variable on the run path: a plain load of a value that nothing on the run path
	// writes is a constant by the rule above; anything whose address is handed on (method calls on the variable, pools, maps,
	// caches) is state that concurrent runs share and must be in the reviewed table
	type guse struct {
		name   string
		typ    string
		fn     *ssa.Function
		in     ssa.Instruction
		atomic bool
	}
	seenUse := map[string]bool{}
	var uses []guse
	for _, f := range fs {
		if f.Name() == "init" {
			continue
		}
		for _, b := range f.Blocks {
			for _, in := range b.Instrs {
				// (A) the variable's address is an operand of a call (method with pointer receiver, pool, once, map helpers)
				// (B) a pointer / map / channel / interface loaded from it is an operand of a call
				ci, isCall := in.(ssa.CallInstruction)
				if !isCall {
					continue
				}
				var ops []ssa.Value
				ops = append(ops, ci.Common().Args...)
				if ci.Common().IsInvoke() {
					ops = append(ops, ci.Common().Value)
				}
				for _, op := range ops {
					var g *ssa.Global
					switch x := op.(type) {
					case *ssa.Global:
						g = x
					case *ssa.FieldAddr:
						g, _ = x.X.(*ssa.Global)
					case *ssa.UnOp:
						if gg, ok := x.X.(*ssa.Global); ok {
							switch x.Type().Underlying().(type) {
							case *types.Pointer, *types.Map, *types.Chan, *types.Interface:
								g = gg
							}
						}
					}
					if g == nil || g.Pkg == nil || !strings.HasPrefix(g.Pkg.Pkg.Path(), core.ModulePath) {
						continue
					}
					name := g.Pkg.Pkg.Name() + "." + g.Name()
					if seenUse[name] {
						continue
					}
					seenUse[name] = true
					uses = append(uses, guse{name, g.Type().(*types.Pointer).Elem().String(), f, in, allAtomic(g.Type().(*types.Pointer).Elem())})
				}
			}
		}
	}
	sort.Slice(uses, func(i, j int) bool { return uses[i].name < uses[j].name })
	for _, u := range uses {
		key := "run-path#shared-global[" + u.name + "]"
		if why, ok := sharedGlobals[u.name]; ok {
			R.OK("R11.3", key, u.in.Pos(), core.FuncName(u.fn), "reviewed: "+why)
		} else if strings.HasPrefix(u.typ, "sync/atomic.") || u.atomic {
			R.OK("R11.3", key, u.in.Pos(), core.FuncName(u.fn), "an atomic counter: its uses are decided by R11.2 (one Add per allocation)")
		} else {
			R.Fail("R11.3", key, u.in.Pos(), core.FuncName(u.fn), "package-level variable "+u.name+" ("+u.typ+") is reference-typed or used through its address on the run path and is not in the reviewed table: concurrent runs share whatever it holds")
		}
	}
	R.Floor("R11.3:shared-globals-reviewed", len(uses), 2)
	// positive control: the same query over ALL module functions must find the known setters
	ctl := 0
	for _, f := range c.P.ModFuncs {
		for _, b := range f.Blocks {
			for _, in := range b.Instrs {
				if st, ok := in.(*ssa.Store); ok {
					if root, _ := addrRootFields(st.Addr); root != nil {
						if g, ok := root.(*ssa.Global); ok && g.Pkg != nil && strings.HasPrefix(g.Pkg.Pkg.Path(), core.ModulePath) && f.Name() != "init" {
							ctl++
						}
					}
				}
			}
		}
	}
	R.Floor("R11.3:control(global stores found module-wide, e.g. log.SetLogLevel)", ctl, 1)
	R.OK("R11.3", "run-path#global-writes", 0, "", fmt.Sprintf("%d writes to module globals on the run path (%d functions scanned)", nw, len(fs)))
	// package-level variables of per-run types
	var bad []string
	for _, pk := range c.P.SSAPkgs {
		for _, m := range pk.Members {
			g, ok := m.(*ssa.Global)
			if !ok {
				continue
			}
			ts := g.Type().String()
			for _, t := range []string{"FrameParser", "SerializeBuffer", "Driver", "UDPv4", "TCPv4", "DecodingLayerParser"} {
				if strings.Contains(ts, t) && !strings.Contains(g.Name(), "Mock") {
					bad = append(bad, pk.Pkg.Name()+"."+g.Name())
				}
			}
		}
	}
	sort.Strings(bad)
	R.Check(len(bad) == 0, "R11.3", "module#per-run-typed-globals", 0, "", "no package-level variable holds a parser, serialise buffer, driver or per-run config", "package-level variable(s) of a per-run type: "+strings.Join(bad, ", "))
}

// checkDriverFreshness: constructors give each driver its own parser / buffer / table.
func checkDriverFreshness(c *Ctx, rule string) {
	R := c.R
	for _, d := range Drivers(c.P) {
		var ctor *ssa.Function
		var alloc *ssa.Alloc
		for _, f := range c.P.ModFuncs {
			for _, b := range f.Blocks {
				for _, in := range b.Instrs {
					if al, ok := in.(*ssa.Alloc); ok && al.Heap && types.Identical(al.Type().(*types.Pointer).Elem(), d.Named) {
						ctor, alloc = f, al
					}
				}
			}
		}
		if ctor == nil {
			R.Fail(rule, d.Name+"#constructor", d.ReceiveProbe.Pos(), d.Name, "no allocation site of the driver type found: constructor anchor lost")
			continue
		}
		st := d.Named.Underlying().(*types.Struct)
		checked := 0
		for _, r := range *alloc.Referrers() {
			fa, ok := r.(*ssa.FieldAddr)
			if !ok {
				continue
			}
			fname := st.Field(fa.Field).Name()
			ft := st.Field(fa.Field).Type()
			needFresh := false
			switch ft.Underlying().(type) {
			case *types.Slice, *types.Map:
				needFresh = true
			case *types.Pointer:
				needFresh = isFrameParser(ft)
			}
			if !needFresh {
				continue
			}
			for _, r2 := range *fa.Referrers() {
				s, ok := r2.(*ssa.Store)
				if !ok {
					continue
				}
				checked++
				fresh := false
				desc := fmt.Sprintf("%T", s.Val)
				switch v := s.Val.(type) {
				case *ssa.MakeSlice, *ssa.MakeMap:
					fresh = true
				case *ssa.Slice:
					// make([]T, const) compiles to a slice of a new array
					if al, ok := v.X.(*ssa.Alloc); ok && al.Heap {
						fresh = true
					}
				case *ssa.Const:
					fresh = v.Value == nil
				case *ssa.Call:
					if cal := v.Common().StaticCallee(); cal != nil {
						desc = cal.String()
						fresh = core.FuncName(cal) == "packets.NewFrameParser"
					}
				}
				R.Check(fresh, rule, fmt.Sprintf("%s#fresh[%s]", core.FuncName(ctor), fname), s.Pos(), core.FuncName(ctor), "field "+fname+" is a fresh allocation per driver", "field "+fname+" is initialised from "+desc+", not a fresh allocation: state may be shared between runs")
			}
		}
		R.Floor(rule+":fresh-fields:"+d.Name, checked, 2)
	}
	// NewFrameParser returns a fresh object
	if f := c.P.Func("packets.NewFrameParser"); f != nil {
		ok := false
		for _, b := range f.Blocks {
			if ret, isRet := b.Instrs[len(b.Instrs)-1].(*ssa.Return); isRet {
				if al, isAl := ret.Results[0].(*ssa.Alloc); isAl && al.Heap {
					ok = true
				}
			}
		}
		R.Check(ok, rule, "packets.NewFrameParser#fresh", f.Pos(), core.FuncName(f), "returns a new FrameParser", "does not return a fresh allocation")
	} else {
		R.Fail(rule, "packets.NewFrameParser#anchor", 0, "", "anchor packets.NewFrameParser no longer resolves")
	}
	// per-run configs are built inside the per-run function
	for _, ctor := range []string{"udp.NewUDPv4", "tcp.NewTCPv4"} {
		f := c.P.Func(ctor)
		if f == nil {
			R.Fail(rule, ctor+"#anchor", 0, "", "anchor "+ctor+" no longer resolves")
			continue
		}
		n := c.P.CallGraph().Nodes[f]
		callers := map[string]*ssa.Function{}
		if n != nil {
			for _, e := range n.In {
				if core.InModule(e.Caller.Func) {
					callers[core.FuncName(e.Caller.Func)] = e.Caller.Func
				}
			}
		}
		okc := len(callers) > 0
		var cl []string
		for k, cf := range callers {
			cl = append(cl, k)
			// the per-run function itself, one of its closures, or a helper that only it calls
			if !reachedOnlyFrom(c, cf, "traceroute.runTracerouteOnce", map[*ssa.Function]bool{}) {
				okc = false
			}
		}
		sort.Strings(cl)
		R.Check(okc, rule, ctor+"#per-run", f.Pos(), ctor, "constructed only inside the per-run function: "+strings.Join(cl, ","), "constructed outside the per-run function: "+strings.Join(cl, ","))
	}
}

// checkPortHeld: the socket that reserves the local port stays open until the entry point returns
// (its Close is deferred, or it is the dialled connection of SACK).
func checkPortHeld(c *Ctx) {
	R := c.R
	type ent struct{ fn, opener, what string }
	for _, e := range []ent{
		{"(*udp.UDPv4).Traceroute", "common.LocalAddrForHost", "UDP probe socket (source port of the run)"},
		{"(*tcp.TCPv4).Traceroute", "tcp.reserveLocalPort", "TCP listener reserving the source port"},
		{"sack.runSackTraceroute", "sack.dialSackTCP", "dialled SACK connection"},
	} {
		f := c.P.Func(e.fn)
		if f == nil {
			R.Fail("R11.1", e.fn+"#anchor", 0, "", "anchor "+e.fn+" no longer resolves")
			continue
		}
		var open *ssa.Call
		for _, b := range f.Blocks {
			for _, in := range b.Instrs {
				if call, ok := in.(*ssa.Call); ok {
					if cal := call.Common().StaticCallee(); cal != nil && core.FuncName(cal) == e.opener {
						open = call
					}
				}
			}
		}
		if open == nil {
			R.Fail("R11.1", e.fn+"#port-holder", f.Pos(), e.fn, "opener "+e.opener+" is no longer called: per-run port anchor lost")
			continue
		}
		// a deferred Close on a value extracted from the opener's result, and no non-deferred Close before the engine call
		deferred := false
		early := false
		for _, b := range f.Blocks {
			for _, in := range b.Instrs {
				var cc *ssa.CallCommon
				isDefer := false
				switch x := in.(type) {
				case *ssa.Defer:
					cc, isDefer = &x.Call, true
				case *ssa.Call:
					cc = &x.Call
				}
				if cc == nil || !cc.IsInvoke() || cc.Method.Name() != "Close" {
					continue
				}
				if ex, ok := cc.Value.(*ssa.Extract); ok && ex.Tuple == ssa.Value(open) {
					if isDefer {
						deferred = true
					} else if !guardedByConstFalse(c, in) {
						early = true
					}
				}
			}
		}
		R.Check(deferred && !early, "R11.1", e.fn+"#port-held", open.Pos(), e.fn, e.what+" is closed only by a deferred Close: it is held for the whole run", e.what+" is not held until the entry point returns (deferred close="+fmt.Sprint(deferred)+", early close="+fmt.Sprint(early)+")")
	}
}

// guardedByConstFalse: the instruction's block is only reachable through a branch on
// a struct field that every composite literal of the build sets to false (MustClosePort on linux/darwin).
func guardedByConstFalse(c *Ctx, in ssa.Instruction) bool {
	b := in.Block()
	if len(b.Preds) != 1 {
		return false
	}
	p := b.Preds[0]
	iff, ok := p.Instrs[len(p.Instrs)-1].(*ssa.If)
	if !ok || p.Succs[0] != b {
		return false
	}
	fld, ok := iff.Cond.(*ssa.Field)
	if !ok {
		if u, ok2 := iff.Cond.(*ssa.UnOp); ok2 {
			if fa, ok3 := u.X.(*ssa.FieldAddr); ok3 {
				st := fa.X.Type().Underlying().(*types.Pointer).Elem()
				return constFalseField(c, st, fa.Field)
			}
		}
		return false
	}
	return constFalseField(c, fld.X.Type(), fld.Field)
}

var constFieldCache = map[string]bool{}

// constFalseField: every store to that field in the module stores the constant false.
func constFalseField(c *Ctx, structT types.Type, field int) bool {
	k := fmt.Sprintf("%s|%s#%d", c.P.GOOS, structT.String(), field)
	if v, ok := constFieldCache[k]; ok {
		return v
	}
	res := true
	n := 0
	for _, f := range c.P.ModFuncs {
		for _, b := range f.Blocks {
			for _, in := range b.Instrs {
				st, ok := in.(*ssa.Store)
				if !ok {
					continue
				}
				fa, ok := st.Addr.(*ssa.FieldAddr)
				if !ok || fa.Field != field || !types.Identical(fa.X.Type().Underlying().(*types.Pointer).Elem(), structT) {
					continue
				}
				n++
				cst, ok := st.Val.(*ssa.Const)
				if !ok || cst.Value == nil || cst.Value.ExactString() != "false" {
					res = false
				}
			}
		}
	}
	if n == 0 {
		// never stored: zero value false everywhere
		res = true
	}
	constFieldCache[k] = res
	return res
}

// expandHelperResults: a call of a multi-block module helper is replaced by its per-path results (parameters substituted by the
// arguments) when the path conditions do not mention the ttl; anything else is returned unchanged.
func expandHelperResults(p *core.Prog, t *core.Term) []*core.Term {
	if t.Op != "call" {
		return []*core.Term{t}
	}
	g := p.Func(t.Name)
	if g == nil || len(g.Blocks) == 0 || len(g.Params) != len(t.Args) {
		return []*core.Term{t}
	}
	rps, ok := core.ReturnPaths(p, g, 200)
	if !ok || len(rps) == 0 {
		return []*core.Term{t}
	}
	sub := func(x *core.Term) *core.Term {
		if x.Op == "param" {
			for i, pa := range g.Params {
				if pa.Name() == x.Name {
					return t.Args[i]
				}
			}
		}
		return nil
	}
	var out []*core.Term
	for _, rp := range rps {
		if !core.Feasible(rp.Atoms) || len(rp.Results) != 1 {
			continue
		}
		for _, a := range rp.Atoms {
			if mentionsTTL(a.Cond.Subst(sub)) {
				return []*core.Term{t}
			}
		}
		out = append(out, expandHelperResults(p, rp.Results[0].Subst(sub))...)
	}
	if len(out) == 0 {
		return []*core.Term{t}
	}
	return out
}

// sameLoopNest: both blocks of f have the same innermost enclosing loop (or none).
func sameLoopNest(f *ssa.Function, a, b *ssa.BasicBlock) bool {
	la, lb := innermostLoop(f, a), innermostLoop(f, b)
	if len(la) != len(lb) {
		return false
	}
	for k := range la {
		if !lb[k] {
			return false
		}
	}
	return true
}
