package rules

import (
	"fmt"
	"strings"

	"golang.org/x/tools/go/ssa"

	"verif/tool/internal/core"
)

func init() {
	register("C04", "Decides, on every accept path of every matcher, what the stored ProbeResponse.IsDest can be: constant false; an expression that IS the comparison outer-source == target; or constant true only on paths that carry that comparison (R04.1), and that a possibly-true IsDest only occurs on the protocol's proof-of-arrival form: echo reply (ICMP), any accepted ICMP error in value form (UDP), SYN-ACK/RST from the target port (TCP SYN), SACK-carrying ACK or value form on time-exceeded (SACK) (R04.2). R04.3: GetDestinationHop returns the first IsDest hop and the e2e RTT is that hop's RTT (0 when none). Quantifies over all reply packets and responder addresses; decoder correctness is trusted. (R04.4) The other direction of 'exactly when': on the reply forms that prove arrival for the protocol (echo reply for ICMP; any ICMP quote for UDP; direct TCP for SYN; direct TCP and ICMP quote for SACK) IsDest is not constant false. (R04.5) IsDest of a reply / hop is stored only while that value is being built in the same function (or cleared); the parser's destination-unreachable test looks at the ICMP type alone. The IPv6 pair builder keeps the address family (R01.10, shared with C01).", runC04)
	darwinRules["C04"] = runC04
}

// isOuterSrcEqTarget recognises `outer.SrcAddr == target` / Compare(...) == 0 as a value.
func isOuterSrcEqTarget(t *core.Term, role string) bool {
	if t.Op != "binop" || t.Name != "==" {
		return false
	}
	x, y := t.Args[0], t.Args[1]
	if y.IsConst("0") && x.Op == "call" && strings.HasSuffix(x.Name, ".Compare") && len(x.Args) == 2 {
		x, y = x.Args[0], x.Args[1]
	}
	for _, pr := range [][2]*core.Term{{x, y}, {y, x}} {
		if isOuterSrcAddr(pr[0]) && hasLeaf(pr[1], role) && ownOnly(pr[1]) {
			return true
		}
	}
	return false
}

func runC04(c *Ctx) {
	R := c.R
	checkFamilySeparation(c)
	forEachMatcher(c, "R04", func(m *matcherCtx) {
		for si, s := range m.sites {
			if s.Ret == nil {
				continue
			}
			for _, pi := range s.Paths {
				cls := classify(pi)
				key := siteKey(c.P, m.d, s, si, cls)
				fn := core.FuncName(s.Fn)
				pos := s.Alloc.Pos()
				eqs := pathEqs(pi.Atoms)
				isd := pi.Fields["IsDest"]
				pstr := pi.Desc
				outerChecked := findEq(eqs, isOuterSrcAddr, m.roles.TargetAddr) != nil
				mayBeTrue := true
				switch {
				case isd.IsConst("false") || isd.Op == "zero":
					mayBeTrue = false
					R.OK("R04.1", key, pos, fn, "IsDest = constant false")
				case isd.IsConst("true"):
					if outerChecked {
						R.OK("R04.1", key, pos, fn, "IsDest = true on a path that compares the outer source with "+m.roles.TargetAddr)
					} else {
						R.FailPath("R04.1", key, pos, fn, "IsDest = true but no accepting comparison of the OUTER source address with the target ("+m.roles.TargetAddr+") on this path: a destination-form reply from any other host is marked destination", pstr)
					}
				case isOuterSrcEqTarget(isd, m.roles.TargetAddr):
					R.OK("R04.1", key, pos, fn, "IsDest = (outer source == target)")
				default:
					R.FailPath("R04.1", key, pos, fn, "IsDest = "+isd.String()+" is neither constant false, constant true under an outer-source check, nor the comparison outer source == target", pstr)
				}
				// R04.4 (ack-less forms): a direct TCP reply that this path admits WITHOUT the ACK flag (a bare RST) has no
				// meaningful acknowledgement number (it is 0 on the wire): the path may not depend on that field, or the reply that
				// proves arrival is dropped and the destination is never marked
				if cls.Form == "tcp-direct" && m.roles.Variant == "syn" {
					admitsNoAck := false
					for _, as := range flagAssignments(pi.Atoms) {
						if !as["ACK"] {
							admitsNoAck = true
						}
					}
					if admitsNoAck {
						onAck := ""
						for _, a := range pi.Atoms {
							if a.Cond.Has(func(x *core.Term) bool { return x.Op == "field" && x.Name == "Ack" }) {
								onAck = a.String()
							}
						}
						if onAck == "" {
							R.OK("R04.4", key+"/ackless", pos, fn, "a reply without the ACK flag is accepted without looking at its acknowledgement number")
						} else {
							R.FailPath("R04.4", key+"/ackless", pos, fn, "a direct reply that may lack the ACK flag (a bare RST) is accepted only under a condition on its acknowledgement number ("+onAck+"): that field is 0 / undefined without ACK, so the RST that proves the probe arrived is dropped and the destination is never marked", pstr)
						}
					}
				}
				// R04.4 the other direction of "exactly when": on the reply forms that prove arrival for this protocol, a reply
				// from the target must mark the destination – IsDest may not be constant false there
				mustMark := false
				switch m.roles.Variant {
				case "icmp":
					mustMark = cls.Form == "echo-reply"
				case "udp":
					mustMark = cls.Form == "icmp-quote"
				case "syn":
					mustMark = cls.Form == "tcp-direct"
				case "sack":
					mustMark = cls.Form == "tcp-direct" || cls.Form == "icmp-quote"
				}
				if mustMark {
					if mayBeTrue {
						R.OK("R04.4", key+"/marks", pos, fn, "a reply of the proof-of-arrival form can mark the destination on this path")
					} else {
						R.FailPath("R04.4", key+"/marks", pos, fn, "IsDest is constant false on a "+cls.Form+" accept path of the "+m.roles.Variant+" driver: a reply of this form sent by the target itself proves arrival for this protocol but would not mark the destination (the trace runs on to MaxTTL and e2e probes report loss)", pstr)
					}
				}
				// R04.2 proof-of-arrival form
				if !mayBeTrue {
					continue
				}
				okForm, why := false, ""
				switch m.roles.Variant {
				case "icmp":
					okForm = cls.Form == "echo-reply"
					why = "ICMP: only an echo reply proves arrival"
				case "udp":
					okForm = cls.Form == "icmp-quote" && !isd.IsConst("true")
					why = "UDP: any accepted ICMP error, in value form"
				case "syn":
					okForm = cls.Form == "tcp-direct"
					why = "TCP SYN: SYN-ACK/RST on the probe's flow (flags+ports decided by R01.3)"
					if okForm && findEq(eqs, isTCPSrcPort, m.roles.TargetPort) == nil {
						okForm = false
						why += "; source port not compared with the target port"
					}
				case "sack":
					if cls.Form == "tcp-direct" {
						// needs a found SACK edge
						f, sgn := atomTrue(pi.Atoms, func(t *core.Term) bool {
							return t.Op == "binop" && t.Name == "==" && t.Args[1].IsConst("nil") && access(t.Args[0], "getMinSack", "1")
						})
						okForm = f && sgn && findEq(eqs, isTCPSrcPort, m.roles.TargetPort) != nil
						why = "SACK: ACK from the target port carrying a SACK edge"
					} else {
						okForm = cls.Form == "icmp-quote" && !isd.IsConst("true")
						why = "SACK: time-exceeded in value form (sent by the target itself)"
					}
				}
				if okForm {
					R.OK("R04.2", key, pos, fn, why)
				} else {
					R.FailPath("R04.2", key, pos, fn, "IsDest may be true on a "+cls.Form+" path, which is not the proof-of-arrival form ("+why+")", pstr)
				}
			}
		}
	})
	runR043(c)
	checkIsDestWrittenOnce(c)
	checkUnreachablePredicate(c, "R04.4")
}

// checkIsDestWrittenOnce is R04.5: the destination mark is decided where the reply is matched and nowhere else – every store to
// ProbeResponse.IsDest (and to TracerouteHop.IsDest) initialises a value the same function has just allocated. A later write
// (the merge 'remembering' that a TTL reached the destination) marks a hop whose address and RTT came from another reply.
func checkIsDestWrittenOnce(c *Ctx) {
	R := c.R
	n := 0
	for _, f := range c.P.ModFuncs {
		if strings.Contains(core.FuncName(f), "Mock") || core.ShortPkg(core.FuncPkg(f)) == "testutils" {
			continue
		}
		for _, b := range f.Blocks {
			for _, in := range b.Instrs {
				st, ok := in.(*ssa.Store)
				if !ok {
					continue
				}
				fa, ok := st.Addr.(*ssa.FieldAddr)
				if !ok || core.FieldName(fa) != "IsDest" {
					continue
				}
				if !isNamed(fa.X.Type(), core.ModulePath+"/common", "ProbeResponse") && !isNamed(fa.X.Type(), core.ModulePath+"/result", "TracerouteHop") {
					continue
				}
				n++
				fresh := freshObject(fa.X, 0)
				fn := core.FuncName(f)
				zero := false
				if k, isK := st.Val.(*ssa.Const); isK && k.Value != nil && k.Value.ExactString() == "false" {
					zero = true // clearing the mark (redaction) cannot create a wrong destination
				}
				R.Check(fresh || zero, "R04.5", fmt.Sprintf("%s#isdest-store@b%d", fn, b.Index), st.Pos(), fn, "IsDest is set while the value is being built (or cleared)", "IsDest of an existing reply / hop is set after the fact: the mark no longer belongs to the reply whose address and RTT the hop shows (a time-exceeded from a router can end up marked as the destination)")
			}
		}
	}
	R.Floor("R04.5:isdest-stores", n, 4)
}

// freshObject: v is an object this function has just created – an allocation, or what a constructor (a module function whose every
// return hands out an object it created) returned.
func freshObject(v ssa.Value, depth int) bool {
	switch x := v.(type) {
	case *ssa.Alloc:
		return true
	case *ssa.Call:
		h := x.Common().StaticCallee()
		if h == nil || !core.InModule(h) || len(h.Blocks) == 0 || depth > 2 {
			return false
		}
		n := 0
		for _, b := range h.Blocks {
			if ret, ok := b.Instrs[len(b.Instrs)-1].(*ssa.Return); ok && b.Comment != "recover" {
				if len(ret.Results) == 0 || !freshObject(ret.Results[0], depth+1) {
					return false
				}
				n++
			}
		}
		return n > 0
	}
	return false
}

// checkUnreachablePredicate: the parser's "destination unreachable" test looks at the ICMP TYPE only. For UDP any ICMP error
// from the target proves arrival; a test on type AND code (port unreachable only) drops admin-prohibited / host-unreachable
// answers of the target, so the destination is never marked.
func checkUnreachablePredicate(c *Ctx, rule string) {
	R := c.R
	f := c.P.Func("(*packets.FrameParser).IsDestinationUnreachable")
	if f == nil {
		R.Fail(rule, "packets.IsDestinationUnreachable#anchor", 0, "", "anchor (*packets.FrameParser).IsDestinationUnreachable no longer resolves")
		return
	}
	fn := core.FuncName(f)
	rps, _ := core.ReturnPaths(c.P, f, 500)
	n := 0
	for _, rp := range rps {
		r := rp.Results[0]
		if r.Op == "const" {
			continue
		}
		n++
		ok := r.Op == "binop" && r.Name == "==" && len(r.Args) == 2
		if ok {
			typeOnly := false
			for _, a := range r.Args {
				if a.Op == "call" && strings.HasSuffix(a.Name, "TypeCode).Type") {
					typeOnly = true
				}
			}
			ok = typeOnly
		}
		R.Check(ok, rule, fmt.Sprintf("%s#type-only@b%d", fn, rp.Ret.Block().Index), rp.Ret.Pos(), fn, "destination-unreachable is recognised by its ICMP type alone", "destination-unreachable is recognised by "+r.String()+", not by the ICMP type alone: unreachable answers with other codes (admin-prohibited, host unreachable) sent by the target are not used, so the destination is never marked for UDP")
	}
	R.Floor(rule+":unreachable-forms", n, 2)
}

// R04.3: GetDestinationHop and runE2eProbeOnce.
func runR043(c *Ctx) {
	R := c.R
	f := c.P.Func("(*result.TracerouteRun).GetDestinationHop")
	if f == nil {
		R.Fail("R04.3", "result.GetDestinationHop#anchor", 0, "", "anchor (*result.TracerouteRun).GetDestinationHop no longer resolves")
	} else {
		rps, _ := core.ReturnPaths(c.P, f, 1000)
		nonNil := 0
		for _, rp := range rps {
			r0 := rp.Results[0]
			key := fmt.Sprintf("%s#return[b%d]", core.FuncName(f), rp.Ret.Block().Index)
			if r0.IsConst("nil") {
				// must not be reachable after seeing an IsDest hop
				f1, s1 := atomTrue(rp.Atoms, func(t *core.Term) bool { return strings.HasSuffix(t.String(), ".IsDest") })
				R.Check(!(f1 && s1), "R04.3", key, rp.Ret.Pos(), core.FuncName(f), "nil only when no visited hop had IsDest", "returns nil although a hop with IsDest was seen")
				continue
			}
			nonNil++
			// returned hop is the one whose IsDest was tested true
			found := false
			for _, a := range rp.Atoms {
				n := a.Norm()
				if n.Sign && n.Cond.Op == "field" && n.Cond.Name == "IsDest" && n.Cond.Args[0].Key() == r0.Key() {
					found = true
				}
			}
			// or: the element at slices.IndexFunc(hops, h => h.IsDest) – the first such hop by the library's contract
			if !found && r0.Op == "index" && len(r0.Args) == 2 && r0.Args[1].Op == "call" && strings.HasPrefix(r0.Args[1].Name, "slices.IndexFunc") && len(r0.Args[1].Args) == 2 && r0.Args[1].Args[0].Key() == r0.Args[0].Key() {
				if site, ok := r0.Args[1].Val.(*ssa.Call); ok {
					var pred *ssa.Function
					switch a := site.Common().Args[1].(type) {
					case *ssa.MakeClosure:
						pred, _ = a.Fn.(*ssa.Function)
					case *ssa.Function:
						pred = a
					}
					if pred != nil && len(pred.Params) == 1 {
						okPred := true
						prps, complete := core.ReturnPaths(c.P, pred, 100)
						for _, pr := range prps {
							r := pr.Results[0]
							isElemDest := r.Op == "field" && r.Name == "IsDest" && r.Args[0].Op == "param"
							if !(isElemDest || r.IsConst("false")) {
								okPred = false
							}
						}
						found = okPred && complete && len(prps) > 0
					}
				}
			}
			R.Check(found, "R04.3", key, rp.Ret.Pos(), core.FuncName(f), "returns the hop whose IsDest was tested", "returns "+r0.String()+" without testing that hop's IsDest")
		}
		R.Floor("R04.3:GetDestinationHop", nonNil, 1)
		// first match: the range loop is left at the first IsDest hop (return inside the loop body)
	}
	g := c.P.Func("traceroute.runE2eProbeOnce")
	if g == nil {
		R.Fail("R04.3", "traceroute.runE2eProbeOnce#anchor", 0, "", "anchor traceroute.runE2eProbeOnce no longer resolves")
		return
	}
	rps, _ := core.ReturnPaths(c.P, g, 1000)
	seenRTT := 0
	for _, rp := range rps {
		r0, r1 := rp.Results[0], rp.Results[1]
		key := fmt.Sprintf("%s#return[b%d]", core.FuncName(g), rp.Ret.Block().Index)
		switch {
		case !r1.IsConst("nil"):
			R.Check(r0.IsConst("0"), "R04.3", key, rp.Ret.Pos(), core.FuncName(g), "error return carries RTT 0", "error return carries a non-zero RTT")
		case r0.IsConst("0"):
			f1, s1 := atomTrue(rp.Atoms, func(t *core.Term) bool {
				return t.Op == "binop" && t.Name == "==" && isCallTo(t.Args[0], ".GetDestinationHop") && t.Args[1].IsConst("nil")
			})
			R.Check(f1 && s1, "R04.3", key, rp.Ret.Pos(), core.FuncName(g), "RTT 0 exactly when GetDestinationHop() == nil", "returns RTT 0 without the destination hop being nil")
		default:
			seenRTT++
			ok := r0.Op == "field" && r0.Name == "RTT" && isCallTo(r0.Args[0], ".GetDestinationHop")
			R.Check(ok, "R04.3", key, rp.Ret.Pos(), core.FuncName(g), "e2e RTT = GetDestinationHop().RTT", "e2e RTT = "+r0.String()+" is not the destination hop's RTT")
		}
	}
	R.Floor("R04.3:runE2eProbeOnce", seenRTT, 1)
	_ = ssa.Value(nil)
}
