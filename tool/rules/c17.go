package rules

import (
	"fmt"
	"go/token"
	"go/types"
	"strings"

	"golang.org/x/tools/go/ssa"

	"verif/tool/internal/core"
)

func init() {
	register("C17", "Decides the structural clauses of private-hop redaction for all result documents: (R17.1) the HTTP query key skip-private-hops and the CLI flag of the same name flow into TracerouteParams.SkipPrivateHops, the HTTP handler hands the parsed parameters to RunTraceroute, and every success path of RunTraceroute on which the flag is true passes through (*Results).RemovePrivateHops on the returned document; (R17.2) the replacement stored into a hop slot is a fresh TracerouteHop whose only assigned field is TTL, taken from the replaced hop at the same run and hop index, and the hop lists are never appended to or re-sliced; (R17.3) the replacement is control-dependent on exactly one data condition, IsPrivate of the hop's own address, and both loops visit every run and every hop (no exit but the range ending). That net.IP.IsPrivate is right at every block boundary and for IPv4-mapped forms is the standard library's; redaction of Source/Destination is not part of the property. A hop scrubbed in place (every field but TTL reset, possibly in a method of the hop) is accepted when the scrub depends on exactly IsPrivate of that hop's own address. The boolean query decoder returns strconv.ParseBool's verdict (shared with C19 R19.5b).", runC17)
}

func runC17(c *Ctx) {
	// shared with C19 (R19.5b): the flag survives HTTP decoding in every spelling the API accepts
	checkBoolDecoders(c, "R17.1")
	R := c.R
	// ---- R17.1 plumbing: server
	sf := c.P.Func("server.parseTracerouteParams")
	if sf == nil {
		R.Fail("R17.1", "server.parseTracerouteParams#anchor", 0, "", "anchor server.parseTracerouteParams no longer resolves")
	} else {
		rps, _ := core.ReturnPaths(c.P, sf, 2000)
		n := 0
		for _, rp := range rps {
			if !rp.Results[1].IsConst("nil") {
				continue
			}
			n++
			v := core.ProjField(rp.Results[0], "SkipPrivateHops")
			// a decoder of the server package applied to the query with the key "skip-private-hops" (whatever the decoder is called)
			ok := v.Op == "call" && strings.HasPrefix(v.Name, "server.")
			if ok {
				ok = false
				for _, a := range v.Args {
					if a.IsConst("\"skip-private-hops\"") {
						ok = true
					}
				}
			}
			R.Check(ok, "R17.1", "server.parseTracerouteParams#flag", rp.Ret.Pos(), core.FuncName(sf), "SkipPrivateHops = <bool decoder>(query, \"skip-private-hops\", …)", "the HTTP parameters set SkipPrivateHops to "+v.String()+": the query key no longer reaches the flag")
		}
		R.Floor("R17.1:server-success-paths", n, 1)
	}
	// handler passes the parsed params on
	th := c.P.Func("(*server.Server).TracerouteHandler")
	if th == nil {
		R.Fail("R17.1", "server.TracerouteHandler#anchor", 0, "", "anchor (*server.Server).TracerouteHandler no longer resolves")
	} else {
		found := false
		for _, b := range th.Blocks {
			for _, in := range b.Instrs {
				call, ok := in.(*ssa.Call)
				if !ok || call.Common().StaticCallee() == nil || !strings.HasSuffix(core.FuncName(call.Common().StaticCallee()), ".RunTraceroute") {
					continue
				}
				for _, pa := range firstPath(th, b) {
					env := core.NewEnv(c.P, pa)
					a := env.Term(call.Common().Args[len(call.Common().Args)-1])
					found = true
					R.Check(strings.Contains(a.String(), "server.parseTracerouteParams(") && a.Op == "extract", "R17.1", core.FuncName(th)+"#params", call.Pos(), core.FuncName(th), "RunTraceroute receives parseTracerouteParams' result unchanged", "RunTraceroute receives "+a.String())
				}
			}
		}
		R.Check(found, "R17.1", core.FuncName(th)+"#runs", th.Pos(), core.FuncName(th), "the handler calls RunTraceroute", "the handler no longer calls RunTraceroute")
	}
	// ---- CLI: flag registered on Args.skipPrivateHops and copied into the params literal
	flagOK, litOK := false, false
	for _, f := range c.P.ModFuncs {
		if core.ShortPkg(core.FuncPkg(f)) != "cmd" {
			continue
		}
		for _, b := range f.Blocks {
			for _, in := range b.Instrs {
				switch x := in.(type) {
				case *ssa.Call:
					if cal := x.Common().StaticCallee(); cal != nil && cal.Name() == "BoolVarP" && len(x.Common().Args) >= 3 {
						if s, ok := constStr(x.Common().Args[2]); ok && s == "skip-private-hops" {
							if fa, ok := x.Common().Args[1].(*ssa.FieldAddr); ok {
								if g, ok := fa.X.(*ssa.Global); ok && g.Name() == "Args" {
									name := g.Type().(*types.Pointer).Elem().Underlying().(*types.Struct).Field(fa.Field).Name()
									flagOK = name == "skipPrivateHops"
								}
							}
						}
					}
				case *ssa.Store:
					if fa, ok := x.Addr.(*ssa.FieldAddr); ok && isNamed(fa.X.Type(), core.ModulePath+"/traceroute", "TracerouteParams") {
						name := fa.X.Type().Underlying().(*types.Pointer).Elem().Underlying().(*types.Struct).Field(fa.Field).Name()
						if name == "SkipPrivateHops" {
							if ld, ok := x.Val.(*ssa.UnOp); ok {
								if fa2, ok := ld.X.(*ssa.FieldAddr); ok {
									// the flag struct itself, or the receiver / parameter of a builder that every caller hands the flag struct
									if g, ok := c.P.DefX(fa2.X).(*ssa.Global); ok && g.Name() == "Args" {
										litOK = core.FieldName(fa2) == "skipPrivateHops"
									}
								}
							}
						}
					}
				}
			}
		}
	}
	R.Check(flagOK, "R17.1", "cmd#flag", 0, "cmd", "--skip-private-hops is bound to Args.skipPrivateHops", "the CLI flag skip-private-hops is no longer bound to Args.skipPrivateHops")
	R.Check(litOK, "R17.1", "cmd#params", 0, "cmd", "the CLI copies Args.skipPrivateHops into TracerouteParams.SkipPrivateHops", "the CLI no longer copies the flag into TracerouteParams.SkipPrivateHops")
	// ---- RunTraceroute must-pass-through
	rt := c.P.Func("(traceroute.Traceroute).RunTraceroute")
	if rt == nil {
		R.Fail("R17.1", "traceroute.RunTraceroute#anchor", 0, "", "anchor RunTraceroute no longer resolves")
	} else {
		// inlined paths: the enrich / normalise / redact tail may have been moved into a helper with an options struct
		nflag := 0
		for _, ip := range InlinedPaths(c.P, rt, inlineOpts{pkg: core.FuncPkg(rt), stop: runLayerStop}) {
			if !ip.Results[1].IsConst("nil") {
				continue
			}
			f1, s1 := atomTrue(ip.Atoms, func(t *core.Term) bool { return t.String() == "param:params.SkipPrivateHops" })
			if !f1 {
				R.FailPath("R17.1", core.FuncName(rt)+"#flag-consulted", ip.Ret.Pos(), core.FuncName(rt), "a success path does not consult SkipPrivateHops", ip.Desc)
				continue
			}
			if !s1 {
				continue
			}
			nflag++
			passed := false
			for _, ev := range ip.Events {
				if ev.Kind == "call" && ev.Callee == "(*result.Results).RemovePrivateHops" && len(ev.Args) > 0 && ev.Args[0].Key() == ip.Results[0].Key() {
					passed = true
				}
			}
			R.Check(passed, "R17.1", core.FuncName(rt)+"#redacted", ip.Ret.Pos(), core.FuncName(rt), "with the flag set the returned document has passed through RemovePrivateHops", "with SkipPrivateHops set a success path returns the document without RemovePrivateHops having run on it")
		}
		R.Floor("R17.1:flag-true-paths", nflag, 1)
	}
	// ---- R17.2 / R17.3
	rm := c.P.Func("(*result.Results).RemovePrivateHops")
	if rm == nil {
		R.Fail("R17.2", "result.RemovePrivateHops#anchor", 0, "", "anchor (*result.Results).RemovePrivateHops no longer resolves")
		return
	}
	fn := core.FuncName(rm)
	nrep := 0
	// the pass may be split over helpers (a per-run method, a placeholder constructor): every module function reached from it is examined
	var cands []*ssa.Function
	for _, g := range ModReach(c.P, rm) {
		if g == rm || touchesHops(g) {
			cands = append(cands, g)
		}
	}
	for _, g := range cands {
		gfn := core.FuncName(g)
		if g != rm {
			// a helper that works on one run must be applied to every run: called from the pass inside a loop, on the loop's own element
			applied := false
			for _, b := range rm.Blocks {
				for _, in := range b.Instrs {
					if call, ok := in.(*ssa.Call); ok && call.Common().StaticCallee() == g && len(call.Common().Args) > 0 && inLoop(b) {
						for _, pa := range firstPath(rm, b) {
							t := core.NewEnv(c.P, pa).Term(call.Common().Args[0]).String()
							if strings.Contains(t, ".Runs[") && strings.Contains(t, "loopphi") {
								applied = true
							}
						}
					}
				}
			}
			R.Check(applied, "R17.3", gfn+"#applied-to-every-run", g.Pos(), gfn, "the per-run helper is called from the pass for the element of its loop over runs", "the helper that redacts one run is not called from the pass inside a loop over the runs on that loop's own element: some runs would keep their private hops")
		}
		for _, b := range g.Blocks {
			for _, in := range b.Instrs {
				// no append / reslice of hop lists
				if call, ok := in.(*ssa.Call); ok {
					if bi, ok := call.Common().Value.(*ssa.Builtin); ok && (bi.Name() == "append" || bi.Name() == "delete") {
						R.Fail("R17.2", gfn+"#no-append", call.Pos(), gfn, "the redaction pass appends to / deletes from a slice: hop count or positions may change")
					}
				}
				st, ok := in.(*ssa.Store)
				if !ok {
					continue
				}
				al, ok := st.Val.(*ssa.Alloc)
				var ctorArgs map[string]ssa.Value // placeholder built by a straight-line constructor: its parameters → the call's arguments
				var ctor *ssa.Function
				if call, isCall := st.Val.(*ssa.Call); isCall && !ok {
					if k := call.Common().StaticCallee(); k != nil && core.InModule(k) && len(k.Blocks) == 1 {
						if ret, isRet := k.Blocks[0].Instrs[len(k.Blocks[0].Instrs)-1].(*ssa.Return); isRet && len(ret.Results) == 1 {
							if al2, isAl := ret.Results[0].(*ssa.Alloc); isAl && isNamed(al2.Type(), core.ModulePath+"/result", "TracerouteHop") {
								al, ok, ctor = al2, true, k
								ctorArgs = map[string]ssa.Value{}
								for i, pa := range k.Params {
									ctorArgs[pa.Name()] = call.Common().Args[i]
								}
							}
						}
					}
				}
				if !ok || !isNamed(al.Type(), core.ModulePath+"/result", "TracerouteHop") {
					// any other store into the document
					if fa, isFA := st.Addr.(*ssa.FieldAddr); isFA && isNamed(fa.X.Type(), core.ModulePath+"/result", "TracerouteHop") {
						continue // a hop scrubbed in place: decided below, field by field
					}
					if root, _ := addrRootFields(st.Addr); len(g.Params) > 0 && root == ssa.Value(g.Params[0]) {
						R.Fail("R17.2", gfn+"#other-store", st.Pos(), gfn, "the redaction pass writes something other than a placeholder hop into the document")
					}
					continue
				}
				nrep++
				paths, _ := core.EnumPaths(g, b, 2000)
				for _, pa := range paths {
					env := core.NewEnv(c.P, pa)
					atoms := env.Atoms()
					if !core.Feasible(atoms) {
						continue
					}
					slot := env.Term(st.Addr)
					ri, hj := hopIndexIn(slot, g != rm)
					// placeholder fields
					stt := al.Type().Underlying().(*types.Pointer).Elem().Underlying().(*types.Struct)
					var extra []string
					ttlOK := false
					for i := 0; i < stt.NumFields(); i++ {
						var fv *core.Term
						if ctor == nil {
							fv = env.LoadField(al, stt.Field(i).Name(), st, stt.Field(i).Type())
						} else {
							kenv := core.NewEnv(c.P, core.NewPath(ctor, ctor.Blocks[:1]))
							last := ctor.Blocks[0].Instrs[len(ctor.Blocks[0].Instrs)-1]
							fv = kenv.LoadField(al, stt.Field(i).Name(), last, stt.Field(i).Type()).Subst(func(x *core.Term) *core.Term {
								if x.Op == "param" {
									if a, ok := ctorArgs[x.Name]; ok {
										return env.Term(a)
									}
								}
								return nil
							})
						}
						if fv.Op == "zero" {
							continue
						}
						if stt.Field(i).Name() == "TTL" {
							si, sj := hopIndexIn(fv, g != rm)
							ttlOK = fv.Op == "field" && fv.Name == "TTL" && si == ri && sj == hj && ri != ""
							if !ttlOK {
								extra = append(extra, "TTL="+fv.String())
							}
							continue
						}
						extra = append(extra, stt.Field(i).Name()+"="+fv.String())
					}
					R.Check(ttlOK && len(extra) == 0, "R17.2", gfn+"#placeholder", st.Pos(), gfn, "placeholder carries only the replaced hop's TTL, stored at that hop's own run/hop index", "placeholder is not TTL-only at the hop's own index: "+strings.Join(extra, ", ")+" (slot "+slot.String()+")")
					// R17.3 predicate: the only non-loop-control atom is IsPrivate(hop.IPAddress) on the same hop
					var data []string
					predOK := false
					for _, a := range atoms {
						nn := a.Norm()
						s := nn.Cond
						if s.Op == "binop" && (s.Name == "<" || s.Name == "<=") && (s.Args[0].Op == "loopphi" || s.Args[0].Op == "binop" && s.Args[0].Args[0].Op == "loopphi") {
							continue // range loop control
						}
						if s.Op == "extract" && s.Args[0].Op == "next" {
							continue
						}
						data = append(data, a.String())
						if s.Op == "call" && strings.HasSuffix(s.Name, "(net.IP).IsPrivate") && nn.Sign && len(s.Args) == 1 {
							ipt := s.Args[0]
							pi, pj := hopIndexIn(ipt, g != rm)
							if ipt.Op == "field" && ipt.Name == "IPAddress" && pi == ri && pj == hj {
								predOK = true
							}
						}
					}
					R.Check(predOK && len(data) == 1, "R17.3", gfn+"#predicate", st.Pos(), gfn, "replacement depends on exactly IsPrivate(hop.IPAddress) of the same hop", "replacement is conditioned on ["+strings.Join(data, " ∧ ")+"]: it must depend on IsPrivate of the hop's own address and nothing else")
				}
			}
		}
	}
	if nrep == 0 {
		// alternative shape: the hop is scrubbed in place. Every field except TTL must then be reset to its zero value.
		cleared := map[string]bool{}
		scrubIn := map[*ssa.Function]ssa.Value{} // function that scrubs → the hop it scrubs
		var hopT *types.Struct
		var pos token.Pos
		for _, g := range cands {
			for _, b := range g.Blocks {
				for _, in := range b.Instrs {
					st, ok := in.(*ssa.Store)
					if !ok {
						continue
					}
					fa, ok := st.Addr.(*ssa.FieldAddr)
					if !ok || !isNamed(fa.X.Type(), core.ModulePath+"/result", "TracerouteHop") {
						continue
					}
					if _, fresh := fa.X.(*ssa.Alloc); fresh {
						continue // initialising a fresh placeholder, not scrubbing
					}
					hopT = fa.X.Type().Underlying().(*types.Pointer).Elem().Underlying().(*types.Struct)
					pos = st.Pos()
					scrubIn[g] = fa.X
					zero := false
					if cst, ok := st.Val.(*ssa.Const); ok {
						zero = cst.Value == nil || cst.Value.ExactString() == "0" || cst.Value.ExactString() == "false" || cst.Value.ExactString() == "\"\""
					}
					if zero {
						cleared[core.FieldName(fa)] = true
					} else if core.FieldName(fa) != "TTL" {
						R.Fail("R17.2", fn+"#in-place["+core.FieldName(fa)+"]", st.Pos(), fn, "redaction stores a non-zero value into "+core.FieldName(fa)+" of a private hop")
					}
				}
			}
		}
		if hopT == nil {
			R.Fail("R17.2", fn+"#placeholder", rm.Pos(), fn, "the redaction pass neither replaces a private hop by a fresh TTL-only placeholder nor clears its fields")
		} else {
			var missing []string
			for i := 0; i < hopT.NumFields(); i++ {
				if n := hopT.Field(i).Name(); n != "TTL" && !cleared[n] {
					missing = append(missing, n)
				}
			}
			// R17.3 for this shape: the scrub (or the call of the scrubbing method) depends on exactly IsPrivate(hop.IPAddress) of that hop
			for g, hop := range scrubIn {
				type site struct {
					f    *ssa.Function
					b    *ssa.BasicBlock
					subj ssa.Value
					pos  token.Pos
				}
				var sites []site
				if pa, isParam := hop.(*ssa.Parameter); isParam && g != rm {
					idx := 0
					for k, q := range g.Params {
						if q == pa {
							idx = k
						}
					}
					for _, h := range cands {
						for _, b := range h.Blocks {
							for _, in := range b.Instrs {
								if call, ok := in.(*ssa.Call); ok && call.Common().StaticCallee() == g && idx < len(call.Common().Args) {
									sites = append(sites, site{h, b, call.Common().Args[idx], call.Pos()})
								}
							}
						}
					}
				} else {
					for _, b := range g.Blocks {
						for _, in := range b.Instrs {
							if st, ok := in.(*ssa.Store); ok {
								if fa, ok := st.Addr.(*ssa.FieldAddr); ok && fa.X == hop {
									sites = append(sites, site{g, b, hop, st.Pos()})
								}
							}
						}
					}
				}
				okPred := len(sites) > 0
				detail := ""
				for _, s := range sites {
					paths, _ := core.EnumPaths(s.f, s.b, 2000)
					for _, pa := range paths {
						env := core.NewEnv(c.P, pa)
						atoms := env.Atoms()
						if !core.Feasible(atoms) {
							continue
						}
						subj := env.Term(s.subj).Key()
						var data []string
						pred := false
						for _, a := range atoms {
							nn := a.Norm()
							t := nn.Cond
							if t.Op == "binop" && (t.Name == "<" || t.Name == "<=") && (t.Args[0].Op == "loopphi" || t.Args[0].Op == "binop" && t.Args[0].Args[0].Op == "loopphi") {
								continue
							}
							if t.Op == "extract" && t.Args[0].Op == "next" {
								continue
							}
							data = append(data, a.String())
							if t.Op == "call" && strings.HasSuffix(t.Name, "(net.IP).IsPrivate") && nn.Sign && len(t.Args) == 1 && t.Args[0].Op == "field" && t.Args[0].Name == "IPAddress" && t.Args[0].Args[0].Key() == subj {
								pred = true
							}
						}
						if !pred || len(data) != 1 {
							okPred = false
							detail = "[" + strings.Join(data, " ∧ ") + "]"
						}
					}
				}
				gfn := core.FuncName(g)
				R.Check(okPred, "R17.3", gfn+"#predicate", pos, gfn, "the in-place scrub depends on exactly IsPrivate(hop.IPAddress) of the scrubbed hop", "the in-place scrub is conditioned on "+detail+": it must depend on IsPrivate of the hop's own address and nothing else")
			}
			R.Check(len(missing) == 0, "R17.2", fn+"#placeholder", pos, fn, "a private hop is scrubbed in place: every field except TTL is reset", "a private hop is scrubbed in place but "+strings.Join(missing, ", ")+" keep(s) data derived from the private address (a fresh TTL-only placeholder resets every field implicitly)")
			nrep = 1
		}
	}
	R.Floor("R17.2:replacement-stores", nrep, 1)
	// loops leave only through their headers (every run, every hop visited)
	nloops := 0
	for _, g := range cands {
		for _, h := range g.Blocks {
			isHeader := false
			for _, p := range h.Preds {
				if h.Dominates(p) {
					isHeader = true
				}
			}
			if !isHeader {
				continue
			}
			nloops++
			loop := loopOfHeader(h)
			exits := 0
			for b := range loop {
				for _, s := range b.Succs {
					if !loop[s] && b != h {
						exits++
					}
				}
			}
			R.Check(exits == 0, "R17.3", fmt.Sprintf("%s#loop[b%d]", fn, h.Index), h.Instrs[0].Pos(), fn, "the range loop is left only when exhausted", "a range loop of the redaction pass can be left early: some hops would not be examined")
		}
	}
	R.Floor("R17.3:loops", nloops, 2)
}

// hopIndexIn is hopIndex for a function that may work on one run only: there the hop list hangs off the function's own run
// (one index), and the run part of the key is the term the list belongs to.
func hopIndexIn(t *core.Term, perRun bool) (string, string) {
	if ri, hj := hopIndex(t); ri != "" || !perRun {
		return ri, hj
	}
	var owner, idx string
	t.Walk(func(x *core.Term) bool {
		if x.Op == "index" && len(x.Args) == 2 && idx == "" {
			idx = x.Args[1].Key()
			// the hop list of the run the helper works on: run.Hops, or the list itself handed over as a parameter
			owner = "run:" + x.Args[0].Key()
		}
		return true
	})
	return owner, idx
}

// touchesHops: the function stores a hop into a hop list or writes fields of an existing hop.
func touchesHops(g *ssa.Function) bool {
	for _, b := range g.Blocks {
		for _, in := range b.Instrs {
			st, ok := in.(*ssa.Store)
			if !ok {
				continue
			}
			if ia, ok := st.Addr.(*ssa.IndexAddr); ok {
				if pt, ok := ia.Type().Underlying().(*types.Pointer); ok && isNamed(pt.Elem(), core.ModulePath+"/result", "TracerouteHop") {
					return true
				}
			}
			if fa, ok := st.Addr.(*ssa.FieldAddr); ok && isNamed(fa.X.Type(), core.ModulePath+"/result", "TracerouteHop") {
				if _, fresh := fa.X.(*ssa.Alloc); !fresh {
					return true
				}
			}
		}
	}
	return false
}
