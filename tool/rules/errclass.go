package rules

import (
	"fmt"
	"go/constant"
	"go/token"
	"go/types"
	"sort"
	"strings"

	"golang.org/x/tools/go/ssa"

	"verif/tool/internal/core"
)

// ErrClass is one way an error value can arise (analysis A3).
type ErrClass struct {
	Tags    string // "+"-joined sorted subset of BadPkt NoPkt NotSupported Permanent
	Cause   string // nil io content guard state unknown
	Origin  string // line-free key of the creating site: "<func>#<kind>(<what>)"
	Pos     token.Pos
	Fn      *ssa.Function
	Wrapped bool   // false when an underlying cause was dropped (%v / not passed on)
	Site    string // for NotSupported: line-free key of the wrapping site
	SiteFn  *ssa.Function
	SitePos token.Pos
}

func (e ErrClass) key() string { return e.Tags + "|" + e.Cause + "|" + e.Origin + "|" + e.Site }

func (e ErrClass) Retryable() bool {
	return strings.Contains(e.Tags, "NoPkt") || strings.Contains(e.Tags, "BadPkt")
}

func (e ErrClass) withTag(t string) ErrClass {
	set := map[string]bool{}
	for _, x := range strings.Split(e.Tags, "+") {
		if x != "" {
			set[x] = true
		}
	}
	set[t] = true
	var s []string
	for k := range set {
		s = append(s, k)
	}
	sort.Strings(s)
	e.Tags = strings.Join(s, "+")
	return e
}

type classSet map[string]ErrClass

func (s classSet) add(e ErrClass) { s[e.key()] = e }
func (s classSet) addAll(o classSet) {
	for _, e := range o {
		s.add(e)
	}
}
func (s classSet) sorted() []ErrClass {
	var ks []string
	for k := range s {
		ks = append(ks, k)
	}
	sort.Strings(ks)
	var out []ErrClass
	for _, k := range ks {
		out = append(out, s[k])
	}
	return out
}

// ErrAnalysis computes error-class summaries for module functions.
type ErrAnalysis struct {
	c        *Ctx
	memo     map[*ssa.Function]classSet
	inflight map[*ssa.Function]bool
}

func NewErrAnalysis(c *Ctx) *ErrAnalysis {
	return &ErrAnalysis{c: c, memo: map[*ssa.Function]classSet{}, inflight: map[*ssa.Function]bool{}}
}

var errorType = types.Universe.Lookup("error").Type()

func isErrorType(t types.Type) bool { return types.Identical(t, errorType) }

// libCause classifies library callees that produce errors.
func libCause(pkgPath, name string) string {
	switch {
	case strings.HasPrefix(pkgPath, "github.com/google/gopacket"):
		return "content"
	case pkgPath == "golang.org/x/net/icmp" || pkgPath == "golang.org/x/net/ipv4" || pkgPath == "golang.org/x/net/ipv6":
		if strings.HasPrefix(name, "Parse") || name == "Parse" {
			return "content"
		}
		return "io"
	case pkgPath == "os" || pkgPath == "syscall" || pkgPath == "net" || strings.HasPrefix(pkgPath, "golang.org/x/sys") || pkgPath == "golang.org/x/net/bpf" || pkgPath == "context" || pkgPath == "net/http" || pkgPath == "io":
		return "io"
	case pkgPath == "strconv" || pkgPath == "net/netip" || pkgPath == "net/url":
		return "input"
	}
	return "unknown"
}

// wrapperTag names the retryability / capability tag a concrete error type carries.
func wrapperTag(t types.Type) string {
	switch {
	case isNamed(t, core.ModulePath+"/common", "ReceiveProbeNoPktError"):
		return "NoPkt"
	case isNamed(t, core.ModulePath+"/common", "BadPacketError"):
		return "BadPkt"
	case isNamed(t, core.ModulePath+"/sack", "NotSupportedError"):
		return "NotSupported"
	}
	return ""
}

// Summary returns the classes of the error result of f.
func (ea *ErrAnalysis) Summary(f *ssa.Function) classSet {
	if s, ok := ea.memo[f]; ok {
		return s
	}
	if ea.inflight[f] {
		return classSet{}
	}
	ea.inflight[f] = true
	out := classSet{}
	res := f.Signature.Results()
	if res.Len() > 0 && isErrorType(res.At(res.Len()-1).Type()) {
		for _, b := range f.Blocks {
			ret, ok := b.Instrs[len(b.Instrs)-1].(*ssa.Return)
			if !ok {
				continue
			}
			out.addAll(ea.classOf(ret.Results[len(ret.Results)-1], f, map[ssa.Value]bool{}))
		}
	}
	delete(ea.inflight, f)
	ea.memo[f] = out
	return out
}

// errArgs collects the error-typed values among the variadic arguments of a call.
func errArgs(c *ssa.CallCommon) []ssa.Value {
	var out []ssa.Value
	var visit func(v ssa.Value)
	visit = func(v ssa.Value) {
		switch x := v.(type) {
		case *ssa.MakeInterface:
			if isErrorType(x.X.Type()) || wrapperTag(x.X.Type()) != "" {
				out = append(out, x.X)
			}
		case *ssa.ChangeInterface:
			if isErrorType(x.X.Type()) {
				out = append(out, x.X)
			}
		case *ssa.Slice:
			if al, ok := x.X.(*ssa.Alloc); ok {
				for _, r := range *al.Referrers() {
					if ia, ok := r.(*ssa.IndexAddr); ok {
						for _, r2 := range *ia.Referrers() {
							if st, ok := r2.(*ssa.Store); ok && st.Addr == ssa.Value(ia) {
								visit(st.Val)
							}
						}
					}
				}
			}
		default:
			if isErrorType(v.Type()) {
				out = append(out, v)
			}
		}
	}
	for _, a := range c.Args {
		visit(a)
	}
	return out
}

func constStr(v ssa.Value) (string, bool) {
	c, ok := v.(*ssa.Const)
	if !ok || c.Value == nil || c.Value.Kind() != constant.String {
		return "", false
	}
	return constant.StringVal(c.Value), true
}

// packetTyped reports whether a type carries inbound packet content.
func packetTyped(t types.Type) bool {
	s := t.String()
	if s == "[]byte" || s == "[]uint8" {
		return true
	}
	return strings.Contains(s, "packets.FrameParser") || strings.Contains(s, "gopacket/layers.") || strings.Contains(s, "packets.ICMPInfo") || strings.Contains(s, "gopacket.Payload")
}

// guardKind decides whether a freshly created error depends on packet content
// (some branch condition on the way to it reads packet-carrying state) or only on driver state.
func (ea *ErrAnalysis) guardKind(in ssa.Instruction) string {
	f := in.Parent()
	paths, _ := core.EnumPaths(f, in.Block(), 3000)
	pk := false
	deadline := len(paths) > 0
	for _, pa := range paths {
		env := core.NewEnv(ea.c.P, pa)
		env.Inline = false
		dl := false
		for _, a := range env.Atoms() {
			if n := a.Norm(); n.Sign && n.Cond.Op == "call" && n.Cond.Name == "errors.Is" && strings.Contains(n.Cond.String(), "@os.ErrDeadlineExceeded") {
				dl = true
			}
			// created exactly when the capture handle's Read reported a zero count: a breach of the Source contract by the handle,
			// not a property of a packet's bytes (that no module Source reports zero for content reasons is R09.1c)
			if n := a.Norm(); n.Cond.Op == "binop" && len(n.Cond.Args) == 2 && n.Cond.Args[0].Op == "extract" && n.Cond.Args[0].Name == "0" && n.Cond.Args[0].Args[0].Op == "call" && n.Cond.Args[0].Args[0].Name == "iface:packets.Source.Read" {
				// n == 0, n <= 0, n < 1 (and their negated complements on the false edge)
				r, op := n.Cond.Args[1], n.Cond.Name
				if r.IsConst("0") && (n.Sign && (op == "==" || op == "<=") || !n.Sign && (op == "!=" || op == ">")) || r.IsConst("1") && (n.Sign && op == "<" || !n.Sign && op == ">=") {
					dl = true
				}
			}
		}
		if !dl {
			deadline = false
		}
		for _, a := range env.Atoms() {
			a.Cond.Walk(func(x *core.Term) bool {
				switch x.Op {
				case "param", "recv":
					if x.Typ != nil && packetTyped(x.Typ) {
						pk = true
					}
				case "field":
					if x.Typ != nil && packetTyped(x.Typ) {
						pk = true
					}
					if x.Args[0].Op == "recv" && (x.Name == "parser" || x.Name == "buffer") {
						pk = true
					}
				case "loopphi", "next", "range":
					// loop-carried state of a function that walks packet data
					for _, p := range f.Params {
						if packetTyped(p.Type()) {
							pk = true
						}
					}
				case "call":
					if packetDerived(x) {
						pk = true
					}
				case "clobbered":
					if strings.Contains(x.Name, "Decode") {
						pk = true
					}
				}
				return !pk
			})
		}
	}
	if deadline {
		return "io" // created exactly when the read hit its deadline or returned nothing: the handle, not content
	}
	if pk {
		return "guard"
	}
	return "state"
}

func (ea *ErrAnalysis) classOf(v ssa.Value, f *ssa.Function, seen map[ssa.Value]bool) classSet {
	out := classSet{}
	if seen[v] {
		return out
	}
	seen[v] = true
	fn := core.FuncName(f)
	switch x := v.(type) {
	case *ssa.Const:
		if x.Value == nil {
			out.add(ErrClass{Cause: "nil", Origin: "nil", Wrapped: true})
		}
	case *ssa.Phi:
		for _, e := range x.Edges {
			out.addAll(ea.classOf(e, f, seen))
		}
	case *ssa.MakeInterface:
		tag := wrapperTag(x.X.Type())
		if tag != "" {
			// inner cause from the Err field store, when the wrapper is built here
			inner := classSet{}
			if al, ok := x.X.(*ssa.Alloc); ok {
				for _, r := range *al.Referrers() {
					if fa, ok := r.(*ssa.FieldAddr); ok {
						for _, r2 := range *fa.Referrers() {
							if st, ok := r2.(*ssa.Store); ok && st.Addr == ssa.Value(fa) && isErrorType(st.Val.Type()) {
								inner.addAll(ea.classOf(st.Val, f, seen))
							}
						}
					}
				}
			}
			if len(inner) == 0 {
				inner.add(ErrClass{Cause: "guard", Origin: fn + "#new(" + tag + ")", Pos: x.Pos(), Fn: f, Wrapped: true})
			}
			for _, e := range inner {
				if e.Cause == "nil" && len(inner) > 1 {
					continue // a wrapper is only built around a non-nil cause
				}
				e2 := e.withTag(tag)
				if tag == "NotSupported" {
					e2.Site = fn + "#NotSupported(" + shortOrigin(e.Origin) + ")"
					e2.SiteFn, e2.SitePos = f, x.Pos()
				}
				out.add(e2)
			}
			return out
		}
		out.addAll(ea.classOf(x.X, f, seen))
	case *ssa.ChangeInterface:
		out.addAll(ea.classOf(x.X, f, seen))
	case *ssa.UnOp:
		if x.Op == token.MUL {
			switch a := x.X.(type) {
			case *ssa.Global:
				tag := wrapperTag(x.Type())
				if tag != "" {
					out.add(ErrClass{Tags: tag, Cause: "guard", Origin: "@" + a.Name(), Pos: x.Pos(), Fn: f, Wrapped: true})
				} else {
					out.add(ErrClass{Cause: "state", Origin: "@" + a.Name(), Pos: x.Pos(), Fn: f, Wrapped: true})
				}
			case *ssa.Alloc:
				for _, r := range *a.Referrers() {
					if st, ok := r.(*ssa.Store); ok && st.Addr == ssa.Value(a) {
						out.addAll(ea.classOf(st.Val, f, seen))
					}
				}
				// captured variable written inside closures
				for _, r := range *a.Referrers() {
					if mc, ok := r.(*ssa.MakeClosure); ok {
						cf := mc.Fn.(*ssa.Function)
						for i, b := range mc.Bindings {
							if b == ssa.Value(a) {
								fv := cf.FreeVars[i]
								for _, r2 := range *fv.Referrers() {
									if st, ok := r2.(*ssa.Store); ok && st.Addr == ssa.Value(fv) {
										out.addAll(ea.classOf(st.Val, cf, seen))
									}
								}
							}
						}
					}
				}
			case *ssa.FreeVar:
				if b := ea.c.P.Binding(a); b != nil {
					if al, ok := b.(*ssa.Alloc); ok {
						for _, r := range *al.Referrers() {
							if st, ok := r.(*ssa.Store); ok && st.Addr == ssa.Value(al) {
								out.addAll(ea.classOf(st.Val, al.Parent(), seen))
							}
						}
					}
				}
			default:
				out.add(ErrClass{Cause: "unknown", Origin: fn + "#load", Pos: x.Pos(), Fn: f})
			}
		}
	case *ssa.Extract:
		out.addAll(ea.classOf(x.Tuple, f, seen))
	case *ssa.Call:
		out.addAll(ea.callClass(x, f, seen))
	case *ssa.Parameter:
		out.add(ErrClass{Cause: "unknown", Origin: fn + "#param(" + x.Name() + ")", Pos: x.Pos(), Fn: f, Wrapped: true})
	case *ssa.TypeAssert:
		out.addAll(ea.classOf(x.X, f, seen))
	default:
		out.add(ErrClass{Cause: "unknown", Origin: fmt.Sprintf("%s#%T", fn, v), Pos: v.Pos(), Fn: f})
	}
	return out
}

func shortOrigin(o string) string {
	if i := strings.Index(o, "#"); i >= 0 {
		return o[i+1:]
	}
	return o
}

func (ea *ErrAnalysis) callClass(call *ssa.Call, f *ssa.Function, seen map[ssa.Value]bool) classSet {
	out := classSet{}
	cc := call.Common()
	fn := core.FuncName(f)
	if cc.IsInvoke() {
		name := core.CalleeName(cc)
		// module implementations of module interfaces (Source/Sink): union their summaries
		cause := "io"
		var impls []*ssa.Function
		if n := ea.c.P.CallGraph().Nodes[f]; n != nil {
			for _, e := range n.Out {
				if e.Site == ssa.CallInstruction(call) && core.InModule(e.Callee.Func) && !strings.Contains(core.FuncName(e.Callee.Func), "Mock") {
					// the capture layer of a secondary build (e.g. /dev/bpf on darwin) is outside the claim: plain I/O there
					if file, _ := ea.c.P.Pos(e.Callee.Func.Pos()); ea.c.P.GOOS != "linux" && strings.HasSuffix(file, "_"+ea.c.P.GOOS+".go") {
						continue
					}
					impls = append(impls, e.Callee.Func)
				}
			}
		}
		if strings.HasPrefix(name, "iface:packets.Source") || strings.HasPrefix(name, "iface:packets.Sink") || len(impls) > 0 {
			for _, im := range impls {
				for _, e := range ea.Summary(im) {
					out.add(e)
				}
			}
		}
		if strings.Contains(name, "gopacket") {
			cause = "content"
		}
		if strings.HasPrefix(name, "iface:context.Context") {
			cause = "ctx"
		}
		out.add(ErrClass{Cause: cause, Origin: fn + "#call(" + name + ")", Pos: call.Pos(), Fn: f, Wrapped: true})
		return out
	}
	callee := cc.StaticCallee()
	if callee == nil {
		// function value: resolve closures
		switch d := ea.c.P.Def(cc.Value).(type) {
		case *ssa.MakeClosure:
			callee = d.Fn.(*ssa.Function)
		case *ssa.Function:
			callee = d
		}
		if callee == nil {
			// parameters of function type: VTA
			if n := ea.c.P.CallGraph().Nodes[f]; n != nil {
				for _, e := range n.Out {
					if e.Site == ssa.CallInstruction(call) && core.InModule(e.Callee.Func) {
						out.addAll(ea.Summary(e.Callee.Func))
					}
				}
			}
			if len(out) == 0 {
				out.add(ErrClass{Cause: "unknown", Origin: fn + "#dyncall", Pos: call.Pos(), Fn: f, Wrapped: true}) // an unresolved dynamic callee hands its error on as it is: nothing was re-created here
			}
			return out
		}
	}
	pk := ""
	if p := core.FuncPkg(callee); p != nil {
		pk = p.Path()
	}
	switch {
	case pk == "fmt" && callee.Name() == "Errorf":
		format, _ := constStr(cc.Args[0])
		args := errArgs(cc)
		if strings.Contains(format, "%w") && len(args) > 0 {
			for _, a := range args {
				out.addAll(ea.classOf(a, f, seen))
			}
			return out
		}
		if len(args) > 0 {
			// an error formatted without %w: the cause's classes are lost, a fresh opaque error results
			for _, a := range args {
				for _, e := range ea.classOf(a, f, seen) {
					if e.Cause == "nil" {
						continue
					}
					e.Tags = ""
					e.Wrapped = false
					e.Origin = fn + "#unwrapped(" + shortOrigin(e.Origin) + ")"
					e.Pos, e.Fn = call.Pos(), f
					out.add(e)
				}
			}
			if len(out) > 0 {
				return out
			}
		}
		out.add(ErrClass{Cause: ea.guardKind(call), Origin: fn + "#errorf(" + firstWords(format) + ")", Pos: call.Pos(), Fn: f, Wrapped: true})
	case pk == "errors" && callee.Name() == "New":
		msg := ""
		if len(cc.Args) > 0 {
			if s, ok := constStr(cc.Args[0]); ok {
				msg = s
			} else if b, ok := cc.Args[0].(*ssa.BinOp); ok {
				if s, ok := constStr(b.X); ok {
					msg = s
				}
				// errors.New("..." + err.Error()): cause dropped
				out.add(ErrClass{Cause: "io", Origin: fn + "#unwrapped-new(" + firstWords(msg) + ")", Pos: call.Pos(), Fn: f, Wrapped: false})
				return out
			}
		}
		out.add(ErrClass{Cause: ea.guardKind(call), Origin: fn + "#new(" + firstWords(msg) + ")", Pos: call.Pos(), Fn: f, Wrapped: true})
	case pk == "errors" && callee.Name() == "Join":
		for _, a := range errArgs(cc) {
			out.addAll(ea.classOf(a, f, seen))
		}
		if len(out) == 0 {
			out.add(ErrClass{Cause: "unknown", Origin: fn + "#join", Pos: call.Pos(), Fn: f, Wrapped: true})
		}
	case strings.HasPrefix(pk, "github.com/cenkalti/backoff") && callee.Name() == "Permanent":
		for _, a := range errArgs(cc) {
			for _, e := range ea.classOf(a, f, seen) {
				out.add(e.withTag("Permanent"))
			}
		}
	case pk == "golang.org/x/sync/errgroup" && callee.Name() == "Wait":
		// the first error returned by a function started with Go on a group of this function
		for _, sp := range spawnSites(f) {
			if cl := spawnedClosure(ea.c.P, sp); cl != nil {
				out.addAll(ea.Summary(cl))
			}
		}
		if len(out) == 0 {
			out.add(ErrClass{Cause: "unknown", Origin: fn + "#errgroup.Wait", Pos: call.Pos(), Fn: f, Wrapped: true})
		}
	case core.InModule(callee):
		out.addAll(ea.Summary(callee))
	default:
		out.add(ErrClass{Cause: libCause(pk, callee.Name()), Origin: fn + "#call(" + shortName(callee) + ")", Pos: call.Pos(), Fn: f, Wrapped: true})
	}
	return out
}

func firstWords(s string) string {
	w := strings.Fields(s)
	if len(w) > 4 {
		w = w[:4]
	}
	return strings.Join(w, " ")
}
