package rules

import (
	"fmt"
	"go/token"
	"go/types"
	"sort"
	"strings"

	"golang.org/x/tools/go/ssa"

	"verif/tool/internal/core"
)

func init() {
	register("C03", "Decides the structural part of path shape for both engines and all first/last TTL pairs: (R03.1) every store into the engine's slot table writes a ReceiveProbe result that passed validateProbe (or travelled the retryable edge, on which every module driver returns a nil response by C01 R01.7) at the index probe.TTL of that same value; (R03.2) the table length is int(MaxTTL)+1 computed in int; (R03.3) validate() precedes everything and every success return is clipResults(MinTTL, table) while every error return carries a nil slice; (R03.4) each protocol entry point hands ToHops the same parameters it gave the engine and returns ToHops' slice as Hops unmodified; (R03.5) validateProbe accepts only non-nil probes with MinTTL <= TTL <= MaxTTL and ToHops numbers entries MinTTL+i. (R03.6) the search for the index at which clipResults cuts the table is decided for the recognised forms (slices.IndexFunc with the predicate x != nil && x.IsDest; an ascending scan that stops at, or guards after, its first hit; a descending scan that runs to exhaustion) and reported as undecided information otherwise; the remaining arithmetic of clipResults (non-empty, MinTTL offset) is not decided. (R03.4 also) ToHops receives the engine's slice as a whole (result #0, or the Hops field of the ICMP/SACK helper's result), not a re-slice of it. R03.3 accepts the success return through single-result helpers of the engine's scope (a table type's method that returns clipResults of its own slots). R03.6 also decides the counter-scan form (the cut index is the scan counter; the loop is left on `x != nil && x.IsDest` of the element at the counter's current value) and, for the IndexFunc form, that the cut is guarded by the 'found' test only.", runC03)
	darwinRules["C03"] = runC03
}

func runC03(c *Ctx) {
	R := c.R
	es := Engines(c.P)
	R.Floor("R03:engines", len(es), 2)
	if len(es) > 2 {
		for _, e := range es {
			R.Info("R03", e.Name+"#engine", e.Fn.Pos(), e.Name, "calls TracerouteDriver.SendProbe")
		}
		R.Fail("R03", "module#engine-ceiling", 0, "", fmt.Sprintf("%d functions call TracerouteDriver.SendProbe; the confirmed set is TracerouteParallel and TracerouteSerial", len(es)))
	}
	nst := 0
	for _, e := range es {
		if e.Results == nil {
			R.Fail("R03.2", e.Name+"#table", e.Fn.Pos(), e.Name, "engine allocates no []*ProbeResponse slot table: anchor lost")
			continue
		}
		// R03.2 (the table may be allocated by a constructor: its length is lifted to the engine's frame through the call sites)
		for _, pa := range firstPath(e.Results.Parent(), e.Results.Block()) {
			env := core.NewEnv(c.P, pa)
			l := liftToRoot(c.P, e, env.Term(e.Results.Len), e.Results.Parent())
			bits, _ := core.IntBits(e.Results.Len.Type())
			ok := l.Op == "binop" && l.Name == "+" && l.Args[1].IsConst("1") && l.Args[0].Op == "conv" && strings.HasSuffix(l.Args[0].Args[0].String(), ".MaxTTL") && bits >= 32 && !l.Args[0].Narrowing()
			R.Check(ok, "R03.2", e.Name+"#table-len", e.Results.Pos(), e.Name, "table length = "+l.String()+" computed in a "+fmt.Sprint(bits)+"-bit type", "table length is "+l.String()+fmt.Sprintf(" (computed in %d bits): must be int(MaxTTL)+1 with the widening before the addition", bits))
		}
		// R03.1
		for i, st := range e.Stores {
			nst++
			key := fmt.Sprintf("%s#slot-store[%d]", e.Name, i)
			g := st.Parent()
			ia := st.Addr.(*ssa.IndexAddr)
			// index == stored.TTL
			okIdx := false
			for _, pa := range firstPath(g, st.Block()) {
				env := core.NewEnv(c.P, pa)
				idx := env.Term(ia.Index).StripConv()
				val := env.Term(st.Val)
				okIdx = idx.Op == "field" && idx.Name == "TTL" && idx.Args[0].Key() == val.Key()
				R.Check(okIdx, "R03.1", key+"/index", st.Pos(), core.FuncName(g), "slot index = stored probe's own TTL", "slot index "+idx.String()+" is not the TTL of the stored value "+val.String())
			}
			// the stored value: validated wherever it comes from (ReceiveProbe in this function, a parameter of the update
			// closure / method / callback, the result of a helper that waits for a reply)
			ok, why := validatedAt(c, e, st, st.Val, 0, map[string]bool{})
			R.Check(ok, "R03.1", key, st.Pos(), core.FuncName(g), "the stored probe passed validateProbe on every way to this store (or travelled the retryable edge, where it is nil)", why)
		}
		// R03.3
		checkEngineReturns(c, e)
	}
	R.Floor("R03.1:slot-stores", nst, 2)
	checkValidateProbe(c)
	checkToHops(c)
	checkEntryHops(c)
	checkClipSearch(c)
}

func firstPath(f *ssa.Function, b *ssa.BasicBlock) []*core.Path {
	ps, _ := core.EnumPaths(f, b, 50)
	if len(ps) > 1 {
		ps = ps[:1]
	}
	return ps
}

// closureCallSites finds the calls of closure g made from f or its other closures.
func closureCallSites(p *core.Prog, f, g *ssa.Function) []*ssa.Call {
	var out []*ssa.Call
	for _, h := range withClosures(f) {
		for _, b := range h.Blocks {
			for _, in := range b.Instrs {
				call, ok := in.(*ssa.Call)
				if !ok || call.Common().IsInvoke() {
					continue
				}
				var callee *ssa.Function
				if sc := call.Common().StaticCallee(); sc != nil {
					callee = sc
				} else if mc, ok := p.Def(call.Common().Value).(*ssa.MakeClosure); ok {
					callee = mc.Fn.(*ssa.Function)
				}
				if callee == g {
					out = append(out, call)
				}
			}
		}
	}
	return out
}

// liftToRoot rewrites a term of helper function fn into the vocabulary of the engine's root by substituting parameters with the
// arguments of fn's (unique) call site, repeatedly.
func liftToRoot(p *core.Prog, e *Engine, t *core.Term, fn *ssa.Function) *core.Term {
	cg := p.CallGraph()
	for depth := 0; depth < 4 && fn != nil && fn != e.Fn && fn.Parent() == nil; depth++ {
		n := cg.Nodes[fn]
		if n == nil {
			break
		}
		var site *ssa.Call
		for _, in := range n.In {
			if cs, ok := in.Site.(*ssa.Call); ok && e.inScope(in.Caller.Func) && cs.Common().StaticCallee() == fn {
				site = cs
			}
		}
		if site == nil {
			break
		}
		t = liftThrough(p, t, site)
		fn = site.Parent()
		for fn != nil && fn.Parent() != nil {
			fn = fn.Parent() // a closure of the root shares its frame's captured variables
		}
	}
	return t
}

// validatedAt decides, for the value v consumed by instruction use, that it is a ReceiveProbe result which validateProbe has
// accepted (or the nil response of the retryable edge) on every way it can get there:
//   - v comes from a ReceiveProbe call of the same function: every CFG path from the call to the use crosses validateProbe's
//     success edge on that very result, or the CheckProbeRetryable-true edge;
//   - v is a parameter: every call site of the function inside the engine's scope (static, closure, or callback through a function
//     parameter – taken from the call graph) passes a validated value;
//   - v is result #0 of a helper of the scope: the use lies behind the helper's err == nil edge and every success return of the
//     helper returns a validated value (or nil);
//   - nil constants and phis of the above.
func validatedAt(c *Ctx, e *Engine, use ssa.Instruction, v ssa.Value, depth int, seen map[string]bool) (bool, string) {
	g := use.Parent()
	fn := core.FuncName(g)
	if depth > 6 {
		return false, "provenance chain too deep: undecided"
	}
	key := fmt.Sprintf("%p|%p", use, v)
	if seen[key] {
		return true, ""
	}
	seen[key] = true
	switch x := v.(type) {
	case *ssa.Const:
		if x.IsNil() {
			return true, ""
		}
	case *ssa.Phi:
		for _, ed := range x.Edges {
			if ok, why := validatedAt(c, e, use, ed, depth+1, seen); !ok {
				return false, why
			}
		}
		return true, ""
	case *ssa.UnOp:
		if a, ok := x.X.(*ssa.Alloc); ok {
			any := false
			for _, r := range *a.Referrers() {
				if st, ok := r.(*ssa.Store); ok && st.Addr == ssa.Value(a) {
					any = true
					if ok, why := validatedAt(c, e, use, st.Val, depth+1, seen); !ok {
						return false, why
					}
				}
			}
			if any {
				return true, ""
			}
		}
	case *ssa.Parameter:
		idx := -1
		for i, pa := range g.Params {
			if pa == x {
				idx = i
			}
		}
		n := c.P.CallGraph().Nodes[g]
		nsites := 0
		if n != nil && idx >= 0 {
			for _, in := range n.In {
				if !e.inScope(in.Caller.Func) {
					continue
				}
				cc := in.Site.Common()
				args := cc.Args
				if cc.IsInvoke() {
					continue
				}
				// calls through a function value / closure pass only the explicit arguments; methods called statically carry the receiver
				off := len(g.Params) - len(args)
				if off < 0 || idx-off < 0 || idx-off >= len(args) {
					continue
				}
				nsites++
				if ok, why := validatedAt(c, e, in.Site, args[idx-off], depth+1, seen); !ok {
					return false, why
				}
			}
		}
		if nsites == 0 {
			return false, "slot is written from parameter " + x.Name() + " of " + fn + ", which has no call site inside the engine: provenance undecided"
		}
		return true, ""
	case *ssa.Extract:
		call, ok := x.Tuple.(*ssa.Call)
		if !ok {
			break
		}
		if isDriverInvoke(call.Common(), "ReceiveProbe") && x.Index == 0 {
			return validatedLocal(c, e, use, call)
		}
		// helper of the scope returning (probe, error)
		h := call.Common().StaticCallee()
		if h == nil {
			if mc, ok := c.P.Def(call.Common().Value).(*ssa.MakeClosure); ok {
				h, _ = mc.Fn.(*ssa.Function)
			}
		}
		if h != nil && e.inScope(h) && x.Index == 0 && h.Signature.Results().Len() == 2 && isErrorType(h.Signature.Results().At(1).Type()) {
			if !behindNilError(call, use) {
				return false, "the result of " + core.FuncName(h) + " is stored without its error having been tested"
			}
			nret := 0
			for _, b := range h.Blocks {
				ret, ok := b.Instrs[len(b.Instrs)-1].(*ssa.Return)
				if !ok || b.Comment == "recover" {
					continue
				}
				if cst, ok := ret.Results[1].(*ssa.Const); ok && !cst.IsNil() {
					continue
				}
				if _, isConst := ret.Results[1].(*ssa.Const); !isConst {
					// an error value: the response is nil on these returns in every accepted idiom; decide it
					if cst0, ok := ret.Results[0].(*ssa.Const); ok && cst0.IsNil() {
						continue
					}
				}
				nret++
				if ok, why := validatedAt(c, e, ret, ret.Results[0], depth+1, seen); !ok {
					return false, why
				}
			}
			if nret == 0 {
				return false, core.FuncName(h) + " has no success return: undecided"
			}
			return true, ""
		}
	}
	return false, "stored value " + v.Name() + " in " + fn + " does not originate from ReceiveProbe's result through a recognised path"
}

// behindNilError: every path from the call to the use crosses the "error == nil" edge of a test on the call's second result.
func behindNilError(call *ssa.Call, use ssa.Instruction) bool {
	g := call.Parent()
	cut := map[[2]*ssa.BasicBlock]bool{}
	n := 0
	for _, b := range g.Blocks {
		iff, ok := b.Instrs[len(b.Instrs)-1].(*ssa.If)
		if !ok {
			continue
		}
		cc, tIdx := condCall(iff)
		if cc != call {
			continue
		}
		// condCall normalises to "value != nil is true on Succs[tIdx]": the nil edge is the other one
		cut[[2]*ssa.BasicBlock{b, b.Succs[1-tIdx]}] = true
		n++
	}
	if n == 0 {
		return false
	}
	start := call.Block()
	if start == use.Block() {
		return false
	}
	for _, s := range start.Succs {
		if cut[[2]*ssa.BasicBlock{start, s}] {
			continue
		}
		if reachAvoiding(s, use.Block(), map[*ssa.BasicBlock]bool{start: true}, cut) {
			return false
		}
	}
	return true
}

// validatedLocal: every CFG path from the ReceiveProbe call r to `use` (same function) crosses the success edge of
// validateProbe on r's result, or the CheckProbeRetryable-true edge.
func validatedLocal(c *Ctx, e *Engine, use ssa.Instruction, r *ssa.Call) (bool, string) {
	g := use.Parent()
	if r.Parent() != g {
		return false, "ReceiveProbe is called in another function than the one that uses its result here: undecided"
	}
	cutEdges := map[[2]*ssa.BasicBlock]bool{}
	nval := 0
	for _, b := range g.Blocks {
		iff, ok := b.Instrs[len(b.Instrs)-1].(*ssa.If)
		if !ok {
			continue
		}
		call, tIdx := condCall(iff)
		if call == nil {
			continue
		}
		switch {
		case strings.HasSuffix(shortName(call.Common().StaticCallee()), ".validateProbe"):
			// success = returned nil = "false" edge of (err != nil)
			arg := call.Common().Args[len(call.Common().Args)-1]
			if valueFrom(arg, r, 0) {
				cutEdges[[2]*ssa.BasicBlock{b, b.Succs[1-tIdx]}] = true
				nval++
			}
		case calleeIs(call, "common.CheckProbeRetryable"):
			cutEdges[[2]*ssa.BasicBlock{b, b.Succs[tIdx]}] = true
		}
	}
	if nval == 0 {
		return false, "no validateProbe call on the ReceiveProbe result guards this use"
	}
	start := r.Block()
	if start == use.Block() {
		if core.InstrDominates(r, use) {
			return false, "the ReceiveProbe result is used in the block of the call, before any validation"
		}
		return true, ""
	}
	for _, s := range start.Succs {
		if cutEdges[[2]*ssa.BasicBlock{start, s}] {
			continue
		}
		if reachAvoiding(s, use.Block(), map[*ssa.BasicBlock]bool{start: true}, cutEdges) {
			return false, "a path from ReceiveProbe reaches this use without validateProbe having accepted that probe"
		}
	}
	return true, ""
}

// valueFrom reports whether v is Extract #idx of call (possibly through phis / captured variables).
func valueFrom(v ssa.Value, call *ssa.Call, idx int) bool {
	seen := map[ssa.Value]bool{}
	var rec func(v ssa.Value) bool
	rec = func(v ssa.Value) bool {
		if seen[v] {
			return false
		}
		seen[v] = true
		switch x := v.(type) {
		case *ssa.Extract:
			return x.Tuple == ssa.Value(call) && x.Index == idx
		case *ssa.Phi:
			for _, e := range x.Edges {
				if rec(e) {
					return true
				}
			}
		case *ssa.UnOp:
			// load of a local that was assigned the extract
			if a, ok := x.X.(*ssa.Alloc); ok {
				for _, r := range *a.Referrers() {
					if st, ok := r.(*ssa.Store); ok && st.Addr == ssa.Value(a) && rec(st.Val) {
						return true
					}
				}
			}
		}
		return false
	}
	return rec(v)
}

func checkEngineReturns(c *Ctx, e *Engine) {
	R := c.R
	f := e.Fn
	// validate() first
	var first *ssa.Call
	for _, in := range f.Blocks[0].Instrs {
		if call, ok := in.(*ssa.Call); ok {
			first = call
			break
		}
	}
	okFirst := first != nil && first.Common().StaticCallee() != nil && strings.HasSuffix(shortName(first.Common().StaticCallee()), ".validate")
	R.Check(okFirst, "R03.3", e.Name+"#validate-first", f.Pos(), e.Name, "parameters are validated before anything else", "the first call of the engine is not TracerouteParams.validate()")
	if okFirst {
		// its error leads straight to a return
		rps, _ := core.ReturnPaths(c.P, f, 20000)
		nsucc := 0
		for _, rp := range rps {
			r0, r1 := rp.Results[0], rp.Results[1]
			key := fmt.Sprintf("%s#return[b%d]", e.Name, rp.Ret.Block().Index)
			if r1.IsConst("nil") {
				nsucc++
				ok := clipOfTable(c, e, r0, 0)
				R.Check(ok, "R03.3", key, rp.Ret.Pos(), e.Name, "success return = clipResults(MinTTL, table)", "success return is "+r0.String()+", not clipResults(MinTTL, table)")
				// validate succeeded on this path
				f1, s1 := atomTrue(rp.Atoms, func(t *core.Term) bool {
					return t.Op == "binop" && t.Name == "==" && isCallToSuffix(t.Args[0], ".validate") && t.Args[1].IsConst("nil")
				})
				R.Check(f1 && s1, "R03.3", key+"/validated", rp.Ret.Pos(), e.Name, "success return lies behind validate() == nil", "success return reachable without validate() == nil")
			} else {
				R.Check(r0.IsConst("nil"), "R03.3", key, rp.Ret.Pos(), e.Name, "error return carries a nil slice", "error return carries "+r0.String()+": a partial path is returned with an error")
			}
		}
		R.Floor("R03.3:success-returns:"+e.Name, nsucc, 1)
	}
}

// clipOfTable: r0 is clipResults(<..>.MinTTL, <the slot table>), directly or as what a helper of the engine's package returns on
// every one of its paths (a method of a table type: `return clipResults(minTTL, t.slots)`), its conditions lifted to the call site.
func clipOfTable(c *Ctx, e *Engine, r0 *core.Term, depth int) bool {
	if r0 == nil || r0.Op != "call" {
		return false
	}
	if strings.HasSuffix(r0.Name, "clipResults") && len(r0.Args) == 2 {
		if !strings.HasSuffix(r0.Args[0].String(), ".MinTTL") {
			return false
		}
		if v := r0.Args[1].Val; v != nil {
			return e.isTable(c.P, v)
		}
		return true
	}
	site, isCall := r0.Val.(*ssa.Call)
	if !isCall || depth > 2 {
		return false
	}
	h := site.Common().StaticCallee()
	if h == nil || len(h.Blocks) == 0 || !e.inScope(h) || h.Signature.Results().Len() != 1 {
		return false
	}
	rps, complete := core.ReturnPaths(c.P, h, 200)
	if !complete || len(rps) == 0 {
		return false
	}
	for _, rp := range rps {
		if rp.Ret.Block().Comment == "recover" {
			continue
		}
		inner := rp.Results[0]
		if inner.Op != "call" {
			return false
		}
		if strings.HasSuffix(inner.Name, "clipResults") && len(inner.Args) == 2 {
			// the table is judged where it is read (inside the helper), MinTTL where it is supplied (at the call site)
			if v := inner.Args[1].Val; v == nil || !e.isTable(c.P, v) {
				return false
			}
			if !strings.HasSuffix(liftThrough(c.P, inner.Args[0], site).String(), ".MinTTL") {
				return false
			}
			continue
		}
		if !clipOfTable(c, e, liftThrough(c.P, inner, site), depth+1) {
			return false
		}
	}
	return true
}

func isCallToSuffix(t *core.Term, suffix string) bool {
	return t != nil && t.Op == "call" && strings.HasSuffix(t.Name, suffix)
}

// R03.5: decision table of validateProbe.
func checkValidateProbe(c *Ctx) {
	R := c.R
	f := c.P.Func("(common.TracerouteParams).validateProbe")
	if f == nil {
		R.Fail("R03.5", "common.validateProbe#anchor", 0, "", "anchor (common.TracerouteParams).validateProbe no longer resolves")
		return
	}
	rps, _ := core.ReturnPaths(c.P, f, 1000)
	n := 0
	for _, rp := range rps {
		if !rp.Results[0].IsConst("nil") {
			continue
		}
		n++
		for _, atoms := range openPredicates(c.P, "common", rp.Atoms) {
			if !core.Feasible(atoms) {
				continue
			}
			var notNil, lo, hi bool
			for _, a := range atoms {
				nn := a.Norm()
				if !nn.Sign && nn.Cond.String() == "(param:probe == nil)" {
					notNil = true
					continue
				}
				// any orientation of the two range comparisons: normalise to  probe.TTL REL bound  being true
				t := nn.Cond
				if t.Op != "binop" || len(t.Args) != 2 {
					continue
				}
				x, y, op := t.Args[0].StripConv().String(), t.Args[1].StripConv().String(), t.Name
				if y == "param:probe.TTL" {
					x, y = y, x
					op = map[string]string{"<": ">", "<=": ">=", ">": "<", ">=": "<="}[op]
				}
				if x != "param:probe.TTL" || op == "" {
					continue
				}
				if !nn.Sign {
					op = map[string]string{"<": ">=", "<=": ">", ">": "<=", ">=": "<"}[op]
				}
				switch {
				case op == ">=" && y == "recv.MinTTL":
					lo = true
				case op == "<=" && y == "recv.MaxTTL":
					hi = true
				}
			}
			R.Check(notNil && lo && hi, "R03.5", core.FuncName(f)+"#accept", rp.Ret.Pos(), core.FuncName(f), "accepts only probe != nil with MinTTL <= TTL <= MaxTTL", "accepting path lacks one of: probe != nil, TTL >= MinTTL, TTL <= MaxTTL; atoms: "+strings.Join(atomsString(atoms), " ∧ "))
		}
	}
	R.Floor("R03.5:validateProbe-accept-paths", n, 1)
}

// R03.4: entry points pass ToHops the engine's parameters and result.
func checkEntryHops(c *Ctx) {
	R := c.R
	n := 0
	for _, f := range c.P.ModFuncs {
		var toHops *ssa.Call
		for _, b := range f.Blocks {
			for _, in := range b.Instrs {
				if call, ok := in.(*ssa.Call); ok && calleeIs(call, "common.ToHops") {
					toHops = call
				}
			}
		}
		if toHops == nil || strings.Contains(core.FuncName(f), "Test") {
			continue
		}
		n++
		fn := core.FuncName(f)
		for _, pa := range firstPath(f, toHops.Block()) {
			env := core.NewEnv(c.P, pa)
			params := env.Term(toHops.Common().Args[0])
			probes := env.Term(toHops.Common().Args[1])
			// the engine call that produced the probes: directly in f, or in a helper whose params are f's own
			desc := probes.String()
			okProbes := false
			var engParams *core.Term
			probes.Walk(func(x *core.Term) bool {
				if x.Op == "call" && (strings.HasSuffix(x.Name, "TracerouteParallel") || strings.HasSuffix(x.Name, "TracerouteSerial")) {
					okProbes = true
					engParams = x.Args[len(x.Args)-1]
				}
				if x.Op == "call" && (strings.HasSuffix(x.Name, "runICMPTraceroute") || strings.HasSuffix(x.Name, "runSackTraceroute")) {
					okProbes = true
					engParams = &core.Term{Op: "field", Name: "ParallelParams", Args: []*core.Term{x.Args[len(x.Args)-1]}}
				}
				return true
			})
			// ... and it is that slice as a whole: result #0 of the engine, or the Hops field of the helper's result #0
			if okProbes {
				t := probes
				if t.Op == "field" && t.Name == "Hops" {
					t = t.Args[0]
				}
				if !(t.Op == "extract" && t.Name == "0" && len(t.Args) == 1 && t.Args[0].Op == "call") {
					okProbes = false
				}
			}
			R.Check(okProbes, "R03.4", fn+"#tohops-input", toHops.Pos(), fn, "ToHops receives the engine's result: "+desc, "ToHops receives "+desc+", not the engine's result")
			if engParams != nil {
				ps, es := params.String(), engParams.String()
				same := ps == es || ps == core.ProjField(engParams, "TracerouteParams").String() || ps == core.ProjField(core.ProjField(engParams, "TracerouteParallelParams"), "TracerouteParams").String()
				R.Check(same, "R03.4", fn+"#tohops-params", toHops.Pos(), fn, "ToHops parameters "+ps+" are the engine's "+es, "ToHops is given "+ps+" but the engine ran with "+es)
			}
		}
		// Hops field of the returned run = ToHops #0
		found := false
		for _, b := range f.Blocks {
			for _, in := range b.Instrs {
				st, ok := in.(*ssa.Store)
				if !ok {
					continue
				}
				if fa, ok := st.Addr.(*ssa.FieldAddr); ok && isNamed(fa.X.Type(), core.ModulePath+"/result", "TracerouteRun") {
					if ex, ok := st.Val.(*ssa.Extract); ok && ex.Tuple == ssa.Value(toHops) && ex.Index == 0 {
						found = true
					}
				}
			}
		}
		// ... or the run is assembled by a helper that is handed ToHops' slice and stores that parameter, unchanged, as Hops
		for _, b := range f.Blocks {
			for _, in := range b.Instrs {
				call, ok := in.(*ssa.Call)
				if !ok || call.Common().IsInvoke() {
					continue
				}
				g := call.Common().StaticCallee()
				if g == nil || !core.InModule(g) || len(g.Blocks) == 0 {
					continue
				}
				for k, a := range call.Common().Args {
					ex, ok := a.(*ssa.Extract)
					if !ok || ex.Tuple != ssa.Value(toHops) || ex.Index != 0 || k >= len(g.Params) {
						continue
					}
					nst, okst := 0, 0
					for _, gb := range g.Blocks {
						for _, gin := range gb.Instrs {
							st, ok := gin.(*ssa.Store)
							if !ok {
								continue
							}
							if fa, ok := st.Addr.(*ssa.FieldAddr); ok && isNamed(fa.X.Type(), core.ModulePath+"/result", "TracerouteRun") && core.FieldName(fa) == "Hops" {
								nst++
								if st.Val == ssa.Value(g.Params[k]) {
									okst++
								}
							}
						}
					}
					if nst > 0 && nst == okst {
						found = true
					}
				}
			}
		}
		R.Check(found, "R03.4", fn+"#hops", toHops.Pos(), fn, "TracerouteRun.Hops = ToHops(...) unmodified", "the returned run's Hops is not ToHops' slice")
	}
	R.Floor("R03.4:entry-points", n, 4)
	// the ICMP / SACK helpers: result.Hops is the engine's slice, run with p.ParallelParams
	for _, name := range []string{"icmp.runICMPTraceroute", "sack.runSackTraceroute"} {
		f := c.P.Func(name)
		if f == nil {
			R.Fail("R03.4", name+"#anchor", 0, "", "anchor "+name+" no longer resolves")
			continue
		}
		rps, _ := core.ReturnPaths(c.P, f, 20000)
		nok := 0
		for _, rp := range rps {
			if rp.Ret.Block().Comment == "recover" || !rp.Results[1].IsConst("nil") {
				continue
			}
			nok++
			var al *ssa.Alloc
			for _, b := range rp.Path.Blocks {
				for _, in := range b.Instrs {
					if a, ok := in.(*ssa.Alloc); ok && a.Heap && (isNamed(a.Type(), core.ModulePath+"/icmp", "icmpResult") || isNamed(a.Type(), core.ModulePath+"/sack", "sackResult")) {
						al = a
					}
				}
			}
			if al == nil {
				R.Fail("R03.4", name+"#result-literal", rp.Ret.Pos(), name, "the helper's result is not a literal: undecided")
				continue
			}
			hops := rp.Env.LoadField(al, "Hops", rp.Ret, types.Typ[types.Invalid])
			ok := hops.Op == "extract" && hops.Name == "0" && isCallToSuffix(hops.Args[0], "TracerouteParallel") && strings.HasSuffix(hops.Args[0].Args[len(hops.Args[0].Args)-1].String(), "p.ParallelParams")
			R.Check(ok, "R03.4", name+"#hops", rp.Ret.Pos(), name, "Hops = TracerouteParallel(ctx, driver, p.ParallelParams)#0", "the helper's Hops is "+hops.String()+", not the engine's result for p.ParallelParams")
			break
		}
		R.Floor("R03.4:helper-success:"+name, nok, 1)
	}
}

// checkClipSearch is R03.6: "the list ends at the LOWEST TTL answered by the destination". clipResults cuts the table at an index D;
// the rule recognises how D is searched and decides the recognised forms:
//   - slices.IndexFunc(results, pred): first hit by the library's contract; pred must be `x != nil && x.IsDest`;
//   - an ascending scan: every assignment of D must leave the loop at once (first hit wins) or be guarded by "D not yet set";
//   - a descending scan: must run to exhaustion (the last assignment is the lowest index); any other exit leaves lower indices
//     unexamined, and an exit right after a hit makes the HIGHEST index win.
//
// A form outside these is reported as information only (not decided): correct rewrites exist that no shape rule can foresee.
func checkClipSearch(c *Ctx) {
	R := c.R
	f := c.P.Func("common.clipResults")
	if f == nil {
		R.Fail("R03.6", "common.clipResults#anchor", 0, "", "anchor common.clipResults no longer resolves")
		return
	}
	fn := core.FuncName(f)
	var D ssa.Value
	var at ssa.Instruction
	for _, b := range f.Blocks {
		for _, in := range b.Instrs {
			sl, ok := in.(*ssa.Slice)
			if !ok || sl.High == nil {
				continue
			}
			if bo, ok := sl.High.(*ssa.BinOp); ok && bo.Op == token.ADD {
				if cst, ok := bo.Y.(*ssa.Const); ok && cst.Value != nil && cst.Int64() == 1 {
					D, at = bo.X, in
				}
			}
		}
	}
	if D == nil {
		R.Info("R03.6", fn+"#cut", f.Pos(), fn, "no results[:D+1] cut found: the search for the destination index is not decided")
		return
	}
	for {
		if cv, ok := D.(*ssa.Convert); ok {
			D = cv.X
			continue
		}
		break
	}
	isDestPred := func(g *ssa.Function) bool {
		rps, ok := core.ReturnPaths(c.P, g, 200)
		if !ok || len(g.Params) != 1 {
			return false
		}
		ntrue := 0
		for _, rp := range rps {
			if len(rp.Results) != 1 || !rp.Results[0].IsConst("true") && rp.Results[0].Op != "field" {
				continue
			}
			// `return pr != nil && pr.IsDest` compiles to a phi / a path returning the IsDest load after the nil test
			nn, isd := false, false
			for _, a := range rp.Atoms {
				n := a.Norm()
				s := n.Cond.String()
				if strings.Contains(s, "== nil") && !n.Sign {
					nn = true
				} else if strings.HasSuffix(s, ".IsDest") && n.Sign {
					isd = true
				} else {
					return false
				}
			}
			if rp.Results[0].Op == "field" && rp.Results[0].Name == "IsDest" {
				isd = true
			}
			if nn && isd {
				ntrue++
			}
		}
		return ntrue > 0
	}
	switch d := D.(type) {
	case *ssa.Call:
		name := core.CalleeName(d.Common())
		if !strings.HasPrefix(name, "slices.IndexFunc") {
			R.Info("R03.6", fn+"#search", d.Pos(), fn, "the cut index comes from "+name+": not decided")
			return
		}
		var pred *ssa.Function
		switch a := d.Common().Args[1].(type) {
		case *ssa.MakeClosure:
			pred, _ = a.Fn.(*ssa.Function)
		case *ssa.Function:
			pred = a
		}
		R.Check(pred != nil && isDestPred(pred), "R03.6", fn+"#search", d.Pos(), fn, "cut index = slices.IndexFunc(results, x != nil && x.IsDest): the first, i.e. lowest, destination answer", "the predicate handed to slices.IndexFunc is not `x != nil && x.IsDest`: the list is not cut at the lowest destination answer")
		// the cut is applied whenever a destination answer was found: every dominating condition on the index is the 'found' test
		// (idx != -1, idx >= 0, ...), nothing stricter
		conds, truth := domFacts(at.Block())
		guardOK, nguard := true, 0
		bad := ""
		for i, cd := range conds {
			bo, ok := cd.(*ssa.BinOp)
			if !ok {
				continue
			}
			onIdx := stripWiden(bo.X) == ssa.Value(d) || stripWiden(bo.Y) == ssa.Value(d)
			if !onIdx {
				continue
			}
			nguard++
			found := false
			if k, isK := bo.Y.(*ssa.Const); isK && k.Value != nil && stripWiden(bo.X) == ssa.Value(d) {
				v := k.Int64()
				found = (bo.Op == token.NEQ && v == -1 && truth[i]) || (bo.Op == token.EQL && v == -1 && !truth[i]) || (bo.Op == token.GEQ && v == 0 && truth[i]) || (bo.Op == token.LSS && v == 0 && !truth[i]) || (bo.Op == token.GTR && v == -1 && truth[i]) || (bo.Op == token.LEQ && v == -1 && !truth[i])
			}
			if !found {
				guardOK = false
				bad = cd.String()
			}
		}
		R.Check(guardOK, "R03.6", fn+"#cut-guard", at.Pos(), fn, fmt.Sprintf("the cut after the destination is applied whenever the search found one (%d guard(s), all the 'found' test)", nguard), "the cut results[:idx+1] is guarded by a condition on the index other than the 'found' test ("+bad+"): when the destination answers at a TTL the guard excludes (e.g. the first probed TTL) nothing is cut, the list runs on to MaxTTL and entries after the destination can be destinations too")
		return
	case *ssa.Phi:
		// the web of phis that carry D
		web := map[*ssa.Phi]bool{}
		var grow func(p *ssa.Phi)
		grow = func(p *ssa.Phi) {
			if web[p] {
				return
			}
			web[p] = true
			for _, e := range p.Edges {
				if q, ok := e.(*ssa.Phi); ok {
					grow(q)
				}
			}
		}
		grow(d)
		// counter form: the cut index is the scan counter itself (`for i+1 < len(r) { if dest(r[i]) { break }; i++ }; r[:i+1]`)
		for cp := range web {
			if len(cp.Edges) != 2 {
				continue
			}
			loop := innermostLoop(f, cp.Block())
			if loop == nil {
				continue
			}
			stepped := false
			for _, e := range cp.Edges {
				if bo, ok := e.(*ssa.BinOp); ok && bo.Op == token.ADD && bo.X == ssa.Value(cp) {
					if k, ok := bo.Y.(*ssa.Const); ok && k.Value != nil && k.Int64() == 1 {
						stepped = true
					}
				}
			}
			isHeader := false
			for _, pr := range cp.Block().Preds {
				if !loop[pr] {
					isHeader = true
				}
			}
			if !stepped || !isHeader {
				continue
			}
			key := fn + "#search[counter]"
			nbreak := 0
			okAll := true
			why := ""
			for b := range loop {
				if b == cp.Block() {
					continue
				}
				for si, sx := range b.Succs {
					if loop[sx] {
						continue
					}
					nbreak++
					iff, ok := b.Instrs[len(b.Instrs)-1].(*ssa.If)
					if !ok || si != 0 {
						okAll, why = false, "the loop is left on something other than the true branch of a test"
						continue
					}
					// the tested element: results[counter]
					var elem ssa.Value
					switch cnd := iff.Cond.(type) {
					case *ssa.Call:
						if g := cnd.Common().StaticCallee(); g != nil && isDestPred(g) && len(cnd.Common().Args) == 1 {
							elem = cnd.Common().Args[0]
						}
					case *ssa.UnOp:
						if fa, ok := cnd.X.(*ssa.FieldAddr); ok && core.FieldName(fa) == "IsDest" {
							elem = fa.X
						}
					}
					ld, _ := elem.(*ssa.UnOp)
					if ld == nil {
						okAll, why = false, "the test that leaves the loop is not `x != nil && x.IsDest` on an element"
						continue
					}
					ia, _ := ld.X.(*ssa.IndexAddr)
					if ia == nil || ia.Index != ssa.Value(cp) {
						okAll, why = false, "the element tested before leaving is not the one at the counter's current value (the counter is stepped before the test): the element at the start index is never examined and the list can run past the lowest destination answer"
					}
				}
			}
			if nbreak == 0 {
				R.Info("R03.6", key, at.Pos(), fn, "the counter scan has no early exit: not decided")
			} else {
				R.Check(okAll, "R03.6", key, at.Pos(), fn, "ascending counter scan: it stops at the first element that is a destination answer, tested at the counter's current value", "counter scan for the destination index: "+why)
			}
			return
		}
		type hit struct {
			phi  *ssa.Phi
			from *ssa.BasicBlock
			val  ssa.Value
		}
		var hits []hit
		for p := range web {
			for i, e := range p.Edges {
				if _, isPhi := e.(*ssa.Phi); isPhi {
					continue
				}
				if cst, ok := e.(*ssa.Const); ok && cst.Value != nil && cst.Int64() < 0 {
					continue // "not found"
				}
				hits = append(hits, hit{p, p.Block().Preds[i], e})
			}
		}
		if len(hits) == 0 {
			R.Info("R03.6", fn+"#search", at.Pos(), fn, "no assignment of the cut index found: not decided")
			return
		}
		sort.Slice(hits, func(i, j int) bool { return hits[i].from.Index < hits[j].from.Index })
		for hi, h := range hits {
			key := fmt.Sprintf("%s#search[hit%d]", fn, hi)
			loop := innermostLoop(f, h.from)
			if loop == nil {
				R.Info("R03.6", key, at.Pos(), fn, "the cut index is assigned outside a loop: not decided")
				continue
			}
			// direction of the scan: a header phi stepped by a constant
			var header *ssa.BasicBlock
			for b := range loop {
				for _, p := range b.Preds {
					if !loop[p] {
						header = b
					}
				}
			}
			dir := 0
			if header != nil {
				for _, in := range header.Instrs {
					p, ok := in.(*ssa.Phi)
					if !ok {
						break
					}
					for _, e := range p.Edges {
						if bo, ok := e.(*ssa.BinOp); ok && bo.X == ssa.Value(p) {
							if cst, ok := bo.Y.(*ssa.Const); ok && cst.Value != nil {
								step := cst.Int64()
								if bo.Op == token.SUB {
									step = -step
								}
								if step > 0 {
									dir = 1
								} else if step < 0 {
									dir = -1
								}
							}
						}
					}
				}
			}
			// exits of the loop other than from its header
			early := 0
			for b := range loop {
				for _, s := range b.Succs {
					if !loop[s] && b != header {
						early++
					}
				}
			}
			leaves := !loop[h.phi.Block()]
			switch dir {
			case 1:
				guarded := false
				for b := h.from; b != nil; b = b.Idom() {
					if iff, ok := b.Instrs[len(b.Instrs)-1].(*ssa.If); ok {
						if bo, ok := iff.Cond.(*ssa.BinOp); ok {
							if p, ok := bo.X.(*ssa.Phi); ok && web[p] {
								guarded = true
							}
						}
					}
					if b == header {
						break
					}
				}
				R.Check(leaves || guarded, "R03.6", key, at.Pos(), fn, "ascending scan: the first destination answer ends the search (or later ones are guarded by 'not yet found')", "ascending scan keeps going after a destination answer and overwrites the index: the HIGHEST TTL answered by the destination would end the list, not the lowest")
			case -1:
				R.Check(early == 0, "R03.6", key, at.Pos(), fn, "descending scan runs to exhaustion: the last assignment is the lowest destination answer", fmt.Sprintf("descending scan can leave the loop early (%d exit(s) besides the loop condition): destination answers at lower TTLs are not examined, so the list can end above the lowest TTL the destination answered", early))
			default:
				R.Info("R03.6", key, at.Pos(), fn, "scan direction not recognised: not decided")
			}
		}
		return
	}
	R.Info("R03.6", fn+"#search", at.Pos(), fn, fmt.Sprintf("the cut index is a %T: not decided", D))
}
