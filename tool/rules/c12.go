package rules

import (
	"encoding/binary"
	"fmt"
	"go/ast"
	"go/constant"
	"go/token"
	"go/types"
	"sort"
	"strconv"
	"strings"

	"golang.org/x/tools/go/ssa"

	"verif/tool/internal/cbpf"
	"verif/tool/internal/core"
)

func init() {
	register("C12", "Decides the capture-filter property exhaustively over the equivalence classes its programs can distinguish. (R12.1) The five classic-BPF programs are extracted from the source on every run: the four bpf.RawInstruction tables from the syntax tree (constants evaluated by go/types) and the []bpf.Instruction literal handed to bpf.Assemble from go/ssa, its four Val operands kept symbolic; every program must decode, have forward in-range jumps and end in a return. (R12.2) The symbolic operands originate from BigEndian.Uint32 of the configured source/destination address and the widened ports, compared at the matching header offsets, and the generator refuses non-IPv4 configurations before assembling. (R12.3) Each program is run by the checker's own cBPF interpreter on every frame of the class product (ethertype, protocol/next header, IHL 0..15, fragment field, per-byte address/port mismatches, all 256 TCP flag bytes, every frame length at each load threshold ±1, several address/port configurations at sign and endianness boundaries) and must agree with the reference predicate transcribed from the property statement. (R12.4) getClassicBPFFilter maps every filter type to its program; at every SetPacketFilter call site the installed program accepts every reply form the driver's matcher (or the SACK handshake) can accept, with Src bound to the target and Dst to the local endpoint. (R12.5) drop-all is attached before the drain and the real filter after it. Trusts: kernel cBPF semantics as documented, bpf.Assemble being a faithful assembler. Darwin /dev/bpf and Windows filters are outside the claim. Program tables assembled at package initialisation from a literal []bpf.Instruction (directly or through a helper that hands its argument to bpf.Assemble) are read in symbolic form. Every success path of a filter type in getClassicBPFFilter hands out the same program. The IPv4-only guard must ask Is4 of the address whose bytes go into the program (not of its unmapped form).", runC12)
}

type filterCfg struct {
	src, dst     [4]byte
	sport, dport uint16
}

var cfgs = []filterCfg{
	{[4]byte{2, 4, 6, 8}, [4]byte{1, 3, 5, 7}, 1234, 5678},
	{[4]byte{255, 255, 255, 255}, [4]byte{128, 0, 0, 1}, 65535, 32768},
	{[4]byte{0, 0, 0, 1}, [4]byte{127, 0, 0, 1}, 1, 255},
	{[4]byte{10, 0, 0, 1}, [4]byte{10, 0, 0, 1}, 256, 256},
	{[4]byte{192, 168, 1, 200}, [4]byte{200, 1, 168, 192}, 0x1234, 0x3412},
}

// rawTables extracts the package-level []bpf.RawInstruction literals of package packets.
func rawTables(c *Ctx) map[string][]cbpf.Ins {
	out := map[string][]cbpf.Ins{}
	for _, pk := range c.P.Pkgs {
		if pk.PkgPath != core.ModulePath+"/packets" {
			continue
		}
		for _, file := range pk.Syntax {
			for _, d := range file.Decls {
				gd, ok := d.(*ast.GenDecl)
				if !ok {
					continue
				}
				for _, sp := range gd.Specs {
					vs, ok := sp.(*ast.ValueSpec)
					if !ok || len(vs.Values) != 1 || len(vs.Names) != 1 {
						continue
					}
					lit, ok := vs.Values[0].(*ast.CompositeLit)
					if !ok {
						continue
					}
					t := pk.TypesInfo.TypeOf(lit)
					if t == nil || !strings.HasSuffix(t.String(), "net/bpf.RawInstruction") || !strings.HasPrefix(t.String(), "[]") {
						continue
					}
					name := vs.Names[0].Name
					var prog []cbpf.Ins
					bad := ""
					for i, el := range lit.Elts {
						il, ok := el.(*ast.CompositeLit)
						if !ok {
							bad = fmt.Sprintf("element %d is not a literal", i)
							break
						}
						vals := map[string]uint64{}
						order := []string{"Op", "Jt", "Jf", "K"}
						for j, f := range il.Elts {
							var key string
							var ve ast.Expr
							if kv, ok := f.(*ast.KeyValueExpr); ok {
								key = kv.Key.(*ast.Ident).Name
								ve = kv.Value
							} else if j < 4 {
								key, ve = order[j], f
							}
							tv := pk.TypesInfo.Types[ve]
							if tv.Value == nil {
								bad = fmt.Sprintf("element %d field %s is not a constant", i, key)
								break
							}
							u, _ := constant.Uint64Val(constant.ToInt(tv.Value))
							vals[key] = u
						}
						if bad != "" {
							break
						}
						in, err := cbpf.Decode(uint16(vals["Op"]), uint8(vals["Jt"]), uint8(vals["Jf"]), uint32(vals["K"]))
						if err != nil {
							bad = fmt.Sprintf("element %d: %v", i, err)
							break
						}
						prog = append(prog, in)
					}
					key := "packets." + name + "#program"
					if bad != "" {
						c.R.Fail("R12.1", key, lit.Pos(), "packets."+name, "cannot extract program: "+bad+" (undecided)")
						continue
					}
					if err := cbpf.Validate(prog); err != nil {
						c.R.Fail("R12.1", key, lit.Pos(), "packets."+name, "program rejected: "+err.Error())
						continue
					}
					c.R.OK("R12.1", key, lit.Pos(), "packets."+name, fmt.Sprintf("%d instructions decoded, forward in-range jumps, ends in ret", len(prog)))
					out[name] = prog
				}
			}
		}
	}
	// tables assembled at package initialisation from a literal []bpf.Instruction (directly, or through a helper that hands its
	// argument to bpf.Assemble and returns the result): the literal is read in its symbolic form; all operands must be constant
	if sp := c.P.SSAPkgs["packets"]; sp != nil {
		if initFn := sp.Func("init"); initFn != nil {
			for _, b := range initFn.Blocks {
				for _, in := range b.Instrs {
					st, ok := in.(*ssa.Store)
					if !ok {
						continue
					}
					g, ok := st.Addr.(*ssa.Global)
					if !ok || !strings.HasSuffix(g.Type().String(), "[]golang.org/x/net/bpf.RawInstruction") {
						continue
					}
					if _, done := out[g.Name()]; done {
						continue
					}
					var lit *ssa.Slice
					switch v := st.Val.(type) {
					case *ssa.Call:
						h := v.Common().StaticCallee()
						if h != nil && core.InModule(h) && len(v.Common().Args) == 1 && assemblesParam(h) {
							lit, _ = v.Common().Args[0].(*ssa.Slice)
						}
					case *ssa.Extract:
						if call, ok := v.Tuple.(*ssa.Call); ok && v.Index == 0 {
							if cal := call.Common().StaticCallee(); cal != nil && cal.Pkg != nil && strings.HasSuffix(cal.Pkg.Pkg.Path(), "net/bpf") && cal.Name() == "Assemble" {
								lit, _ = call.Common().Args[0].(*ssa.Slice)
							}
						}
					}
					if lit == nil {
						continue
					}
					arr, ok := lit.X.(*ssa.Alloc)
					if !ok {
						continue
					}
					name := g.Name()
					key := "packets." + name + "#program"
					n := int(arr.Type().Underlying().(*types.Pointer).Elem().Underlying().(*types.Array).Len())
					var env *core.Env
					for _, pa := range firstPath(initFn, b) {
						env = core.NewEnv(c.P, pa)
					}
					if env == nil {
						continue
					}
					sym, ok := symFromArray(c, env, arr, n, func(t *core.Term) *core.Term { return t }, "packets."+name, st.Pos())
					if !ok {
						continue
					}
					prog := make([]cbpf.Ins, len(sym))
					allConst := true
					for i, si := range sym {
						prog[i] = si.ins
						if si.sym != nil {
							allConst = false
						}
					}
					if !allConst {
						c.R.Fail("R12.1", key, st.Pos(), "packets."+name, "a table assembled at initialisation has a non-constant operand: undecided")
						continue
					}
					if err := cbpf.Validate(prog); err != nil {
						c.R.Fail("R12.1", key, st.Pos(), "packets."+name, "program rejected: "+err.Error())
						continue
					}
					c.R.OK("R12.1", key, st.Pos(), "packets."+name, fmt.Sprintf("%d instructions read from the literal handed to bpf.Assemble at initialisation, forward in-range jumps, ends in ret", len(prog)))
					out[name] = prog
				}
			}
		}
	}
	return out
}

// assemblesParam: h hands its only parameter to bpf.Assemble and returns that call's first result (whatever it does with the error).
func assemblesParam(h *ssa.Function) bool {
	if len(h.Params) != 1 || h.Signature.Results().Len() != 1 {
		return false
	}
	var asm *ssa.Call
	for _, b := range h.Blocks {
		for _, in := range b.Instrs {
			if call, ok := in.(*ssa.Call); ok {
				if cal := call.Common().StaticCallee(); cal != nil && cal.Pkg != nil && strings.HasSuffix(cal.Pkg.Pkg.Path(), "net/bpf") && cal.Name() == "Assemble" && len(call.Common().Args) == 1 && call.Common().Args[0] == ssa.Value(h.Params[0]) {
					asm = call
				}
			}
		}
	}
	if asm == nil {
		return false
	}
	for _, b := range h.Blocks {
		if ret, ok := b.Instrs[len(b.Instrs)-1].(*ssa.Return); ok && len(ret.Results) == 1 {
			ex, ok := ret.Results[0].(*ssa.Extract)
			if !ok || ex.Tuple != ssa.Value(asm) || ex.Index != 0 {
				return false
			}
		}
	}
	return true
}

// symIns is an instruction of the assembled filter whose K may be symbolic.
type symIns struct {
	ins cbpf.Ins
	sym *core.Term // nil when K is constant
}

func constInt(t *core.Term) (int64, bool) {
	if t == nil {
		return 0, false
	}
	if t.Op == "zero" {
		return 0, true
	}
	if t.Op == "conv" {
		return constInt(t.Args[0])
	}
	if t.Op != "const" {
		return 0, false
	}
	v, err := strconv.ParseInt(t.Name, 0, 64)
	if err != nil {
		return 0, false
	}
	return v, true
}

func kvOf(t *core.Term, name string) *core.Term {
	if t.Op != "struct" {
		return nil
	}
	for _, kv := range t.Args {
		if kv.Name == name {
			return kv.Args[0]
		}
	}
	return nil
}

// tupleProgram extracts the []bpf.Instruction literal given to bpf.Assemble in GenerateTCP4Filter.
func tupleProgram(c *Ctx) ([]symIns, *ssa.Function, *ssa.Call) {
	R := c.R
	f := c.P.Func("(packets.FilterConfig).GenerateTCP4Filter")
	if f == nil {
		R.Fail("R12.1", "packets.GenerateTCP4Filter#anchor", 0, "", "anchor (packets.FilterConfig).GenerateTCP4Filter no longer resolves")
		return nil, nil, nil
	}
	fn := core.FuncName(f)
	var asm *ssa.Call
	for _, b := range f.Blocks {
		for _, in := range b.Instrs {
			if call, ok := in.(*ssa.Call); ok {
				if cal := call.Common().StaticCallee(); cal != nil && cal.Pkg != nil && strings.HasSuffix(cal.Pkg.Pkg.Path(), "net/bpf") && cal.Name() == "Assemble" {
					asm = call
				}
			}
		}
	}
	if asm == nil {
		R.Fail("R12.1", fn+"#assemble", f.Pos(), fn, "no call to bpf.Assemble found: anchor lost")
		return nil, f, nil
	}
	// the literal may be built by a straight-line helper (`bpf.Assemble(tuple.program())`): it is read there and its symbolic
	// operands are lifted into the generator's frame
	litFn := f
	var viaCall *ssa.Call
	sl, ok := asm.Common().Args[0].(*ssa.Slice)
	if !ok {
		if call, isCall := asm.Common().Args[0].(*ssa.Call); isCall && call.Common().StaticCallee() != nil {
			g := call.Common().StaticCallee()
			if core.InModule(g) && len(g.Blocks) >= 1 && len(g.Blocks) <= 2 {
				if ret, isRet := g.Blocks[0].Instrs[len(g.Blocks[0].Instrs)-1].(*ssa.Return); isRet && len(ret.Results) == 1 {
					if gsl, isSl := ret.Results[0].(*ssa.Slice); isSl {
						sl, ok, litFn, viaCall = gsl, true, g, call
					}
				}
			}
		}
	}
	if !ok {
		R.Fail("R12.1", fn+"#program", asm.Pos(), fn, "bpf.Assemble is not given a slice literal: undecided")
		return nil, f, asm
	}
	arr, ok := sl.X.(*ssa.Alloc)
	if !ok {
		R.Fail("R12.1", fn+"#program", asm.Pos(), fn, "bpf.Assemble is not given a slice literal: undecided")
		return nil, f, asm
	}
	n := int(arr.Type().Underlying().(*types.Pointer).Elem().Underlying().(*types.Array).Len())
	paths, _ := core.EnumPaths(f, asm.Block(), 200)
	if len(paths) == 0 {
		R.Fail("R12.1", fn+"#program", asm.Pos(), fn, "bpf.Assemble unreachable")
		return nil, f, asm
	}
	outerEnv := core.NewEnv(c.P, paths[0])
	env := outerEnv
	if litFn != f {
		env = core.NewEnv(c.P, core.NewPath(litFn, litFn.Blocks[:1]))
	}
	liftSym := func(t *core.Term) *core.Term {
		if viaCall == nil || t == nil {
			return t
		}
		t = liftWithEnv(outerEnv, t, viaCall)
		// a field of a struct-valued helper result (`c.bpfTuple()#0.srcAddr`): the value on the helper's success path
		if alts := projectCallResult(c.P, t); len(alts) == 1 && alts[0].t != nil {
			t = alts[0].t
		}
		return t
	}
	prog, okProg := symFromArray(c, env, arr, n, liftSym, fn, asm.Pos())
	if !okProg {
		return nil, f, asm
	}
	plain := make([]cbpf.Ins, len(prog))
	for i, s := range prog {
		plain[i] = s.ins
	}
	if err := cbpf.Validate(plain); err != nil {
		R.Fail("R12.1", fn+"#program", asm.Pos(), fn, "program rejected: "+err.Error())
		return nil, f, asm
	}
	nsym := 0
	for _, s := range prog {
		if s.sym != nil {
			nsym++
		}
	}
	R.OK("R12.1", fn+"#program", asm.Pos(), fn, fmt.Sprintf("%d instructions extracted from the literal, %d symbolic operands", len(prog), nsym))
	return prog, f, asm
}

// symFromArray reads a literal []bpf.Instruction (the backing array arr with n elements, evaluated with env) into symbolic form.
func symFromArray(c *Ctx, env *core.Env, arr *ssa.Alloc, n int, liftSym func(*core.Term) *core.Term, fn string, pos token.Pos) ([]symIns, bool) {
	R := c.R
	elem := map[int]*core.Term{}
	for _, r := range *arr.Referrers() {
		ia, ok := r.(*ssa.IndexAddr)
		if !ok {
			continue
		}
		ci, ok := ia.Index.(*ssa.Const)
		if !ok {
			continue
		}
		for _, r2 := range *ia.Referrers() {
			if st, ok := r2.(*ssa.Store); ok && st.Addr == ssa.Value(ia) {
				elem[int(ci.Int64())] = env.Term(st.Val)
			}
		}
	}
	var prog []symIns
	for i := 0; i < n; i++ {
		t := elem[i]
		if t == nil || t.Op != "struct" {
			R.Fail("R12.1", fn+"#program", pos, fn, fmt.Sprintf("instruction %d is not a struct literal (%v): undecided", i, t))
			return nil, false
		}
		ci := func(name string) (int64, bool) { return constInt(kvOf(t, name)) }
		var si symIns
		okc := true
		switch {
		case strings.HasSuffix(t.Name, "bpf.LoadAbsolute"):
			sz, o1 := ci("Size")
			off, o2 := ci("Off")
			okc = o1 && o2
			si.ins = cbpf.Ins{Kind: "ldabs", Size: int(sz), K: uint32(off)}
		case strings.HasSuffix(t.Name, "bpf.LoadIndirect"):
			sz, o1 := ci("Size")
			off, o2 := ci("Off")
			okc = o1 && o2
			si.ins = cbpf.Ins{Kind: "ldind", Size: int(sz), K: uint32(off)}
		case strings.HasSuffix(t.Name, "bpf.LoadMemShift"):
			off, o1 := ci("Off")
			okc = o1
			si.ins = cbpf.Ins{Kind: "ldxmsh", Size: 1, K: uint32(off)}
		case strings.HasSuffix(t.Name, "bpf.RetConstant"):
			v, o1 := ci("Val")
			okc = o1
			si.ins = cbpf.Ins{Kind: "retk", K: uint32(v)}
		case strings.HasSuffix(t.Name, "bpf.JumpIf"):
			cond, o1 := ci("Cond")
			st, o2 := ci("SkipTrue")
			sf, o3 := ci("SkipFalse")
			okc = o1 && o2 && o3
			kind := map[int64]string{0: "jeq", 2: "jgt", 4: "jge", 6: "jset"}[cond]
			if kind == "" {
				okc = false
			}
			si.ins = cbpf.Ins{Kind: kind, Jt: int(st), Jf: int(sf)}
			if v, isC := constInt(kvOf(t, "Val")); isC {
				si.ins.K = uint32(v)
			} else {
				si.sym = liftSym(kvOf(t, "Val"))
			}
		default:
			okc = false
		}
		if !okc || (si.ins.Kind == "ldabs" || si.ins.Kind == "ldind") && si.ins.Size != 1 && si.ins.Size != 2 && si.ins.Size != 4 {
			R.Fail("R12.1", fn+"#program", pos, fn, fmt.Sprintf("instruction %d (%s) has a non-constant or unsupported shape: undecided", i, t.String()))
			return nil, false
		}
		prog = append(prog, si)
	}
	return prog, true
}

// evalSym evaluates a symbolic operand under a concrete configuration.
func evalSym(t *core.Term, cfg filterCfg) (uint32, error) {
	switch t.Op {
	case "const":
		v, err := strconv.ParseInt(t.Name, 0, 64)
		return uint32(v), err
	case "conv":
		v, err := evalSym(t.Args[0], cfg)
		if err != nil {
			return 0, err
		}
		switch t.Name {
		case "uint16":
			return v & 0xffff, nil
		case "uint8", "byte":
			return v & 0xff, nil
		}
		return v, nil
	case "binop":
		a, err := evalSym(t.Args[0], cfg)
		if err != nil {
			return 0, err
		}
		b, err := evalSym(t.Args[1], cfg)
		if err != nil {
			return 0, err
		}
		switch t.Name {
		case "+":
			return a + b, nil
		case "-":
			return a - b, nil
		case "&":
			return a & b, nil
		case "|":
			return a | b, nil
		case "<<":
			return a << (b & 31), nil
		case ">>":
			return a >> (b & 31), nil
		}
	case "call":
		switch {
		case strings.HasSuffix(t.Name, "igEndian).Uint32") || strings.HasSuffix(t.Name, "ittleEndian).Uint32"):
			bs, err := evalBytes(t.Args[len(t.Args)-1], cfg)
			if err != nil {
				return 0, err
			}
			if len(bs) < 4 {
				return 0, fmt.Errorf("short slice")
			}
			if strings.Contains(t.Name, "ittleEndian") {
				return binary.LittleEndian.Uint32(bs), nil
			}
			return binary.BigEndian.Uint32(bs), nil
		case t.Name == "(netip.AddrPort).Port":
			side, err := cfgSide(t.Args[0])
			if err != nil {
				return 0, err
			}
			if side == "Src" {
				return uint32(cfg.sport), nil
			}
			return uint32(cfg.dport), nil
		}
	}
	return 0, fmt.Errorf("operand %s is outside the evaluator's grammar", t.String())
}

func cfgSide(t *core.Term) (string, error) {
	s := t.String()
	switch s {
	case "recv.Src":
		return "Src", nil
	case "recv.Dst":
		return "Dst", nil
	}
	return "", fmt.Errorf("%s is not a FilterConfig endpoint", s)
}

func evalBytes(t *core.Term, cfg filterCfg) ([]byte, error) {
	if t.Op == "call" && (t.Name == "(netip.Addr).AsSlice") && len(t.Args) == 1 {
		a := t.Args[0]
		if a.Op == "call" && a.Name == "(netip.AddrPort).Addr" {
			side, err := cfgSide(a.Args[0])
			if err != nil {
				return nil, err
			}
			if side == "Src" {
				return cfg.src[:], nil
			}
			return cfg.dst[:], nil
		}
	}
	if t.Op == "call" && (t.Name == "(netip.Addr).As4") && len(t.Args) == 1 {
		return evalBytes(&core.Term{Op: "call", Name: "(netip.Addr).AsSlice", Args: t.Args}, cfg)
	}
	if t.Op == "slice" {
		return evalBytes(t.Args[0], cfg)
	}
	return nil, fmt.Errorf("byte source %s is outside the evaluator's grammar", t.String())
}

func instantiate(prog []symIns, cfg filterCfg) ([]cbpf.Ins, error) {
	out := make([]cbpf.Ins, len(prog))
	for i, s := range prog {
		out[i] = s.ins
		if s.sym != nil {
			v, err := evalSym(s.sym, cfg)
			if err != nil {
				return nil, fmt.Errorf("instruction %d: %w", i, err)
			}
			out[i].K = v
		}
	}
	return out, nil
}

// ---- reference predicates, transcribed from the property statement, reading the frame bytes ----

func be16(f []byte, o int) (uint16, bool) {
	if o+2 > len(f) {
		return 0, false
	}
	return uint16(f[o])<<8 | uint16(f[o+1]), true
}
func b8(f []byte, o int) (byte, bool) {
	if o+1 > len(f) {
		return 0, false
	}
	return f[o], true
}

func refICMP(f []byte, udpToo bool) bool {
	et, ok := be16(f, 12)
	if !ok {
		return false
	}
	isWanted := func(p byte, v6 bool) bool {
		if v6 {
			return p == 58 || (udpToo && p == 17)
		}
		return p == 1 || (udpToo && p == 17)
	}
	switch et {
	case 0x0800:
		p, ok := b8(f, 23)
		return ok && isWanted(p, false)
	case 0x86dd:
		nh, ok := b8(f, 20)
		if !ok {
			return false
		}
		if isWanted(nh, true) {
			return true
		}
		if nh == 44 {
			in, ok := b8(f, 54)
			return ok && isWanted(in, true)
		}
	}
	return false
}

func refTuple(f []byte, cfg filterCfg) bool {
	et, ok := be16(f, 12)
	if !ok || et != 0x0800 {
		return false
	}
	p, ok := b8(f, 23)
	if !ok {
		return false
	}
	if p == 1 {
		return true
	}
	if p != 6 {
		return false
	}
	if len(f) < 34 {
		return false
	}
	for i := 0; i < 4; i++ {
		if f[26+i] != cfg.src[i] || f[30+i] != cfg.dst[i] {
			return false
		}
	}
	fr, _ := be16(f, 20)
	if fr&0x1fff != 0 {
		return false
	}
	x := 4 * int(f[14]&0xf)
	sp, ok := be16(f, 14+x)
	if !ok || sp != cfg.sport {
		return false
	}
	dp, ok := be16(f, 16+x)
	return ok && dp == cfg.dport
}

func refSynack(f []byte) bool {
	et, ok := be16(f, 12)
	if !ok || et != 0x0800 {
		return false
	}
	p, ok := b8(f, 23)
	if !ok || p != 6 {
		return false
	}
	fr, _ := be16(f, 20)
	if fr&0x1fff != 0 {
		return false
	}
	x := 4 * int(f[14]&0xf)
	fl, ok := b8(f, 14+x+13)
	return ok && fl&0x02 != 0 && fl&0x10 != 0
}

// ---- sweep ----

type sweepDims struct {
	eth   []uint16
	proto []byte
	ihl   []byte
	frag  []uint16
	addr  []int // 0 = equal, 1..4 = byte i differs, 5 = reversed
	port  []int // 0 equal, 1 hi differs, 2 lo differs, 3 swapped
	flags []int
	b54   []byte
}

func dimsFor(tier string) sweepDims {
	d := sweepDims{
		eth:   []uint16{0x0800, 0x86dd, 0x0806, 0x0008},
		proto: []byte{1, 6, 17, 44, 58, 0, 255},
		frag:  []uint16{0x0000, 0x2000, 0x4000, 0x0001, 0x1fff, 0x2001},
		addr:  []int{0, 1, 4, 5},
		port:  []int{0, 1, 2, 3},
		b54:   []byte{58, 17, 1, 6, 0},
	}
	for i := 0; i < 16; i++ {
		d.ihl = append(d.ihl, byte(i))
	}
	if tier == "thorough" {
		d.addr = []int{0, 1, 2, 3, 4, 5}
		d.frag = append(d.frag, 0x00b9, 0x3fff, 0xe000)
	}
	return d
}

const frameMax = 14 + 60 + 40

func mutateAddr(a [4]byte, m int) [4]byte {
	switch {
	case m == 0:
	case m >= 1 && m <= 4:
		a[m-1] ^= 0x81
	case m == 5:
		a = [4]byte{a[3], a[2], a[1], a[0]}
		if a == [4]byte{a[3], a[2], a[1], a[0]} {
			a[0] ^= 0x40
		}
	}
	return a
}

func mutatePort(p uint16, m int) uint16 {
	switch m {
	case 1:
		return p ^ 0x8100
	case 2:
		return p ^ 0x0081
	case 3:
		s := p<<8 | p>>8
		if s == p {
			return p ^ 0x0100
		}
		return s
	}
	return p
}

// lengths returns the frame lengths to try for a program at a given X.
func lengths(prog []cbpf.Ins, x int) []int {
	set := map[int]bool{0: true, 13: true, 14: true, frameMax: true}
	for _, ls := range cbpf.LoadSites(prog) {
		o := ls[1]
		if ls[0] == 1 {
			o += x
		}
		for _, l := range []int{o + ls[2] - 1, o + ls[2]} {
			if l >= 0 && l <= frameMax {
				set[l] = true
			}
		}
	}
	var out []int
	for l := range set {
		out = append(out, l)
	}
	sort.Ints(out)
	return out
}

// sweep runs prog against ref over the class product; returns frames evaluated and the first disagreement.
func sweep(prog []cbpf.Ins, ref func([]byte) bool, d sweepDims, cfg filterCfg, useTuple, useFlags bool) (int, string) {
	n := 0
	buf := make([]byte, frameMax)
	addrM, portM, flagsM := []int{0}, []int{0}, []int{0x12}
	if useTuple {
		addrM, portM = d.addr, d.port
	}
	if useFlags {
		flagsM = nil
		for i := 0; i < 256; i++ {
			flagsM = append(flagsM, i)
		}
	}
	for _, et := range d.eth {
		for _, pr := range d.proto {
			for _, ihl := range d.ihl {
				x := 4 * int(ihl)
				lens := lengths(prog, x)
				for _, fr := range d.frag {
					for _, sa := range addrM {
						for _, da := range addrM {
							for _, spm := range portM {
								for _, dpm := range portM {
									for _, fl := range flagsM {
										for _, b54 := range d.b54 {
											for i := range buf {
												buf[i] = 0xa5
											}
											buf[12], buf[13] = byte(et>>8), byte(et)
											buf[14] = 0x40 | ihl
											buf[20], buf[21] = byte(fr>>8), byte(fr)
											buf[23] = pr
											if et == 0x86dd {
												buf[20] = pr
												buf[54] = b54
											}
											s, dd := mutateAddr(cfg.src, sa), mutateAddr(cfg.dst, da)
											copy(buf[26:30], s[:])
											copy(buf[30:34], dd[:])
											if et != 0x86dd {
												sp, dp := mutatePort(cfg.sport, spm), mutatePort(cfg.dport, dpm)
												buf[14+x], buf[15+x] = byte(sp>>8), byte(sp)
												buf[16+x], buf[17+x] = byte(dp>>8), byte(dp)
												buf[14+x+13] = byte(fl)
											}
											for _, l := range lens {
												fme := buf[:l]
												n++
												got := cbpf.Run(prog, fme) != 0
												want := ref(fme)
												if got != want {
													return n, fmt.Sprintf("frame len=%d ethertype=%#04x proto/nh=%d ihl=%d frag=%#04x srcMut=%d dstMut=%d sportMut=%d dportMut=%d flags=%#02x byte54=%d: program accepts=%v, reference accepts=%v", l, et, pr, ihl, fr, sa, da, spm, dpm, fl, b54, got, want)
												}
											}
											if et != 0x86dd {
												break // byte 54 only matters for IPv6 frames
											}
										}
									}
								}
							}
						}
					}
				}
			}
		}
	}
	return n, ""
}

func runC12(c *Ctx) {
	R := c.R
	tables := rawTables(c)
	R.Floor("R12.1:raw-tables", len(tables), 4)
	dims := dimsFor(c.Tier)
	total := 0
	type refT struct {
		name  string
		ref   func([]byte) bool
		flags bool
		what  string
	}
	for _, rt := range []refT{
		{"dropAllFilter", func([]byte) bool { return false }, false, "accepts nothing"},
		{"icmpFilter", func(f []byte) bool { return refICMP(f, false) }, false, "exactly ICMPv4 and ICMPv6 (directly or after a fragment header)"},
		{"udpFilter", func(f []byte) bool { return refICMP(f, true) }, false, "ICMPv4/ICMPv6/UDP (reference from the source comment; no protocol installs it)"},
		{"tcpSynackFilter", refSynack, true, "exactly unfragmented IPv4 TCP with SYN and ACK set"},
	} {
		prog, ok := tables[rt.name]
		if !ok {
			R.Fail("R12.3", "packets."+rt.name+"#equivalence", 0, "packets."+rt.name, "program table not found: anchor lost")
			continue
		}
		n, diff := sweep(prog, rt.ref, dims, cfgs[0], false, rt.flags)
		total += n
		if diff != "" {
			R.Fail("R12.3", "packets."+rt.name+"#equivalence", 0, "packets."+rt.name, "program differs from the reference ("+rt.what+"): "+diff)
		} else {
			R.OK("R12.3", "packets."+rt.name+"#equivalence", 0, "packets."+rt.name, fmt.Sprintf("agrees with the reference (%s) on %d frames", rt.what, n))
		}
		checkSnapLen(c, "packets."+rt.name, prog)
	}
	sym, genFn, asm := tupleProgram(c)
	var tupleProgs [][]cbpf.Ins
	if sym != nil {
		fn := core.FuncName(genFn)
		checkTupleProvenance(c, sym, genFn, asm)
		for ci, cfg := range cfgs {
			prog, err := instantiate(sym, cfg)
			if err != nil {
				R.Fail("R12.2", fn+"#operands", asm.Pos(), fn, "symbolic operand cannot be evaluated: "+err.Error()+" (undecided)")
				break
			}
			tupleProgs = append(tupleProgs, prog)
			cc := cfg
			n, diff := sweep(prog, func(f []byte) bool { return refTuple(f, cc) }, dims, cfg, true, false)
			total += n
			key := fmt.Sprintf("%s#equivalence[cfg%d]", fn, ci)
			if diff != "" {
				R.Fail("R12.3", key, asm.Pos(), fn, fmt.Sprintf("tuple filter for src=%v:%d dst=%v:%d differs from the reference (IPv4 ICMP, or unfragmented IPv4 TCP with exactly that tuple): %s", cfg.src, cfg.sport, cfg.dst, cfg.dport, diff))
			} else {
				R.OK("R12.3", key, asm.Pos(), fn, fmt.Sprintf("agrees with the reference on %d frames for src=%v:%d dst=%v:%d", n, cfg.src, cfg.sport, cfg.dst, cfg.dport))
			}
			if ci == 0 {
				checkSnapLen(c, fn, prog)
			}
			if c.Tier != "thorough" && ci >= 2 {
				break
			}
		}
	}
	R.Exhaustive = true
	R.Extra["frames_evaluated"] = total
	R.Extra["class_dimensions"] = map[string]int{"ethertype": len(dims.eth), "protocol": len(dims.proto), "ihl": len(dims.ihl), "fragment_field": len(dims.frag), "addr_mutations": len(dims.addr), "port_mutations": len(dims.port), "tcp_flag_bytes": 256, "configs": len(cfgs)}
	checkFilterSelector(c)
	checkFilterSites(c, tables, tupleProgs)
	checkAttachOrder(c, "R12.5")
}

func checkSnapLen(c *Ctx, name string, prog []cbpf.Ins) {
	for _, in := range prog {
		if in.Kind == "retk" && in.K != 0 && in.K < 1024 {
			c.R.Fail("R12.3", name+"#snaplen", 0, name, fmt.Sprintf("accepting return keeps only %d bytes: accepted frames would be truncated below the drivers' 1024-byte read buffer", in.K))
			return
		}
	}
	c.R.OK("R12.3", name+"#snaplen", 0, name, "accepting returns keep at least the drivers' read-buffer size")
}

// checkTupleProvenance is R12.2.
func checkTupleProvenance(c *Ctx, prog []symIns, f *ssa.Function, asm *ssa.Call) {
	R := c.R
	fn := core.FuncName(f)
	// which load feeds each symbolic comparison: the nearest preceding load on the straight line
	want := map[string]string{
		"ldabs4@26": "BigEndian.Uint32(recv.Src address)", "ldabs4@30": "BigEndian.Uint32(recv.Dst address)",
		"ldind2@14": "uint32(recv.Src port)", "ldind2@16": "uint32(recv.Dst port)",
	}
	seen := map[string]bool{}
	for i, s := range prog {
		if s.sym == nil {
			continue
		}
		// find feeding load
		var ld *cbpf.Ins
		for j := i - 1; j >= 0; j-- {
			k := prog[j].ins.Kind
			if k == "ldabs" || k == "ldind" {
				ld = &prog[j].ins
				break
			}
		}
		if ld == nil || s.ins.Kind != "jeq" {
			R.Fail("R12.2", fmt.Sprintf("%s#operand[%d]", fn, i), asm.Pos(), fn, "symbolic operand is not an equality test on a loaded field")
			continue
		}
		site := fmt.Sprintf("%s%d@%d", ld.Kind, ld.Size, ld.K)
		seen[site] = true
		str := s.sym.String()
		var ok bool
		switch site {
		case "ldabs4@26":
			ok = strings.Contains(str, "bigEndian).Uint32") && strings.Contains(str, "recv.Src") && !strings.Contains(str, "recv.Dst")
		case "ldabs4@30":
			ok = strings.Contains(str, "bigEndian).Uint32") && strings.Contains(str, "recv.Dst") && !strings.Contains(str, "recv.Src")
		case "ldind2@14":
			ok = strings.Contains(str, "(netip.AddrPort).Port(recv.Src)")
		case "ldind2@16":
			ok = strings.Contains(str, "(netip.AddrPort).Port(recv.Dst)")
		}
		R.Check(ok, "R12.2", fmt.Sprintf("%s#operand[%s]", fn, site), asm.Pos(), fn, "field at "+site+" is compared with "+str, "field at "+site+" is compared with "+str+", expected "+want[site])
	}
	for site := range want {
		if !seen[site] {
			R.Fail("R12.2", fmt.Sprintf("%s#operand[%s]", fn, site), asm.Pos(), fn, "no symbolic comparison on the field at "+site+": the tuple is not fully constrained")
		}
	}
	// the generator refuses non-IPv4 configurations before assembling
	paths, _ := core.EnumPaths(f, asm.Block(), 200)
	ok := len(paths) > 0
	for _, pa := range paths {
		env := core.NewEnv(c.P, pa)
		for _, atoms := range openSuccessConds(c.P, env.Atoms(), 0) {
			s4, d4 := false, false
			for _, a := range atoms {
				n := a.Norm()
				str := n.Cond.String()
				// asked of the address whose bytes go into the program: Is4 of the unmapped address says nothing about the
				// 16 bytes AsSlice returns for a v4-mapped address (the first four of which are zero)
				if n.Sign && strings.Contains(str, ".Is4(") && strings.Contains(str, "recv.Src") && !strings.Contains(str, ".Unmap(") {
					s4 = true
				}
				if n.Sign && strings.Contains(str, ".Is4(") && strings.Contains(str, "recv.Dst") && !strings.Contains(str, ".Unmap(") {
					d4 = true
				}
			}
			if !s4 || !d4 {
				ok = false
			}
		}
	}
	R.Check(ok, "R12.2", fn+"#ipv4-only", asm.Pos(), fn, "Assemble is reached only when both endpoints are IPv4", "the program is assembled without both endpoints having been checked to be IPv4")
}

// checkFilterSelector: getClassicBPFFilter maps every filter type constant to its program.
func checkFilterSelector(c *Ctx) {
	R := c.R
	f := c.P.Func("packets.getClassicBPFFilter")
	if f == nil {
		R.Fail("R12.4", "packets.getClassicBPFFilter#anchor", 0, "", "anchor packets.getClassicBPFFilter no longer resolves")
		return
	}
	fn := core.FuncName(f)
	want := map[string]string{"1": "@packets.icmpFilter", "2": "@packets.udpFilter", "3": "(packets.FilterConfig).GenerateTCP4Filter(<spec>.FilterConfig)", "4": "@packets.tcpSynackFilter"}
	rps, _ := core.ReturnPaths(c.P, f, 1000)
	got := map[string]string{}
	norm := func(t *core.Term) string {
		r0 := t.String()
		if t.Op == "extract" {
			r0 = t.Args[0].String()
		}
		if strings.HasPrefix(r0, "(packets.FilterConfig).GenerateTCP4Filter(") && strings.HasSuffix(r0, ".FilterConfig)") {
			r0 = "(packets.FilterConfig).GenerateTCP4Filter(<spec>.FilterConfig)"
		}
		return r0
	}
	for _, rp := range rps {
		typ := "default"
		for _, a := range rp.Atoms {
			n := a.Norm()
			if n.Sign && n.Cond.Op == "binop" && n.Cond.Name == "==" && strings.HasSuffix(n.Cond.Args[0].String(), ".FilterType") {
				typ = n.Cond.Args[1].String()
			}
		}
		if !rp.Results[1].IsConst("nil") && rp.Results[0].IsConst("nil") {
			if _, seen := got[typ]; !seen || typ != "default" {
				got[typ] = "error"
			}
			continue
		}
		// a table lookup keyed by the filter type: `prog, ok := table[spec.FilterType]; if ok { return prog, nil }`
		r := rp.Results[0]
		if r.Op == "extract" && r.Name == "0" && r.Args[0].Op == "lookup" && len(r.Args[0].Args) == 2 && strings.HasSuffix(r.Args[0].Args[1].String(), ".FilterType") && r.Args[0].Args[0].Op == "global" {
			for k, v := range globalMapElems(c, "packets", r.Args[0].Args[0].Name) {
				got[k] = v
			}
			continue
		}
		// every success path of a type must hand out the same program: a second program for some configurations of the type
		// (a variant chosen when a field is set) is a different filter
		if prev, seen := got[typ]; seen && prev != "error" && prev != norm(rp.Results[0]) {
			if !strings.Contains(prev, norm(rp.Results[0])) {
				got[typ] = prev + " | " + norm(rp.Results[0])
			}
			continue
		}
		got[typ] = norm(rp.Results[0])
	}
	if _, ok := got["0"]; !ok {
		// FilterTypeNone falls to the error of the default path when it has no entry of its own
		got["0"] = got["default"]
	}
	for k, w := range want {
		R.Check(got[k] == w, "R12.4", fmt.Sprintf("%s#type[%s]", fn, k), f.Pos(), fn, "filter type "+k+" → "+w, "filter type "+k+" is mapped to "+got[k]+", expected "+w)
	}
	R.Check(got["default"] == "error" && got["0"] == "error", "R12.4", fn+"#default", f.Pos(), fn, "unknown types and FilterTypeNone yield an error", "unknown filter types do not yield an error: "+fmt.Sprint(got))
	// SetPacketFilter hands the selected program to SetBPFAndDrain
	g := c.P.Func("(*packets.afPacketSource).SetPacketFilter")
	if g == nil {
		R.Fail("R12.4", "packets.afPacketSource.SetPacketFilter#anchor", 0, "", "anchor (*packets.afPacketSource).SetPacketFilter no longer resolves")
		return
	}
	found := false
	for _, gg := range ModReach(c.P, g) {
		if core.FuncPkg(gg) != core.FuncPkg(g) {
			continue
		}
		for _, b := range gg.Blocks {
			for _, in := range b.Instrs {
				call, ok := in.(*ssa.Call)
				if !ok || !calleeIs(call, "packets.SetBPFAndDrain") {
					continue
				}
				for _, pa := range firstPath(gg, b) {
					env := core.NewEnv(c.P, pa)
					at := env.Term(call.Common().Args[1])
					a := at.String()
					found = true
					okSel := at.Op == "extract" && at.Name == "0" && at.Args[0].Op == "call" && at.Args[0].Name == "packets.getClassicBPFFilter" && len(at.Args[0].Args) == 1 && at.Args[0].Args[0].Op == "param"
					R.Check(okSel, "R12.4", core.FuncName(g)+"#installs-selected", call.Pos(), core.FuncName(gg), "installs getClassicBPFFilter(spec)", "installs "+a+" instead of the program selected for spec")
				}
			}
		}
	}
	R.Check(found, "R12.4", core.FuncName(g)+"#attach", g.Pos(), core.FuncName(g), "calls SetBPFAndDrain", "no longer attaches through SetBPFAndDrain")
}

// frames of a reply form, for containment.
func formFrames(form string, cfg filterCfg, flagSets [][4]bool) [][]byte {
	var out [][]byte
	mk := func(et uint16, proto byte, ihl byte, flags byte, b54 byte) []byte {
		f := make([]byte, frameMax)
		for i := range f {
			f[i] = 0xa5
		}
		f[12], f[13] = byte(et>>8), byte(et)
		f[14] = 0x40 | ihl
		f[20], f[21] = 0x40, 0
		f[23] = proto
		if et == 0x86dd {
			f[20] = proto
			f[54] = b54
			return f
		}
		copy(f[26:30], cfg.src[:])
		copy(f[30:34], cfg.dst[:])
		x := 4 * int(ihl)
		f[14+x], f[15+x] = byte(cfg.sport>>8), byte(cfg.sport)
		f[16+x], f[17+x] = byte(cfg.dport>>8), byte(cfg.dport)
		f[14+x+13] = flags
		return f
	}
	switch form {
	case "icmp4":
		for ihl := byte(5); ihl <= 15; ihl++ {
			out = append(out, mk(0x0800, 1, ihl, 0, 0))
		}
	case "icmp6":
		out = append(out, mk(0x86dd, 58, 0, 0, 0), mk(0x86dd, 44, 0, 0, 58))
	case "tcp":
		for ihl := byte(5); ihl <= 15; ihl++ {
			for other := 0; other < 16; other++ { // URG PSH ECE CWR free
				for _, fs := range flagSets {
					var fl byte
					if fs[0] {
						fl |= 0x02
					}
					if fs[1] {
						fl |= 0x10
					}
					if fs[2] {
						fl |= 0x04
					}
					if fs[3] {
						fl |= 0x01
					}
					if other&1 != 0 {
						fl |= 0x20
					}
					if other&2 != 0 {
						fl |= 0x08
					}
					if other&4 != 0 {
						fl |= 0x40
					}
					if other&8 != 0 {
						fl |= 0x80
					}
					out = append(out, mk(0x0800, 6, ihl, fl, 0))
				}
			}
		}
	}
	return out
}

// checkFilterSites is R12.4: at every SetPacketFilter call site the installed program contains the matcher's forms.
func checkFilterSites(c *Ctx, tables map[string][]cbpf.Ins, tupleProgs [][]cbpf.Ins) {
	R := c.R
	type siteReq struct {
		fn     string
		driver string
	}
	drivers := map[string]Driver{}
	for _, d := range Drivers(c.P) {
		drivers[d.Name] = d
	}
	entries := []siteReq{{"icmp.runICMPTraceroute", "icmp.icmpDriver"}, {"(*udp.UDPv4).Traceroute", "udp.udpDriver"}, {"(*tcp.TCPv4).Traceroute", "tcp.tcpDriver"}, {"sack.runSackTraceroute", "sack.sackDriver"}}
	nsites := 0
	for _, e := range entries {
		f := c.P.Func(e.fn)
		d, okd := drivers[e.driver]
		if f == nil || !okd {
			R.Fail("R12.4", e.fn+"#anchor", 0, "", "entry point or driver anchor no longer resolves")
			continue
		}
		// reply forms of the matcher
		forms := map[string]bool{}
		var flagSets [][4]bool
		seenFS := map[[4]bool]bool{}
		for _, s := range AcceptSites(c.P, d) {
			for _, pi := range s.Paths {
				cls := classify(pi)
				switch cls.Form {
				case "icmp-quote", "echo-reply":
					if cls.Family == "v4" || cls.Family == "any" {
						forms["icmp4"] = true
					}
					if cls.Family == "v6" || cls.Family == "any" {
						forms["icmp6"] = true
					}
				case "tcp-direct":
					forms["tcp"] = true
					for _, a := range flagAssignments(pi.Atoms) {
						k := [4]bool{a["SYN"], a["ACK"], a["RST"], a["FIN"]}
						if !seenFS[k] {
							seenFS[k] = true
							flagSets = append(flagSets, k)
						}
					}
				}
			}
		}
		inForce := 0
		// the sites: in the entry point or in the helpers of its package it was split into (socket set-up, capture opening)
		var calls []*ssa.Call
		for _, g := range ModReach(c.P, f) {
			if core.FuncPkg(g) != core.FuncPkg(f) {
				continue
			}
			for _, b := range g.Blocks {
				for _, in := range b.Instrs {
					if call, ok := in.(*ssa.Call); ok && call.Common().IsInvoke() && call.Common().Method.Name() == "SetPacketFilter" {
						calls = append(calls, call)
					}
				}
			}
		}
		sort.Slice(calls, func(i, j int) bool { return calls[i].Pos() < calls[j].Pos() })
		for ci, call := range calls {
			nsites++
			key := fmt.Sprintf("%s#SetPacketFilter[%d]", e.fn, ci)
			var spec *core.Term
			for _, pa := range firstPath(call.Parent(), call.Block()) {
				env := core.NewEnv(c.P, pa)
				spec = env.Term(call.Common().Args[0])
			}
			// a site inside a helper: its parameters are replaced by what the entry point passes
			if spec != nil && call.Parent() != f {
				if chains := callChainsX(c.P, f, call.Parent()); len(chains) > 0 {
					spec = liftChainX(c.P, spec, chains[0])
				}
			}
			if spec == nil || spec.Op != "struct" {
				R.Fail("R12.4", key, call.Pos(), e.fn, "filter spec is not a literal: undecided")
				continue
			}
			ft, okc := constInt(kvOf(spec, "FilterType"))
			if !okc {
				R.Fail("R12.4", key, call.Pos(), e.fn, "FilterType is not a constant: undecided")
				continue
			}
			// the SYN-ACK filter serves the handshake; every other filter is the one in force while the engine runs
			isLast := ft != 4
			if ft != 4 {
				inForce++
			}
			var progs [][]cbpf.Ins
			pname := ""
			switch ft {
			case 1:
				progs, pname = [][]cbpf.Ins{tables["icmpFilter"]}, "icmpFilter"
			case 2:
				progs, pname = [][]cbpf.Ins{tables["udpFilter"]}, "udpFilter"
			case 3:
				progs, pname = tupleProgs, "tuple filter"
			case 4:
				progs, pname = [][]cbpf.Ins{tables["tcpSynackFilter"]}, "tcpSynackFilter"
			default:
				R.Fail("R12.4", key, call.Pos(), e.fn, fmt.Sprintf("filter type %d installs no program", ft))
				continue
			}
			if len(progs) == 0 || progs[0] == nil {
				R.Fail("R12.4", key, call.Pos(), e.fn, "installed program "+pname+" could not be extracted: undecided")
				continue
			}
			// what must pass through this filter: the matcher's forms for the filter in force during the engine run (the last one);
			// for an earlier SACK filter: the handshake's SYN-ACK
			need := forms
			fs := flagSets
			what := "every reply form of the matcher"
			if !isLast {
				need = map[string]bool{"tcp": true}
				fs = [][4]bool{{true, true, false, false}}
				what = "the handshake SYN-ACK"
			}
			missed := ""
			nfr := 0
			for form := range need {
				for pi, prog := range progs {
					cfg := cfgs[0]
					if ft == 3 {
						cfg = cfgs[pi]
					}
					for _, fr := range formFrames(form, cfg, fs) {
						nfr++
						if cbpf.Run(prog, fr) == 0 && missed == "" {
							x := 4 * int(fr[14]&0xf)
							missed = fmt.Sprintf("form %s (ethertype %#x proto %d ihl %d flags %#02x)", form, uint16(fr[12])<<8|uint16(fr[13]), fr[23], fr[14]&0xf, fr[14+x+13])
						}
					}
				}
			}
			R.Check(missed == "", "R12.4", key, call.Pos(), e.fn, fmt.Sprintf("%s accepts %s (%d representative frames over %v)", pname, what, nfr, keysOf(need)), fmt.Sprintf("%s hides a frame the matcher would turn into a hop: %s", pname, missed))
			// role binding of Src / Dst
			if ft == 3 || ft == 4 {
				cfgT := kvOf(spec, "FilterConfig")
				src := core.ProjField(cfgT, "Src")
				R.Check(isTargetTerm(src, e.driver), "R12.4", key+"/src", call.Pos(), e.fn, "Src = "+src.String()+" (the target endpoint)", "Src = "+src.String()+" is not the run's target endpoint")
				if ft == 3 {
					dst := core.ProjField(cfgT, "Dst")
					R.Check(isLocalTerm(c, f, dst, e.driver), "R12.4", key+"/dst", call.Pos(), e.fn, "Dst = "+dst.String()+" (the local endpoint the driver matches on)", "Dst = "+dst.String()+" is not the local endpoint the driver matches on")
				}
			}
		}
		R.Check(inForce >= 1, "R12.4", e.fn+"#filter-in-force", f.Pos(), e.fn, "a matcher filter (not only the handshake SYN-ACK filter) is installed for the engine run", "no filter for the matcher's reply forms is installed: the capture would only ever see handshake SYN-ACKs (or everything)")
	}
	R.Floor("R12.4:SetPacketFilter-sites", nsites, 4)
}

func keysOf(m map[string]bool) []string {
	var s []string
	for k := range m {
		s = append(s, k)
	}
	sort.Strings(s)
	return s
}

func isTargetTerm(t *core.Term, driver string) bool {
	s := t.String()
	switch driver {
	case "tcp.tcpDriver":
		return strings.Contains(s, "recv.Target") && strings.Contains(s, "recv.DestPort") && !strings.Contains(s, "srcIP") && !strings.Contains(s, "reserveLocalPort")
	case "sack.sackDriver":
		return s == "param:p.Target"
	}
	return false
}

func isLocalTerm(c *Ctx, f *ssa.Function, t *core.Term, driver string) bool {
	s := t.String()
	switch driver {
	case "tcp.tcpDriver":
		// AddrPortFrom(<local addr from LocalAddrForHost>, <port from reserveLocalPort>) and recv.srcPort = that port
		if !(t.Op == "call" && t.Name == "netip.AddrPortFrom" && strings.Contains(t.Args[0].String(), "LocalAddrForHost(") && strings.HasSuffix(t.Args[0].String(), "#0.IP))#0)") && t.Args[1].String() == "tcp.reserveLocalPort()#0") {
			return false
		}
		for _, b := range f.Blocks {
			for _, in := range b.Instrs {
				if st, ok := in.(*ssa.Store); ok {
					if fa, ok := st.Addr.(*ssa.FieldAddr); ok && fa.X == ssa.Value(f.Params[0]) {
						name := fa.X.Type().Underlying().(*types.Pointer).Elem().Underlying().(*types.Struct).Field(fa.Field).Name()
						if name == "srcPort" {
							if ex, ok := st.Val.(*ssa.Extract); ok {
								if call, ok := ex.Tuple.(*ssa.Call); ok && calleeIs(call, "tcp.reserveLocalPort") {
									return true
								}
							}
						}
					}
				}
			}
		}
		return false
	case "sack.sackDriver":
		// the dialled connection's local address, which is also what ReadHandshake receives as local port
		return strings.Contains(s, "LocalAddr(") && strings.Contains(s, "dialSackTCP") && strings.Contains(s, "AddrPort(")
	}
	return false
}

// checkAttachOrder is R12.5 / R08.3.
func checkAttachOrder(c *Ctx, rule string) {
	R := c.R
	if c.P.GOOS != "linux" {
		return // classic-BPF attach exists on linux only (attach_nolinux.go is a stub)
	}
	f := c.P.Func("packets.SetBPFAndDrain")
	if f == nil {
		R.Fail(rule, "packets.SetBPFAndDrain#anchor", 0, "", "anchor packets.SetBPFAndDrain no longer resolves")
		return
	}
	fn := core.FuncName(f)
	var sets []*ssa.Call
	var drain ssa.Instruction
	for _, b := range f.Blocks {
		for _, in := range b.Instrs {
			call, ok := in.(*ssa.Call)
			if !ok {
				continue
			}
			if calleeIs(call, "packets.SetBPF") {
				sets = append(sets, call)
			}
			if call.Common().IsInvoke() && call.Common().Method.Name() == "Control" {
				// the drain closure contains a Recvfrom
				if mc, ok := call.Common().Args[0].(*ssa.MakeClosure); ok && containsRecvfrom(c, mc.Fn.(*ssa.Function)) {
					drain = in
				}
			} else if h := call.Common().StaticCallee(); h != nil && core.InModule(h) && !calleeIs(call, "packets.SetBPF") && containsRecvfrom(c, h) {
				drain = in // the drain was moved into a helper
			}
		}
	}
	if len(sets) != 2 || drain == nil {
		R.Fail(rule, fn+"#sequence", f.Pos(), fn, fmt.Sprintf("expected two SetBPF calls around one draining Control call, found %d SetBPF and drain=%v", len(sets), drain != nil))
		return
	}
	sort.Slice(sets, func(i, j int) bool { return core.InstrDominates(sets[i], sets[j]) })
	a0, _ := sets[0].Common().Args[1].(*ssa.UnOp)
	firstIsDrop := false
	if a0 != nil {
		if g, ok := a0.X.(*ssa.Global); ok && g.Name() == "dropAllFilter" {
			firstIsDrop = true
		}
	}
	_, lastIsParam := sets[1].Common().Args[1].(*ssa.Parameter)
	order := core.InstrDominates(sets[0], drain) && core.InstrDominates(drain, sets[1])
	R.Check(firstIsDrop && lastIsParam && order, rule, fn+"#sequence", sets[0].Pos(), fn, "drop-all is attached, then the socket is drained, then the requested filter is attached",
		fmt.Sprintf("attach sequence broken: first program is drop-all=%v, last program is the requested filter=%v, drop→drain→filter order=%v; frames admitted under an earlier filter can survive", firstIsDrop, lastIsParam, order))
	// the drop-all error path returns before draining
}

// globalMapElems reads the constant-keyed elements of a package-level map literal whose values are package-level variables
// (from the package's init function): key constant → "@pkg.var".
func globalMapElems(c *Ctx, pkg, name string) map[string]string {
	out := map[string]string{}
	sp := c.P.SSAPkgs[pkg]
	if sp == nil {
		return out
	}
	init := sp.Func("init")
	if init == nil {
		return out
	}
	name = strings.TrimPrefix(name, pkg+".")
	for _, b := range init.Blocks {
		for _, in := range b.Instrs {
			mu, ok := in.(*ssa.MapUpdate)
			if !ok {
				continue
			}
			// the map value flows into the global
			isTarget := false
			if mk, ok := mu.Map.(*ssa.MakeMap); ok {
				for _, r := range *mk.Referrers() {
					if st, ok := r.(*ssa.Store); ok {
						if g, ok := st.Addr.(*ssa.Global); ok && g.Name() == name {
							isTarget = true
						}
					}
				}
			}
			if !isTarget {
				continue
			}
			k, ok := mu.Key.(*ssa.Const)
			if !ok || k.Value == nil {
				continue
			}
			val := ""
			if ld, ok := mu.Value.(*ssa.UnOp); ok {
				if g, ok := ld.X.(*ssa.Global); ok {
					val = "@" + pkg + "." + g.Name()
				}
			}
			out[k.Value.ExactString()] = val
		}
	}
	return out
}

func containsRecvfrom(c *Ctx, f *ssa.Function) bool {
	for _, g := range ModReach(c.P, f) {
		for _, b := range g.Blocks {
			for _, in := range b.Instrs {
				if c2, ok := in.(*ssa.Call); ok && c2.Common().StaticCallee() != nil && c2.Common().StaticCallee().Name() == "Recvfrom" {
					return true
				}
			}
		}
	}
	return false
}
