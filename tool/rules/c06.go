package rules

import (
	"fmt"
	"go/types"
	"sort"
	"strings"

	"golang.org/x/tools/go/ssa"

	"verif/tool/internal/core"
)

func init() {
	register("C06", "Decides the emission discipline structurally, for every TTL and identifier base: (R06.1) in every probe builder the TTL / hop-limit field of the IP layer literal originates from SendProbe's ttl parameter through conversions only (builder terms are lifted through the call chain into SendProbe's frame); (R06.2) every gopacket.SerializeLayers call of a builder gets options with FixLengths and ComputeChecksums both constant true, and every TCP/UDP/ICMPv6 layer has SetNetworkLayerForChecksum called with an IP layer and its error tested; (R06.3) source/destination addresses and ports originate from run-invariant receiver fields only, the very fields the matchers' role table names (cross-check of the frozen roles against the builder on every run), and the sink is given the target address; (R06.4) the per-probe identifier is an injective affine function of the widened ttl evaluated in at least 16 bits (Paris-mode rand.Uint32 is the documented probabilistic exception); (R06.5) each engine has exactly one SendProbe call, in a counted loop from int(MinTTL) to int(MaxTTL) stepping by one, paced (Sleep / timer on every path to the next iteration), the parallel sender re-tests its cancellable context before every send and the receiver cancels it on every accepted destination reply, the serial engine leaves the loop on a destination reply; (R06.6) the endpoints reported in the run originate from the same fields the builder puts on the wire. That gopacket emits correct lengths/checksums given those options is trusted; real pacing on a clock and 32-bit random collisions are not decided. (R06.7) The IP version and protocol / next-header constants of each probe literal agree with the layers serialised after it; identifiers computed by a module helper are decided through the helper's return paths (each injective in the ttl, path selection independent of the ttl). For the SYN driver R06.4 is decided on the inlined paths of SendProbe to the wire write: the IPv4 Id is injective in ttl over a run-invariant base, or the TCP Seq is drawn from math/rand on that very path (paris mode). R06.5 recognises, next to the cancellable context, a stop flag (atomic.Bool the receiver sets on a destination reply) and demands the stop test on every path to the send.", runC06)
	darwinRules["C06"] = runC06
}

// callChains returns the chains of static module call sites leading from root to fn (each chain: outermost first).
func callChains(p *core.Prog, root, fn *ssa.Function) [][]*ssa.Call {
	var out [][]*ssa.Call
	var cur []*ssa.Call
	seen := map[*ssa.Function]bool{}
	var dfs func(g *ssa.Function)
	dfs = func(g *ssa.Function) {
		if g == fn {
			out = append(out, append([]*ssa.Call(nil), cur...))
			return
		}
		if seen[g] || len(cur) > 5 {
			return
		}
		seen[g] = true
		for _, b := range g.Blocks {
			for _, in := range b.Instrs {
				call, ok := in.(*ssa.Call)
				if !ok {
					continue
				}
				cal := call.Common().StaticCallee()
				if cal == nil || !core.InModule(cal) {
					continue
				}
				cur = append(cur, call)
				dfs(cal)
				cur = cur[:len(cur)-1]
			}
		}
		seen[g] = false
	}
	dfs(root)
	return out
}

// liftThrough rewrites a term of callee vocabulary into the caller's at one call site (first feasible caller path).
func liftThrough(p *core.Prog, t *core.Term, site *ssa.Call) *core.Term {
	caller := site.Parent()
	paths, _ := core.EnumPaths(caller, site.Block(), 200)
	var env *core.Env
	for _, pa := range paths {
		e := core.NewEnv(p, pa)
		if core.Feasible(e.Atoms()) {
			env = e
			break
		}
	}
	if env == nil {
		return t
	}
	return liftWithEnv(env, t, site)
}

// liftWithEnv rewrites a callee term into the caller's vocabulary using the caller's evaluator for one of its paths.
func liftWithEnv(env *core.Env, t *core.Term, site *ssa.Call) *core.Term {
	return liftWithEnvTo(env, t, site, site.Common().StaticCallee())
}

// liftWithEnvTo is liftWithEnv for a call whose callee is not static (a function value that the call graph resolves).
func liftWithEnvTo(env *core.Env, t *core.Term, site *ssa.Call, callee *ssa.Function) *core.Term {
	if callee == nil {
		return t
	}
	args := site.Common().Args
	repl := map[string]*core.Term{}
	for i, prm := range callee.Params {
		if i >= len(args) {
			break
		}
		var val *core.Term
		if al, ok := args[i].(*ssa.Alloc); ok {
			val = env.LoadValue(al, site) // pointer to a caller-local literal: pass its contents
		} else {
			val = env.Term(args[i])
		}
		name := "param:" + prm.Name()
		if callee.Signature.Recv() != nil && i == 0 {
			name = "recv"
		}
		repl[name] = val
	}
	return t.Subst(func(x *core.Term) *core.Term {
		switch x.Op {
		case "recv":
			return repl["recv"]
		case "param":
			return repl["param:"+x.Name]
		}
		return nil
	})
}

// link is one step of a call chain: the call and the callee it is followed into (static, or resolved by the call graph when the
// call goes through a function value such as `build := v6; if is4 { build = v4 }; build(...)`).
type link struct {
	site   *ssa.Call
	callee *ssa.Function
}

func callChainsX(p *core.Prog, root, fn *ssa.Function) [][]link {
	var out [][]link
	var cur []link
	seen := map[*ssa.Function]bool{}
	cg := p.CallGraph()
	var dfs func(g *ssa.Function)
	dfs = func(g *ssa.Function) {
		if g == fn {
			out = append(out, append([]link(nil), cur...))
			return
		}
		if seen[g] || len(cur) > 5 {
			return
		}
		seen[g] = true
		for _, b := range g.Blocks {
			for _, in := range b.Instrs {
				call, ok := in.(*ssa.Call)
				if !ok || call.Common().IsInvoke() {
					continue
				}
				var cals []*ssa.Function
				if sc := call.Common().StaticCallee(); sc != nil {
					cals = []*ssa.Function{sc}
				} else if n := cg.Nodes[g]; n != nil {
					for _, oe := range n.Out {
						if oe.Site == ssa.CallInstruction(call) && oe.Callee.Func != nil {
							cals = append(cals, oe.Callee.Func)
						}
					}
				}
				for _, cal := range cals {
					if !core.InModule(cal) {
						continue
					}
					cur = append(cur, link{call, cal})
					dfs(cal)
					cur = cur[:len(cur)-1]
				}
			}
		}
		seen[g] = false
	}
	dfs(root)
	return out
}

func liftChainX(p *core.Prog, t *core.Term, chain []link) *core.Term {
	for i := len(chain) - 1; i >= 0; i-- {
		site := chain[i].site
		caller := site.Parent()
		paths, _ := core.EnumPaths(caller, site.Block(), 200)
		for _, pa := range paths {
			e := core.NewEnv(p, pa)
			if core.Feasible(e.Atoms()) {
				t = liftWithEnvTo(e, t, site, chain[i].callee)
				break
			}
		}
	}
	return t
}

func liftChain(p *core.Prog, t *core.Term, chain []*ssa.Call) *core.Term {
	for i := len(chain) - 1; i >= 0; i-- {
		t = liftThrough(p, t, chain[i])
	}
	return t
}

type layerLit struct {
	fn     *ssa.Function
	alloc  *ssa.Alloc
	kind   string // IPv4 IPv6 TCP UDP ICMPv4 ICMPv6
	fields map[string]*core.Term
	lifted map[string][]*core.Term // per chain
}

func layerKind(t types.Type) string {
	if p, ok := t.(*types.Pointer); ok {
		t = p.Elem()
	}
	n, ok := t.(*types.Named)
	if !ok || n.Obj().Pkg() == nil || n.Obj().Pkg().Path() != "github.com/google/gopacket/layers" {
		return ""
	}
	switch n.Obj().Name() {
	case "IPv4", "IPv6", "TCP", "UDP", "ICMPv4", "ICMPv6":
		return n.Obj().Name()
	}
	return ""
}

func isWideningOfTTL(t *core.Term) bool {
	for t.Op == "conv" {
		if t.Narrowing() {
			return false
		}
		t = t.Args[0]
	}
	return t.Op == "param" && t.Name == "ttl"
}

// stripConvAll removes every conversion at the top.
func stripConvAll(t *core.Term) *core.Term {
	for t.Op == "conv" {
		t = t.Args[0]
	}
	return t
}

func mentionsTTL(t *core.Term) bool {
	return t.Has(func(x *core.Term) bool { return x.Op == "param" && x.Name == "ttl" })
}

// injective: e ::= widen(ttl) | K + e | e + K | K - e | K ^ e, K ttl-free, in >= 16 bits.
func injective(t *core.Term) (bool, string) {
	bits, _ := core.IntBits(t.Typ)
	if t.Op == "conv" {
		if t.Narrowing() {
			return false, "narrowed: " + t.String()
		}
		in := t.Args[0]
		if in.Op == "param" && in.Name == "ttl" {
			if bits >= 16 {
				return true, ""
			}
			return false, "identifier lives in fewer than 16 bits"
		}
		return injective(in)
	}
	if t.Op == "param" && t.Name == "ttl" {
		return true, ""
	}
	if t.Op == "binop" {
		l, r := t.Args[0], t.Args[1]
		if bits != 0 && bits < 16 {
			return false, "arithmetic in " + fmt.Sprint(bits) + " bits"
		}
		switch t.Name {
		case "+", "^":
			if !mentionsTTL(l) {
				return injective(r)
			}
			if !mentionsTTL(r) {
				return injective(l)
			}
		case "-":
			if !mentionsTTL(l) {
				return injective(r)
			}
			if !mentionsTTL(r) {
				return injective(l)
			}
		}
		return false, "operator " + t.Name + " on the ttl is not injective: " + t.String()
	}
	// a field of / a result of a module helper's (possibly struct-valued, possibly dynamically selected) result
	if c06prog != nil && (t.Op == "field" || t.Op == "extract") {
		if alts := projectCallResult(c06prog, t); len(alts) > 0 {
			for _, a := range alts {
				if a.why != "" {
					return false, a.why
				}
				if ok, why := injective(a.t); !ok {
					return false, why
				}
			}
			return true, ""
		}
	}
	// a module helper: every return path must be injective in the ttl it is given, and which path is taken must not depend on the ttl
	if t.Op == "call" && c06prog != nil {
		if g := c06prog.Func(t.Name); g != nil && len(g.Blocks) > 0 && len(g.Params) == len(t.Args) {
			if rps, ok := core.ReturnPaths(c06prog, g, 200); ok && len(rps) > 0 {
				sub := func(x *core.Term) *core.Term {
					if x.Op == "param" {
						for i, p := range g.Params {
							if p.Name() == x.Name {
								return t.Args[i]
							}
						}
					}
					return nil
				}
				for _, rp := range rps {
					if !core.Feasible(rp.Atoms) || len(rp.Results) != 1 {
						continue
					}
					for _, a := range rp.Atoms {
						if mentionsTTL(a.Cond.Subst(sub)) {
							return false, "helper " + t.Name + " selects its result by a test on the ttl (" + a.String() + "): two ttls can be mapped to one identifier"
						}
					}
					if ok, why := injective(rp.Results[0].Subst(sub)); !ok {
						return false, why
					}
				}
				return true, ""
			}
		}
	}
	return false, "not an affine function of ttl: " + t.String()
}

var c06prog *core.Prog

func runC06(c *Ctx) {
	R := c.R
	c06prog = c.P
	core.InlineLockedAccessors = true
	defer func() { core.InlineLockedAccessors = false }()
	nbuilders := 0
	for _, d := range Drivers(c.P) {
		roles := roleTable[d.Name]
		root := d.SendProbe
		tree := ModReach(c.P, root)
		var lits []*layerLit
		for _, f := range tree {
			rps, _ := core.ReturnPaths(c.P, f, 3000)
			for _, b := range f.Blocks {
				for _, in := range b.Instrs {
					al, ok := in.(*ssa.Alloc)
					if !ok {
						continue
					}
					k := layerKind(al.Type())
					if k == "" || al.Comment != "complit" {
						continue
					}
					// evaluate the literal's fields at a successful return that lies behind the literal
					for _, rp := range rps {
						if !rp.Path.On(b) || rp.Ret.Block().Comment == "recover" {
							continue
						}
						if len(rp.Results) > 0 && !rp.Results[len(rp.Results)-1].IsConst("nil") && isErrorType(f.Signature.Results().At(f.Signature.Results().Len()-1).Type()) {
							continue
						}
						ll := &layerLit{fn: f, alloc: al, kind: k, fields: map[string]*core.Term{}, lifted: map[string][]*core.Term{}}
						st := al.Type().Underlying().(*types.Pointer).Elem().Underlying().(*types.Struct)
						for i := 0; i < st.NumFields(); i++ {
							fv := rp.Env.LoadField(al, st.Field(i).Name(), rp.Ret, st.Field(i).Type())
							if fv.Op != "zero" {
								ll.fields[st.Field(i).Name()] = fv
							}
						}
						chains := callChainsX(c.P, root, f)
						if f == root {
							chains = [][]link{nil}
						}
						for name, fv := range ll.fields {
							for _, ch := range chains {
								ll.lifted[name] = append(ll.lifted[name], liftChainX(c.P, fv, ch))
							}
						}
						lits = append(lits, ll)
						break
					}
				}
			}
		}
		ipn := 0
		for _, ll := range lits {
			fn := core.FuncName(ll.fn)
			key := fmt.Sprintf("%s#%s-literal", fn, ll.kind)
			pos := ll.alloc.Pos()
			switch ll.kind {
			case "IPv4", "IPv6":
				ipn++
				nbuilders++
				tf := "TTL"
				if ll.kind == "IPv6" {
					tf = "HopLimit"
				}
				// R06.1
				okTTL := len(ll.lifted[tf]) > 0
				desc := ""
				for _, lt := range ll.lifted[tf] {
					s := stripConvAll(lt)
					desc = lt.String()
					if !(s.Op == "param" && s.Name == "ttl") {
						okTTL = false
					}
				}
				R.Check(okTTL, "R06.1", key+"/ttl", pos, fn, tf+" = "+desc+" (SendProbe's ttl through conversions only)", tf+" of the probe is "+desc+": it must be SendProbe's ttl, through conversions only")
				// R06.7 version and protocol number agree with the layers that follow
				wantVer := map[string]string{"IPv4": "4", "IPv6": "6"}[ll.kind]
				ver := ll.fields["Version"]
				R.Check(ver != nil && ver.IsConst(wantVer), "R06.7", key+"/version", pos, fn, "IP version field = "+wantVer, fmt.Sprintf("IP version field of an %s probe is %v", ll.kind, ver))
				protoField := map[string]string{"IPv4": "Protocol", "IPv6": "NextHeader"}[ll.kind]
				wantProto := map[string]string{"TCP": "6", "UDP": "17", "ICMPv4": "1", "ICMPv6": "58"}
				var transports []string
				for _, other := range lits {
					if other.fn == ll.fn && wantProto[other.kind] != "" {
						if (ll.kind == "IPv4" && other.kind == "ICMPv6") || (ll.kind == "IPv6" && other.kind == "ICMPv4") {
							continue
						}
						transports = append(transports, other.kind)
					}
				}
				if pv := ll.fields[protoField]; pv != nil && len(transports) > 0 {
					okp := false
					for _, tk := range transports {
						if pv.StripConv().IsConst(wantProto[tk]) {
							okp = true
						}
					}
					R.Check(okp, "R06.7", key+"/protocol", pos, fn, protoField+" = "+pv.String()+" matches the transport layer ("+strings.Join(transports, ",")+")", protoField+" of the probe is "+pv.String()+" but the packet carries a "+strings.Join(transports, "/")+" layer: the probe is not well formed")
				} else if len(transports) > 0 {
					R.Fail("R06.7", key+"/protocol", pos, fn, protoField+" is not set on the IP layer")
				}
				// R06.3 addresses
				for fld, role := range map[string]string{"DstIP": roles.TargetAddr, "SrcIP": roles.LocalAddr} {
					for _, lt := range ll.lifted[fld] {
						ok := hasLeaf(lt, role) && !mentionsTTL(lt)
						R.Check(ok, "R06.3", key+"/"+fld, pos, fn, fld+" originates from "+role, fld+" of the probe is "+lt.String()+", expected the run-invariant "+role+" (the field the matcher compares replies with)")
					}
					if len(ll.lifted[fld]) == 0 {
						R.Fail("R06.3", key+"/"+fld, pos, fn, fld+" is not set in the IP layer literal")
					}
				}
			case "TCP", "UDP":
				for fld, role := range map[string]string{"DstPort": roles.TargetPort, "SrcPort": roles.LocalPort} {
					for _, lt := range ll.lifted[fld] {
						ok := hasLeaf(lt, role) && !mentionsTTL(lt)
						R.Check(ok, "R06.3", key+"/"+fld, pos, fn, fld+" originates from "+role, fld+" of the probe is "+lt.String()+", expected the run-invariant "+role)
					}
					if len(ll.lifted[fld]) == 0 {
						R.Fail("R06.3", key+"/"+fld, pos, fn, fld+" is not set in the transport layer literal")
					}
				}
			}
			// R06.4 identifier fields
			idField := map[string]string{"icmp:ICMPv4": "Seq", "udp:IPv4": "Id", "syn:IPv4": "Id", "sack:TCP": "Seq"}[roles.Variant+":"+ll.kind]
			if idField != "" {
				for _, lt := range ll.lifted[idField] {
					// TCP SYN: resolve through getNextPacketIDAndSeqNum's default-mode return
					t := lt
					if roles.Variant == "syn" {
						// decided per path of SendProbe (the pair (IP-ID, sequence number) identifies a probe): checkSynProbeIDs
						continue
					}
					ok, why := injective(t)
					R.Check(ok, "R06.4", key+"/id", pos, fn, "per-probe identifier "+t.String()+" is injective in ttl", "per-probe identifier "+t.String()+" is not an injective function of ttl ("+why+"): two probes of one run can share an identifier")
				}
				if len(ll.lifted[idField]) == 0 {
					R.Fail("R06.4", key+"/id", pos, fn, "identifier field "+idField+" is not set")
				}
			}
			if roles.Variant == "icmp" && (ll.kind == "ICMPv4" || ll.kind == "IPv4") {
				if v, ok := ll.lifted["Id"]; ok {
					for _, lt := range v {
						R.Check(hasLeaf(lt, roles.RunID), "R06.3", key+"/echo-id", pos, fn, "echo / IP id = "+roles.RunID, "echo identifier is "+lt.String()+", expected "+roles.RunID)
					}
				}
			}
		}
		R.Floor("R06.1:ip-literals:"+d.Name, ipn, 1)
		if roles.Variant == "syn" {
			checkSynProbeIDs(c, d, "R06.4")
		}
		checkSerialize(c, d, tree)
		checkV6Identifiers(c, d)
		checkSinkTarget(c, d, roles)
	}
	R.Floor("R06.1:builders", nbuilders, 6)
	checkEngineSend(c)
	checkReportedEndpoints(c)
}

// checkSynProbeIDs decides, on every inlined path of the SYN driver's SendProbe that reaches the wire write (helpers of the
// driver's package opened, whatever shape the identifier allocation has – a method returning the pair, a value type, a probe
// record filled step by step), what goes into the IP-ID of the IPv4 literal and the sequence number of the TCP literal:
// the pair must tell the probes of one run apart – the IP-ID is an injective function of ttl over a run-invariant base (default
// mode), or the sequence number is drawn from math/rand on that very path, once per probe (paris mode; the documented
// probabilistic exception). With rule R11.2 the default-mode shape base + uint16(ttl) is demanded (the block AllocPacketID reserves).
func checkSynProbeIDs(c *Ctx, d Driver, rule string) {
	R := c.R
	f := d.SendProbe
	fn := core.FuncName(f)
	isLayer := func(v ssa.Value, name string) bool {
		return isNamed(v.Type(), "github.com/google/gopacket/layers", name)
	}
	n := 0
	modes := map[string]bool{}
	for _, ip := range InlinedPaths(c.P, f, inlineOpts{pkg: core.FuncPkg(f), stop: hasLoop, maxDepth: 4}) {
		var idT, seqT *core.Term
		wrote := false
		for _, ev := range ip.Events {
			if ev.Kind == "call" {
				if call, ok := ev.Instr.(*ssa.Call); ok && isSinkWrite(call.Common()) {
					wrote = true
				}
			}
			st, ok := ev.Instr.(*ssa.Store)
			if ev.Kind != "store" || !ok {
				continue
			}
			fa, ok := st.Addr.(*ssa.FieldAddr)
			if !ok {
				continue
			}
			switch {
			case ev.Field == "Id" && isLayer(fa.X, "IPv4"):
				idT = ev.Val
			case ev.Field == "Seq" && isLayer(fa.X, "TCP"):
				seqT = ev.Val
			}
		}
		if !wrote {
			continue
		}
		n++
		if idT == nil || seqT == nil {
			R.FailPath(rule, fn+"#probe-ids", f.Pos(), fn, "a path of SendProbe reaches the wire write without an IPv4 Id / TCP Seq assignment in view: undecided", ip.Desc)
			continue
		}
		// fresh per-probe randomness: the sequence number is a math/rand call evaluated on this path
		fresh := false
		if sq := seqT.StripConv(); sq.Op == "call" && strings.HasPrefix(sq.Name, "rand.") {
			for _, ev := range ip.Events {
				if v, ok := ev.Instr.(ssa.Value); ok && sq.Val != nil && v == sq.Val {
					fresh = true
				}
			}
		}
		inj, why := injective(idT)
		mode := "default"
		if fresh && !inj {
			mode = "paris"
		}
		modes[mode] = true
		key := fmt.Sprintf("%s#probe-ids[%s]", fn, mode)
		switch {
		case rule == "R11.2":
			if mode == "paris" {
				continue
			}
			okShape := false
			x := idT
			if x.Op == "binop" && x.Name == "+" {
				for k := 0; k < 2; k++ {
					b, t := x.Args[k], x.Args[1-k]
					if t.String() == "conv[uint16](param:ttl)" && ownOnly(b) && !mentionsTTL(b) && hasRecvLeaf(b) {
						okShape = true
					}
				}
			}
			if okShape {
				R.OK(rule, key, f.Pos(), fn, "default-mode IP-ID = <run's base> + uint16(ttl)")
			} else {
				R.FailPath(rule, key, f.Pos(), fn, "default-mode IP-ID is "+idT.String()+", not the run's reserved base plus uint16(ttl): identifiers leave the block AllocPacketID reserved for this run", ip.Desc)
			}
		case inj:
			R.OK(rule, key, f.Pos(), fn, "IP-ID "+idT.String()+" is injective in ttl")
		case fresh:
			R.OK(rule, key, f.Pos(), fn, "IP-ID is constant and the sequence number is drawn from math/rand once per probe")
		default:
			R.FailPath(rule, key, f.Pos(), fn, "neither is the IP-ID ("+idT.String()+") an injective function of ttl ("+why+") nor is the sequence number ("+seqT.String()+") drawn afresh for this probe: two probes of one run carry the same (IP-ID, sequence number) pair and their replies cannot be told apart", ip.Desc)
		}
	}
	R.Floor(rule+":syn-send-paths", n, 1)
	if rule == "R06.4" {
		R.Floor(rule+":syn-id-modes", len(modes), 2)
	}
}

func hasRecvLeaf(t *core.Term) bool {
	for _, l := range t.Leaves() {
		if strings.HasPrefix(l, "recv.") {
			return true
		}
	}
	return false
}

// synDefaultID maps `getNextPacketIDAndSeqNum(recv, ttl)#0` to that function's default-mode result.
func synDefaultID(c *Ctx, d Driver, lt *core.Term) *core.Term {
	g := synIDFunc(c, d)
	if g == nil || lt.Op != "extract" || lt.Name != "0" || lt.Args[0].Op != "call" {
		return nil
	}
	if site, ok := lt.Args[0].Val.(*ssa.Call); !ok || site.Common().StaticCallee() != g {
		return nil
	}
	rps, _ := core.ReturnPaths(c.P, g, 100)
	var out *core.Term
	for _, rp := range rps {
		f1, s1 := atomTrue(rp.Atoms, func(t *core.Term) bool { return strings.HasSuffix(t.String(), ".ParisTracerouteMode") })
		if f1 && !s1 {
			if out != nil && out.String() != rp.Results[0].String() {
				// the identifier depends on a further data-dependent branch: not one injective expression
				return &core.Term{Op: "unknown", Name: "identifier differs between default-mode paths: " + out.String() + " vs " + rp.Results[0].String()}
			}
			out = rp.Results[0]
		}
	}
	return out
}

// checkSerialize is R06.2.
func checkSerialize(c *Ctx, d Driver, tree []*ssa.Function) {
	R := c.R
	nser := 0
	for _, f := range tree {
		fn := core.FuncName(f)
		for _, b := range f.Blocks {
			for _, in := range b.Instrs {
				call, ok := in.(*ssa.Call)
				if !ok || call.Common().StaticCallee() == nil {
					continue
				}
				cal := call.Common().StaticCallee()
				if cal.Name() == "SerializeLayers" && core.FuncPkg(cal) != nil && core.FuncPkg(cal).Path() == "github.com/google/gopacket" {
					nser++
					for _, pa := range firstPath(f, b) {
						env := core.NewEnv(c.P, pa)
						o := env.Term(call.Common().Args[1])
						fl, cs := core.ProjField(o, "FixLengths"), core.ProjField(o, "ComputeChecksums")
						R.Check(fl.IsConst("true") && cs.IsConst("true"), "R06.2", fmt.Sprintf("%s#serialize@b%d", fn, b.Index), call.Pos(), fn, "FixLengths and ComputeChecksums are constant true", "serialisation options are FixLengths="+fl.String()+" ComputeChecksums="+cs.String()+": lengths or checksums of the probe would be wrong")
					}
				}
			}
		}
		// transport layers that need the pseudo-header
		for _, b := range f.Blocks {
			for _, in := range b.Instrs {
				al, ok := in.(*ssa.Alloc)
				if !ok || al.Comment != "complit" {
					continue
				}
				k := layerKind(al.Type())
				if k != "TCP" && k != "UDP" && k != "ICMPv6" {
					continue
				}
				okc, tested := false, false
				var refs []ssa.Instruction
				for _, r := range *al.Referrers() {
					refs = append(refs, r)
					if fa, ok := r.(*ssa.FieldAddr); ok { // promoted method of an embedded struct
						refs = append(refs, *fa.Referrers()...)
					}
				}
				// the literal may be returned and bound by the caller
				for _, rb := range f.Blocks {
					ret, ok := rb.Instrs[len(rb.Instrs)-1].(*ssa.Return)
					if !ok {
						continue
					}
					for ri, rv := range ret.Results {
						if rv != ssa.Value(al) {
							continue
						}
						if n := c.P.CallGraph().Nodes[f]; n != nil {
							for _, e := range n.In {
								if e.Site == nil || !core.InModule(e.Caller.Func) {
									continue
								}
								if sv := e.Site.Value(); sv != nil {
									for _, r := range *sv.Referrers() {
										if ex, ok := r.(*ssa.Extract); ok && ex.Index == ri {
											refs = append(refs, *ex.Referrers()...)
										}
									}
								}
							}
						}
					}
				}
				for i := 0; i < len(refs); i++ {
					if fa, ok := refs[i].(*ssa.FieldAddr); ok && fa.X != ssa.Value(al) {
						refs = append(refs, *fa.Referrers()...)
					}
				}
				for _, r := range refs {
					cl, ok := r.(*ssa.Call)
					if !ok || cl.Common().StaticCallee() == nil || cl.Common().StaticCallee().Name() != "SetNetworkLayerForChecksum" {
						continue
					}
					if root, _ := addrRootFields(cl.Common().Args[0]); len(cl.Common().Args) == 2 && (root == ssa.Value(al) || isExtractOfCallTo(root, f)) {
						arg := cl.Common().Args[1]
						if mi, ok := arg.(*ssa.MakeInterface); ok {
							if strings.HasPrefix(layerKind(mi.X.Type()), "IPv") {
								okc = true
							}
						}
						for _, r2 := range *cl.Referrers() {
							if bo, ok := r2.(*ssa.BinOp); ok {
								for _, r3 := range *bo.Referrers() {
									if _, ok := r3.(*ssa.If); ok {
										tested = true
									}
								}
							}
						}
					}
				}
				// the binding may sit in a helper that receives the transport layer as a parameter: resolve every
				// SetNetworkLayerForChecksum call of the tree back to the literal it is applied to
				for _, g := range tree {
					for _, gb := range g.Blocks {
						for _, gin := range gb.Instrs {
							cl, ok := gin.(*ssa.Call)
							if !ok || cl.Common().StaticCallee() == nil || cl.Common().StaticCallee().Name() != "SetNetworkLayerForChecksum" || len(cl.Common().Args) != 2 {
								continue
							}
							// the method is promoted from an embedded struct: the receiver is &layer.tcpipchecksum
							rootv, _ := addrRootFields(cl.Common().Args[0])
							if rootv == nil || c.P.DefX(rootv) != ssa.Value(al) {
								continue
							}
							if mi, ok := cl.Common().Args[1].(*ssa.MakeInterface); ok && strings.HasPrefix(layerKind(mi.X.Type()), "IPv") {
								okc = true
							}
							for _, r2 := range *cl.Referrers() {
								if bo, ok := r2.(*ssa.BinOp); ok {
									for _, r3 := range *bo.Referrers() {
										if _, ok := r3.(*ssa.If); ok {
											tested = true
										}
									}
								}
							}
						}
					}
				}
				R.Check(okc && tested, "R06.2", fmt.Sprintf("%s#checksum-layer[%s]", fn, k), al.Pos(), fn, k+" layer is bound to its IP layer for the pseudo-header checksum and the error is tested", fmt.Sprintf("%s layer: SetNetworkLayerForChecksum with an IP layer=%v, error tested=%v: the transport checksum would be wrong", k, okc, tested))
			}
		}
	}
	R.Floor("R06.2:serialize-calls:"+d.Name, nser, 1)
}

// checkV6Identifiers: the ICMPv6 echo payload and the UDPv6 length carry the ttl injectively.
func checkV6Identifiers(c *Ctx, d Driver) {
	R := c.R
	switch roleTable[d.Name].Variant {
	case "icmp":
		f := c.P.Func("(*icmp.icmpPacketGen).generatePacketV6")
		if f == nil {
			R.Fail("R06.4", "icmp.generatePacketV6#anchor", 0, "", "anchor (*icmp.icmpPacketGen).generatePacketV6 no longer resolves")
			return
		}
		okID, okSeq := false, false
		for _, b := range f.Blocks {
			for _, in := range b.Instrs {
				call, ok := in.(*ssa.Call)
				if !ok || call.Common().StaticCallee() == nil || !strings.HasSuffix(call.Common().StaticCallee().String(), "bigEndian).PutUint16") {
					continue
				}
				for _, pa := range firstPath(f, b) {
					env := core.NewEnv(c.P, pa)
					dst := env.Term(call.Common().Args[1])
					val := env.Term(call.Common().Args[2])
					if sliceBounds(dst, "0", "2") && val.String() == "param:echoID" {
						okID = true
					}
					if sliceBounds(dst, "2", "4") && isWideningOfTTL(val) {
						okSeq = true
					}
				}
			}
		}
		R.Check(okID && okSeq, "R06.4", core.FuncName(f)+"#echo-payload", f.Pos(), core.FuncName(f), "ICMPv6 echo payload = big-endian echo id, then uint16(ttl)", fmt.Sprintf("ICMPv6 echo payload is not (echo id at [0:2]=%v, widened ttl at [2:4]=%v): replies cannot be attributed", okID, okSeq))
	case "udp":
		f := c.P.Func("(*udp.UDPv4).createRawUDPBuffer")
		if f == nil {
			R.Fail("R06.4", "udp.createRawUDPBuffer#anchor", 0, "", "anchor (*udp.UDPv4).createRawUDPBuffer no longer resolves")
			return
		}
		rps, _ := core.ReturnPaths(c.P, f, 3000)
		nv6 := 0
		for _, rp := range rps {
			if !rp.Results[3].IsConst("nil") {
				continue
			}
			id := rp.Results[0]
			v4 := false
			for _, a := range rp.Atoms {
				nn := a.Norm()
				if strings.Contains(nn.Cond.String(), ".To4(") && !nn.Sign == false {
					v4 = nn.Sign != strings.Contains(nn.Cond.String(), "== nil")
				}
			}
			_ = v4
			if strings.Contains(id.String(), "41821") {
				continue // IPv4 branch: decided on the IPv4 literal
			}
			nv6++
			// id = (len(magic)+uint16(ttl)) + 8 ; payload = repeatMagic(len(magic)+uint16(ttl))
			ok, why := injective(id)
			R.Check(ok, "R06.4", core.FuncName(f)+"#udp6-length-id", rp.Ret.Pos(), core.FuncName(f), "UDPv6 per-probe identifier (payload length) "+id.String()+" is injective in ttl", "UDPv6 identifier "+id.String()+" is not injective in ttl ("+why+")")
		}
		R.Floor("R06.4:udp6-id-paths", nv6, 1)
	}
}

// checkSinkTarget: Sink.WriteTo is given the target address.
func checkSinkTarget(c *Ctx, d Driver, roles Roles) {
	R := c.R
	f := d.SendProbe
	n := 0
	for _, b := range f.Blocks {
		for _, in := range b.Instrs {
			call, ok := in.(*ssa.Call)
			if !ok || !isSinkWrite(call.Common()) {
				continue
			}
			n++
			for _, pa := range firstPath(f, b) {
				env := core.NewEnv(c.P, pa)
				a := env.Term(call.Common().Args[1])
				R.Check(hasLeaf(a, roles.TargetAddr) && !mentionsTTL(a), "R06.3", core.FuncName(f)+"#sink-address", call.Pos(), core.FuncName(f), "the sink is given "+a.String(), "the sink is given "+a.String()+", not the run's target "+roles.TargetAddr)
			}
		}
	}
	R.Floor("R06.3:sink-writes:"+d.Name, n, 1)
}

// atomicCellKey: the typed key ("pkg.Type.field") of the struct field an atomic operation's receiver term denotes.
func atomicCellKey(t *core.Term) string {
	if t == nil {
		return ""
	}
	if fa, ok := t.Val.(*ssa.FieldAddr); ok {
		return core.FieldName(fa)
	}
	// a term rebuilt while lifting a helper's condition into its caller carries no SSA value: the field name is what is left
	if t.Op == "field" {
		return t.Name
	}
	return ""
}

// checkEngineSend is R06.5.
func checkEngineSend(c *Ctx) {
	R := c.R
	es := Engines(c.P)
	R.Floor("R06.5:engines", len(es), 2)
	R.Check(len(es) == 2, "R06.5", "module#who-may-send", 0, "", "exactly the two engines call TracerouteDriver.SendProbe", fmt.Sprintf("%d functions call TracerouteDriver.SendProbe", len(es)))
	for _, e := range es {
		R.Check(len(e.SendSites) == 1, "R06.5", e.Name+"#one-send-site", e.Fn.Pos(), e.Name, "one SendProbe call site", fmt.Sprintf("%d SendProbe call sites: more than one probe per TTL can be emitted", len(e.SendSites)))
		for _, s := range e.SendSites {
			g := s.Parent()
			gn := core.FuncName(g)
			loop := innermostLoop(g, s.Block())
			if loop == nil {
				R.Fail("R06.5", e.Name+"#send-loop", s.Pos(), gn, "SendProbe is not inside a loop")
				continue
			}
			// induction: arg = conv(i), i = loopphi(int(MinTTL)) stepping +1, bounded by int(MaxTTL)
			call := s.(*ssa.Call)
			var phi *ssa.Phi
			if cv, ok := call.Common().Args[0].(*ssa.Convert); ok {
				phi, _ = cv.X.(*ssa.Phi)
			}
			stepOK := false
			if phi != nil {
				for _, ed := range phi.Edges {
					if bo, ok := ed.(*ssa.BinOp); ok && bo.Op.String() == "+" && bo.X == ssa.Value(phi) {
						if cst, ok := bo.Y.(*ssa.Const); ok && cst.Int64() == 1 {
							stepOK = true
						}
					}
				}
			}
			R.Check(stepOK, "R06.5", e.Name+"#step", s.Pos(), gn, "the probed TTL is the loop counter, incremented by one", "the probed TTL is not a loop counter stepping by one: TTLs would be skipped or repeated")
			// pacing: every path from the send to the loop header passes a pacing primitive
			pace := map[*ssa.BasicBlock]bool{}
			for b := range loop {
				for _, in := range b.Instrs {
					switch x := in.(type) {
					case *ssa.Call:
						if cal := x.Common().StaticCallee(); cal != nil && cal.String() == "time.Sleep" {
							if isSendDelayField(argString(c, g, x, 0)) {
								pace[b] = true
							}
						}
					case *ssa.UnOp:
						if x.Op.String() == "<-" {
							if cl, ok := c.P.Def(x.X).(*ssa.Call); ok && cl.Common().StaticCallee() != nil && cl.Common().StaticCallee().String() == "time.After" {
								if isSendDelayField(argString(c, g, cl, 0)) && core.InstrDominates(cl, s) {
									pace[b] = true
								}
							}
						}
					case *ssa.Select:
						// select { case <-timer.C: ...; case <-ctx.Done(): return }: the branch taken when a timer armed with the
						// SendDelay fired is paced; the other branches must leave the loop (they are not cut below)
						if !x.Blocking {
							continue
						}
						for k, st := range x.States {
							isDelay := false
							switch ch := c.P.Def(st.Chan).(type) {
							case *ssa.UnOp:
								if fa, ok := ch.X.(*ssa.FieldAddr); ok && core.FieldName(fa) == "C" {
									if cl, ok := c.P.Def(fa.X).(*ssa.Call); ok && cl.Common().StaticCallee() != nil && cl.Common().StaticCallee().String() == "time.NewTimer" && isSendDelayField(argString(c, g, cl, 0)) {
										isDelay = true
									}
								}
							case *ssa.Call:
								if cal := ch.Common().StaticCallee(); cal != nil && cal.String() == "time.After" && isSendDelayField(argString(c, g, ch, 0)) {
									isDelay = true
								}
							}
							if !isDelay {
								continue
							}
							for _, r := range *x.Referrers() {
								ex, ok := r.(*ssa.Extract)
								if !ok || ex.Index != 0 {
									continue
								}
								for _, r2 := range *ex.Referrers() {
									bo, ok := r2.(*ssa.BinOp)
									if !ok || bo.Op.String() != "==" {
										continue
									}
									if cst, ok := bo.Y.(*ssa.Const); !ok || cst.Value == nil || cst.Int64() != int64(k) {
										continue
									}
									for _, r3 := range *bo.Referrers() {
										// the branch of the fired timer only: a block that the other cases reach as well (all cases empty,
										// falling through to the same continuation) is not proof that the delay elapsed
										if iff, ok := r3.(*ssa.If); ok && len(iff.Block().Succs[0].Preds) == 1 {
											pace[iff.Block().Succs[0]] = true
										}
									}
								}
							}
						}
					}
				}
			}
			var header *ssa.BasicBlock
			for b := range loop {
				for _, p := range b.Preds {
					if loop[p] && b.Dominates(p) && b.Dominates(s.Block()) {
						header = b
					}
				}
			}
			unpaced := false
			if header != nil {
				// success edge of the send: err == nil
				start := s.Block()
				if iff, ok := start.Instrs[len(start.Instrs)-1].(*ssa.If); ok {
					if cc, tIdx := condCall(iff); cc == call {
						nb := start.Succs[1-tIdx]
						cut := map[*ssa.BasicBlock]bool{}
						for b := range pace {
							cut[b] = true
						}
						// leaving the loop (destination seen / break) is fine; reaching the header unpaced is not
						if !pace[nb] && reachWithin(nb, header, cut, loop) {
							unpaced = true
						}
					}
				}
			}
			R.Check(len(pace) > 0 && !unpaced, "R06.5", e.Name+"#pacing", s.Pos(), gn, "every path from a send to the next iteration waits the full SendDelay (fixed delay, not fixed rate)", "a path from SendProbe to the next iteration does not wait for exactly SendDelay (a Sleep / timer whose duration is the SendDelay parameter itself): after a slow send probes would be emitted back to back")
		}
		// stop after destination
		checkStopOnDest(c, e)
	}
}

func argString(c *Ctx, g *ssa.Function, call *ssa.Call, i int) string {
	for _, pa := range firstPath(g, call.Block()) {
		env := core.NewEnv(c.P, pa)
		return env.Term(call.Common().Args[i]).String()
	}
	return ""
}

// reachWithin: `to` reachable from `from` inside the loop without entering cut blocks.
func reachWithin(from, to *ssa.BasicBlock, cut, loop map[*ssa.BasicBlock]bool) bool {
	seen := map[*ssa.BasicBlock]bool{}
	work := []*ssa.BasicBlock{from}
	for len(work) > 0 {
		b := work[len(work)-1]
		work = work[:len(work)-1]
		if seen[b] || cut[b] || !loop[b] {
			continue
		}
		seen[b] = true
		if b == to {
			return true
		}
		work = append(work, b.Succs...)
	}
	return false
}

func checkStopOnDest(c *Ctx, e *Engine) {
	R := c.R
	stopFlags := map[string]bool{} // atomic.Bool cells the sender tests before every send
	if e.Parallel {
		// parallel: sender re-tests the cancellable context; receiver cancels on IsDest
		for _, s := range e.SendSites {
			g := s.Parent()
			// the sender's stop test may sit in a predicate helper (keepSending(ctx)): its conditions are opened; next to the
			// cancellable context a stop flag (atomic.Bool the receiver sets) is recognised. EVERY path to the send carries it.
			sendPaths := InlinedPathsTo(c.P, g, s.Block(), inlineOpts{pkg: core.FuncPkg(g), stop: hasLoop})
			allTested := len(sendPaths) > 0
			for _, ip := range sendPaths {
				okTest := false
				for _, a := range ip.Atoms {
					nn := a.Norm()
					if !nn.Sign && nn.Cond.Op == "call" && strings.HasSuffix(nn.Cond.Name, "atomic.Bool).Load") && len(nn.Cond.Args) == 1 {
						if k := atomicCellKey(nn.Cond.Args[0]); k != "" {
							stopFlags[k] = true
							okTest = true
						}
					}
					if nn.Sign && nn.Cond.Op == "binop" && nn.Cond.Name == "==" && nn.Cond.Args[1].IsConst("nil") && isCallToSuffix(nn.Cond.Args[0], "context.Context.Err") {
						// which context
						if nn.Cond.Args[0].Val != nil {
							if cl, ok := nn.Cond.Args[0].Val.(*ssa.Call); ok {
								if ex, ok := c.P.DefX(cl.Common().Value).(*ssa.Extract); ok {
									if src, ok := ex.Tuple.(*ssa.Call); ok && src.Common().StaticCallee() != nil && src.Common().StaticCallee().String() == "context.WithCancel" {
										okTest = true
									}
								}
							}
						}
					}
				}
				if !okTest {
					allTested = false
				}
			}
			R.Check(allTested, "R06.5", e.Name+"#sender-cancel-test", s.Pos(), core.FuncName(g), "the sender re-tests its stop signal (cancellable context / stop flag) before every send", "some path to SendProbe does not test the stop signal (the cancellable context or the flag the receiver sets): probes continue after the destination answered")
		}
		// cancelsOnDest: in function g, a test of v.IsDest whose true branch calls the cancel function of a context.WithCancel
		cancelsOnDest := func(g *ssa.Function, isV func(ssa.Value) bool) bool {
			for _, b := range g.Blocks {
				iff, ok := b.Instrs[len(b.Instrs)-1].(*ssa.If)
				if !ok {
					continue
				}
				ld, ok := iff.Cond.(*ssa.UnOp)
				if !ok {
					continue
				}
				fa, ok := ld.X.(*ssa.FieldAddr)
				if !ok || core.FieldName(fa) != "IsDest" || !isV(fa.X) {
					continue
				}
				for _, in := range b.Succs[0].Instrs {
					// sets the stop flag the sender tests: flag.Store(true)
					if call, ok := in.(*ssa.Call); ok {
						if cal := call.Common().StaticCallee(); cal != nil && cal.String() == "(*sync/atomic.Bool).Store" && len(call.Common().Args) == 2 {
							if k, isK := call.Common().Args[1].(*ssa.Const); isK && k.Value != nil && k.Value.ExactString() == "true" {
								if fa, isFA := call.Common().Args[0].(*ssa.FieldAddr); isFA {
									if stopFlags[core.FieldName(fa)] {
										return true
									}
								}
							}
						}
					}
					if call, ok := in.(*ssa.Call); ok && call.Common().StaticCallee() == nil && !call.Common().IsInvoke() {
						if ex, ok := c.P.DefX(call.Common().Value).(*ssa.Extract); ok && ex.Index == 1 {
							if src, ok := ex.Tuple.(*ssa.Call); ok && src.Common().StaticCallee() != nil && src.Common().StaticCallee().String() == "context.WithCancel" {
								return true
							}
						}
					}
				}
			}
			return false
		}
		cg := c.P.CallGraph()
		for _, r := range e.RecvSites {
			g := r.Parent()
			okCancel := cancelsOnDest(g, func(v ssa.Value) bool { return valueFrom(v, r, 0) })
			if !okCancel {
				// the reply is handed to a callback / method that does it
				for _, b := range g.Blocks {
					for _, in := range b.Instrs {
						call, ok := in.(*ssa.Call)
						if !ok || call.Common().IsInvoke() {
							continue
						}
						for ai, a := range call.Common().Args {
							if !valueFrom(a, r, 0) {
								continue
							}
							n := cg.Nodes[g]
							if n == nil {
								continue
							}
							all, any := true, false
							for _, oe := range n.Out {
								if oe.Site != ssa.CallInstruction(call) || oe.Callee.Func == nil {
									continue
								}
								h := oe.Callee.Func
								off := len(h.Params) - len(call.Common().Args)
								if off < 0 || ai+off >= len(h.Params) {
									all = false
									continue
								}
								prm := h.Params[ai+off]
								any = true
								if !cancelsOnDest(h, func(v ssa.Value) bool { return v == ssa.Value(prm) }) {
									all = false
								}
							}
							if any && all {
								okCancel = true
							}
						}
					}
				}
			}
			R.Check(okCancel, "R06.5", e.Name+"#cancel-on-destination", r.Pos(), core.FuncName(g), "an accepted destination reply cancels the sender", "the receiver does not cancel the sender when the destination answered")
		}
		return
	}
	// serial: IsDest leads out of the send loop
	for _, s := range e.SendSites {
		g := s.Parent()
		loop := innermostLoop(g, s.Block())
		// the outer loop is the one containing the send but not nested in the receive loop: take the largest loop containing the send
		for _, h := range g.Blocks {
			if l2 := loopOfHeader(h); l2 != nil && l2[s.Block()] && len(l2) > len(loop) {
				loop = l2
			}
		}
		okBreak := false
		for b := range loop {
			iff, ok := b.Instrs[len(b.Instrs)-1].(*ssa.If)
			if !ok {
				continue
			}
			if ld, ok := iff.Cond.(*ssa.UnOp); ok {
				if fa, ok := ld.X.(*ssa.FieldAddr); ok && core.FieldName(fa) == "IsDest" && !loop[b.Succs[0]] {
					okBreak = true
				}
			}
		}
		R.Check(okBreak, "R06.5", e.Name+"#stop-on-destination", s.Pos(), core.FuncName(g), "a destination reply leaves the send loop", "the serial engine keeps sending after the destination answered")
	}
}

// checkReportedEndpoints is R06.6.
func checkReportedEndpoints(c *Ctx) {
	R := c.R
	type want struct{ fn, srcIP, srcPort, dstIP, dstPort string }
	for _, w := range []want{
		{"(*udp.UDPv4).Traceroute", "recv.srcIP", "recv.srcPort", "recv.Target", "recv.TargetPort"},
		{"(*tcp.TCPv4).Traceroute", "recv.srcIP", "recv.srcPort", "recv.Target", "recv.DestPort"},
		{"icmp.RunICMPTraceroute", "LocalAddr", "LocalAddr", "param:p.Target", ""},
		{"sack.RunSackTraceroute", "LocalAddr", "LocalAddr", "param:p.Target", "param:p.Target"},
	} {
		f := c.P.Func(w.fn)
		if f == nil {
			R.Fail("R06.6", w.fn+"#anchor", 0, "", "anchor "+w.fn+" no longer resolves")
			continue
		}
		rps, _ := core.ReturnPaths(c.P, f, 20000)
		n := 0
		for _, rp := range rps {
			if rp.Ret.Block().Comment == "recover" || !rp.Results[1].IsConst("nil") {
				continue
			}
			n++
			al, ok := rp.Ret.Results[0].(*ssa.Alloc)
			helperCall, _ := rp.Ret.Results[0].(*ssa.Call)
			if !ok {
				if ld, ok2 := rp.Ret.Results[0].(*ssa.UnOp); ok2 {
					// defer-spilled result: find the alloc stored into the result slot
					if ra, ok3 := ld.X.(*ssa.Alloc); ok3 {
						for _, r := range *ra.Referrers() {
							if st, ok4 := r.(*ssa.Store); ok4 && st.Addr == ssa.Value(ra) {
								if a2, ok5 := st.Val.(*ssa.Alloc); ok5 {
									al = a2
								}
								if c2, ok5 := st.Val.(*ssa.Call); ok5 && rp.Path.On(c2.Block()) {
									helperCall = c2
								}
							}
						}
					}
				}
			}
			var src, dst *core.Term
			if al == nil {
				// the run is assembled by a helper (a method of the same config, or a function of the config's fields): its literal,
				// re-expressed with the arguments of the call
				if call := helperCall; call != nil && !call.Common().IsInvoke() {
					if g := call.Common().StaticCallee(); g != nil && core.InModule(g) && len(g.Blocks) > 0 {
						grps, _ := core.ReturnPaths(c.P, g, 200)
						for _, grp := range grps {
							gal, isAl := grp.Ret.Results[0].(*ssa.Alloc)
							if grp.Ret.Block().Comment == "recover" || !isAl {
								continue
							}
							lift := func(t *core.Term) *core.Term {
								return t.Subst(func(x *core.Term) *core.Term {
									switch x.Op {
									case "recv":
										if len(call.Common().Args) > 0 {
											return rp.Env.Term(call.Common().Args[0])
										}
									case "param":
										for k, p := range g.Params {
											if p.Name() == x.Name && k < len(call.Common().Args) {
												return rp.Env.Term(call.Common().Args[k])
											}
										}
									}
									return nil
								})
							}
							src = lift(grp.Env.LoadField(gal, "Source", grp.Ret, types.Typ[types.Invalid]))
							dst = lift(grp.Env.LoadField(gal, "Destination", grp.Ret, types.Typ[types.Invalid]))
							break
						}
					}
				}
				if src == nil {
					R.Fail("R06.6", w.fn+"#run-literal", rp.Ret.Pos(), w.fn, "the returned run is not a literal: undecided")
					continue
				}
			} else {
				src = rp.Env.LoadField(al, "Source", rp.Ret, types.Typ[types.Invalid])
				dst = rp.Env.LoadField(al, "Destination", rp.Ret, types.Typ[types.Invalid])
			}
			sIP, sPort := core.ProjField(src, "IPAddress").String(), core.ProjField(src, "Port").String()
			dIP, dPort := core.ProjField(dst, "IPAddress").String(), core.ProjField(dst, "Port").String()
			// what the config fields hold when the run is reported (the builder reads the same fields)
			cur := func(name string) string {
				if !strings.HasPrefix(name, "recv.") {
					return name
				}
				val := name
				for _, b := range rp.Path.Blocks {
					for _, in := range b.Instrs {
						if st, ok := in.(*ssa.Store); ok {
							if fa, ok := st.Addr.(*ssa.FieldAddr); ok && fa.X == ssa.Value(f.Params[0]) && "recv."+core.FieldName(fa) == name {
								val = rp.Env.Term(st.Val).String()
							}
						}
					}
				}
				return val
			}
			has := func(got, name string) bool {
				// a helper reads the config field itself when it is called (after the stores of this path)
				return strings.Contains(got, cur(name)) || al == nil && strings.Contains(got, name)
			}
			ok1 := has(sIP, w.srcIP) && has(sPort, w.srcPort) && has(dIP, w.dstIP) && (w.dstPort == "" || has(dPort, w.dstPort))
			R.Check(ok1, "R06.6", w.fn+"#endpoints", rp.Ret.Pos(), w.fn, "reported endpoints come from the fields that were put on the wire", fmt.Sprintf("reported endpoints source=%s:%s destination=%s:%s do not originate from %s/%s and %s/%s", sIP, sPort, dIP, dPort, w.srcIP, w.srcPort, w.dstIP, w.dstPort))
			break
		}
		R.Floor("R06.6:success-returns:"+w.fn, n, 1)
	}
	// the local endpoint the ICMP/SACK helpers report is the one the driver was built with
	for _, h := range []struct{ fn, ctor string }{{"icmp.runICMPTraceroute", "icmp.newICMPDriver"}, {"sack.runSackTraceroute", "sack.newSackDriver"}} {
		f := c.P.Func(h.fn)
		if f == nil {
			continue
		}
		for _, b := range f.Blocks {
			for _, in := range b.Instrs {
				call, ok := in.(*ssa.Call)
				if !ok || !calleeIs(call, h.ctor) {
					continue
				}
				for _, pa := range firstPath(f, b) {
					env := core.NewEnv(c.P, pa)
					la := env.Term(call.Common().Args[1]).String()
					R.Check(strings.Contains(la, "common.LocalAddrForHost("), "R06.6", h.fn+"#driver-local-addr", call.Pos(), h.fn, "the driver's local address is LocalAddrForHost's", "the driver is built with local address "+la)
				}
			}
		}
	}
	_ = sort.Strings
}

func isExtractOfCallTo(v ssa.Value, f *ssa.Function) bool {
	ex, ok := v.(*ssa.Extract)
	if !ok {
		return false
	}
	call, ok := ex.Tuple.(*ssa.Call)
	return ok && call.Common().StaticCallee() == f
}

// isSendDelayField: the duration is the SendDelay parameter itself (a fixed delay after each send), not a
// derived quantity such as "time until the k-th slot", which lets probes catch up after a slow send.
func isSendDelayField(term string) bool {
	return strings.HasSuffix(term, ".SendDelay") && !strings.ContainsAny(term, "(+-*/")
}

// synIDFunc finds, by role instead of by name, the method of the SYN driver that hands out a probe's (IP-ID, sequence number)
// pair: the only function in SendProbe's tree inside the driver's package that returns (uint16, uint32).
func synIDFunc(c *Ctx, d Driver) *ssa.Function {
	var found *ssa.Function
	for _, g := range ModReach(c.P, d.SendProbe) {
		if core.ShortPkg(core.FuncPkg(g)) != d.Pkg {
			continue
		}
		res := g.Signature.Results()
		if res.Len() != 2 {
			continue
		}
		b0, ok0 := res.At(0).Type().Underlying().(*types.Basic)
		b1, ok1 := res.At(1).Type().Underlying().(*types.Basic)
		if ok0 && ok1 && b0.Kind() == types.Uint16 && b1.Kind() == types.Uint32 {
			if found != nil {
				return nil
			}
			found = g
		}
	}
	return found
}

type altTerm struct {
	t   *core.Term
	why string
}

// projectCallResult resolves  call(...)#i  and  call(...)#i.field  (static callee, or `dyn(func:F, args...)`) to the value each
// return path of the callee yields for it, parameters replaced by the arguments. A path selected by a test on the ttl is reported.
func projectCallResult(p *core.Prog, t *core.Term) []altTerm {
	field := ""
	x := t
	if x.Op == "field" && len(x.Args) == 1 {
		field, x = x.Name, x.Args[0]
	}
	idx := 0
	if x.Op == "extract" && len(x.Args) == 1 {
		fmt.Sscan(x.Name, &idx)
		x = x.Args[0]
	} else if field == "" {
		return nil
	}
	if x.Op != "call" {
		return nil
	}
	var g *ssa.Function
	args := x.Args
	if x.Name == "dyn" && len(args) > 0 && args[0].Op == "func" {
		g = p.Func(args[0].Name)
		args = args[1:]
	} else {
		g = p.Func(x.Name)
	}
	if g == nil || len(g.Blocks) == 0 || len(g.Params) != len(args) {
		return nil
	}
	rps, ok := core.ReturnPaths(p, g, 500)
	if !ok || len(rps) == 0 {
		return nil
	}
	sub := func(z *core.Term) *core.Term {
		if z.Op == "param" {
			for i, pa := range g.Params {
				if pa.Name() == z.Name {
					return args[i]
				}
			}
		}
		return nil
	}
	var out []altTerm
	for _, rp := range rps {
		if !core.Feasible(rp.Atoms) || rp.Ret.Block().Comment == "recover" || idx >= len(rp.Results) {
			continue
		}
		// error returns of (value, error) helpers carry no identifier
		if n := len(rp.Results); n >= 2 && isErrorType(g.Signature.Results().At(n-1).Type()) && !rp.Results[n-1].IsConst("nil") {
			continue
		}
		for _, a := range rp.Atoms {
			if mentionsTTL(a.Cond.Subst(sub)) {
				out = append(out, altTerm{why: "helper " + core.FuncName(g) + " selects its result by a test on the ttl (" + a.String() + "): two ttls can be mapped to one identifier"})
			}
		}
		r := rp.Results[idx]
		if field != "" {
			r = core.ProjField(r, field)
		}
		out = append(out, altTerm{t: r.Subst(sub)})
	}
	return out
}
