package rules

import (
	"fmt"
	"go/token"
	"go/types"
	"sort"
	"strings"

	"golang.org/x/tools/go/ssa"

	"verif/tool/internal/core"
)

func init() {
	register("C02", "Decides four structural clauses of recognition completeness over the matchers' decision tables: (R02.1) every reply form of the property's catalogue (time-exceeded v4/v6, echo reply v4/v6, destination-unreachable for UDP, SYN-ACK/RST/RST-ACK, SACK-carrying ACK, ICMPv4 time-exceeded for TCP variants) reaches an accept site, in strict and in relaxed mode; (R02.2) no accept path constrains a field that routers rewrite or add (quoted TTL/hop limit, checksum, TOS/traffic class, IP options); (R02.3) the strict/relaxed switch is exactly a switch on the INNER quoted source: relaxed paths carry no quoted-source comparison, strict paths compare ICMPPair.SrcAddr (never the outer IPPair) with the probe's own source; (R02.4) the parallel engine's listening budget originates from TracerouteTimeout + SendDelay*ProbeCount and its receiver loop tests the group context, not the writer context, so it keeps reading after the destination answered. Tolerance of concrete encodings (28-byte quotes, RFC 4884 extensions) is gopacket's and is not decided; deadline arithmetic is timing. (R02.6) In every SendProbe the probe is recorded in the sent-probe table before Sink.WriteTo, so that a reply can never be looked up before its probe exists. (R02.7) The lookup that credits a reply admits the whole probed range: on its success paths the key is bounded by MinTTL and MaxTTL inclusively. (R02.4b) The listening budget is TracerouteTimeout + SendDelay * probe count in time.Duration arithmetic. R02.5 also covers slices.Min/Max/Sort over a slice of SACK edges, which must have been made relative in place over its whole range; an accept path that does not consult the relaxed switch serves the strict form (and the relaxed one when it compares no source). (R02.8) The runner builds the SACK variant's parameters with the relaxed source switch constant true; the parser's destination-unreachable test looks at the ICMP type alone. (R02.9) On the parse path of package packets no byte slice is read at a constant offset of 20 or more: everything past the shortest IP header sits behind a variable-length header, so a hand-written peek at a fixed offset mis-reads genuine replies that carry outer IP options. No error on the run path is compared with os.ErrDeadlineExceeded by identity (shared with C09 R09.1): the handles report the expired poll deadline wrapped.", runC02)
	darwinRules["C02"] = runC02
}

var rewrittenFields = map[string]bool{"TTL": true, "HopLimit": true, "Checksum": true, "TOS": true, "TrafficClass": true, "Options": true, "Padding": true}

// checkQuoteIdentifier is R01.11: the per-probe identifier the parser takes from a quoted header is that header's own field
// (IPv4 Id, IPv6 Length of a UDP probe) or zero - never a property of how much was quoted (len of the decoded payload): a router that
// quotes fewer bytes than the probe had would otherwise turn the quote's size into the identifier and credit another probe.
func checkQuoteIdentifier(c *Ctx) {
	R := c.R
	n := 0
	f := c.P.Func("(*packets.FrameParser).GetICMPInfo")
	if f == nil {
		R.Fail("R01.11", "packets.GetICMPInfo#anchor", 0, "", "anchor (*packets.FrameParser).GetICMPInfo no longer resolves")
		return
	}
	fn := core.FuncName(f)
	// the parser's paths with its per-family halves and small helpers opened
	for _, ip := range InlinedPaths(c.P, f, inlineOpts{pkg: core.FuncPkg(f), stop: hasLoop, maxDepth: 4}) {
		if len(ip.Results) < 2 || !ip.Results[len(ip.Results)-1].IsConst("nil") {
			continue
		}
		id := core.ProjField(ip.Results[0], "WrappedPacketID")
		if id == nil || id.Op == "field" && id.Name == "WrappedPacketID" {
			continue // the literal is not visible on this path (built by something that was not opened)
		}
		n++
		v := id.StripConv()
		pos := f.Pos()
		if ip.Ret != nil {
			pos = ip.Ret.Pos()
		}
		switch {
		case v.Op == "zero" || v.IsConst("0") || v.Op == "field" && (v.Name == "Id" || v.Name == "Length"):
			R.OK("R01.11", fn+"#quote-identifier", pos, fn, "WrappedPacketID is a field of the quoted header (or 0)")
		case v.Has(func(x *core.Term) bool { return x.Op == "len" }):
			R.FailPath("R01.11", fn+"#quote-identifier", pos, fn, "the per-probe identifier taken from the quote is "+id.String()+", a length of what was decoded, not the quoted header's Id / Length field: it then depends on how many bytes the router quoted, so a short quote is credited to another probe of the run", ip.Desc)
		default:
			R.Info("R01.11", fn+"#quote-identifier", pos, fn, "WrappedPacketID = "+id.String()+": origin not decided")
		}
	}
	R.Floor("R01.11:quote-identifiers", n, 1)
}

// checkFixedFrameOffsets is R02.9: on the inbound parse path of package packets no byte slice is read at a constant offset of 20
// or more. Everything past the first 20 bytes of a frame sits behind a variable-length header (IPv4 IHL / options, IPv6 extension
// headers, TCP options): a fixed offset reads the right byte only for the shortest header, so a genuine reply that carries outer
// IP options would be mis-classified. The layer decoders compute these offsets; hand-written peeks may use them only below 20.
func checkFixedFrameOffsets(c *Ctx) {
	R := c.R
	var roots []*ssa.Function
	for _, n := range []string{"(*packets.FrameParser).Parse", "packets.ReadAndParse", "(*packets.FrameParser).GetICMPInfo", "packets.ParseTCPFirstBytes", "packets.ParseUDPFirstBytes"} {
		if f := c.P.Func(n); f != nil {
			roots = append(roots, f)
		}
	}
	n := 0
	for _, f := range ModReach(c.P, roots...) {
		if core.ShortPkg(core.FuncPkg(f)) != "packets" {
			continue
		}
		fn := core.FuncName(f)
		for _, b := range f.Blocks {
			for _, in := range b.Instrs {
				var idx ssa.Value
				var base ssa.Value
				switch x := in.(type) {
				case *ssa.IndexAddr:
					idx, base = x.Index, x.X
				case *ssa.Slice:
					idx, base = x.Low, x.X
				}
				if idx == nil || base == nil {
					continue
				}
				sl, ok := base.Type().Underlying().(*types.Slice)
				if !ok {
					continue
				}
				if bt, ok := sl.Elem().Underlying().(*types.Basic); !ok || bt.Kind() != types.Uint8 {
					continue
				}
				n++
				if k, ok := idx.(*ssa.Const); ok && k.Value != nil && k.Int64() >= 20 {
					R.Fail("R02.9", fmt.Sprintf("%s#fixed-offset[%d]", fn, k.Int64()), in.Pos(), fn, fmt.Sprintf("a byte slice is read at the fixed offset %d on the parse path: everything past byte 20 of a frame sits behind a variable-length header (IP options, extension headers), so this reads the intended field only for the shortest header; a genuine reply with outer IP options would be mis-read", k.Int64()))
				}
			}
		}
	}
	R.OK("R02.9", "packets#fixed-offsets", 0, "packets", fmt.Sprintf("%d byte-slice reads on the parse path, none at a constant offset >= 20", n))
	R.Floor("R02.9:byte-slice-reads", n, 5)
}

func runC02(c *Ctx) {
	R := c.R
	checkFixedFrameOffsets(c)
	// an expired poll deadline must be recognised however the handle wraps it, or a quiet interval ends the run and the replies
	// still to come are never read (shared with C09 R09.1)
	checkSentinelIdentity(c)
	denied := deniedICMPInfoFields(c)
	forEachMatcher(c, "R02", func(m *matcherCtx) {
		forms := map[string]bool{}
		flagSets := map[string]bool{}
		checkedBounds := map[*ssa.Function]bool{}
		for si, s := range m.sites {
			if s.Ret == nil {
				continue
			}
			for _, pi := range s.Paths {
				cls := classify(pi)
				key := siteKey(c.P, m.d, s, si, cls)
				fn := core.FuncName(s.Fn)
				pos := s.Alloc.Pos()
				pstr := pi.Desc
				eqs := pathEqs(pi.Atoms)
				mode := "any"
				if m.roles.Relaxed != "" && cls.Form == "icmp-quote" {
					f, sgn := atomTrue(pi.Atoms, func(t *core.Term) bool { return t.String() == m.roles.Relaxed })
					switch {
					case f && sgn:
						mode = "relaxed"
					case f && !sgn:
						mode = "strict"
					default:
						// the switch is not consulted on this path: whatever it accepts, it accepts in both modes
						mode = "unswitched"
					}
				}
				anySrcCmp := false
				for _, e := range eqs {
					if isInnerSrcAddr(e.A) || isInnerSrcAddr(e.B) || isQuotedSrcPort(e.A) || isQuotedSrcPort(e.B) || isOuterSrcViaICMPInfo(e.A) && hasLeaf(e.B, m.roles.LocalAddr) || isOuterSrcViaICMPInfo(e.B) && hasLeaf(e.A, m.roles.LocalAddr) {
						anySrcCmp = true
					}
				}
				fams := []string{cls.Family}
				if cls.Family == "any" {
					fams = []string{"v4", "v6"}
				}
				for _, fam := range fams {
					switch cls.Form {
					case "icmp-quote":
						if mode == "unswitched" {
							// with a source comparison it is the strict form (own-source quotes pass whatever the switch says);
							// without one it serves both modes
							forms[fmt.Sprintf("icmp-quote/%s/%s/strict", fam, cls.ICMPType)] = true
							if !anySrcCmp {
								forms[fmt.Sprintf("icmp-quote/%s/%s/relaxed", fam, cls.ICMPType)] = true
							}
						} else {
							forms[fmt.Sprintf("icmp-quote/%s/%s/%s", fam, cls.ICMPType, mode)] = true
						}
					case "echo-reply":
						forms["echo-reply/"+fam] = true
					}
				}
				if cls.Form == "tcp-direct" {
					for _, a := range flagAssignments(pi.Atoms) {
						var fs []string
						for _, f := range []string{"SYN", "ACK", "RST", "FIN"} {
							if a[f] {
								fs = append(fs, f)
							}
						}
						flagSets[strings.Join(fs, "+")] = true
					}
				}
				// R02.7: the lookup that credits the reply admits the whole probed range: on its success paths the key is bounded
				// by MinTTL and MaxTTL inclusively (a strict bound drops the genuine reply to the first / last probe)
				for _, l := range findLookups(c.P, m.d, pi.Atoms) {
					site, ok := l.Call.Val.(*ssa.Call)
					if !ok || site.Common().StaticCallee() == nil || checkedBounds[site.Common().StaticCallee()] {
						continue
					}
					L := site.Common().StaticCallee()
					checkedBounds[L] = true
					checkInclusiveBounds(c, m.d, L)
				}
				// R02.2 deny-list
				for _, a := range pi.Atoms {
					bad := ""
					a.Cond.Walk(func(x *core.Term) bool {
						if x.Op == "field" && rewrittenFields[x.Name] {
							names, base := fieldChain(x)
							// <parser>.IP4.TTL / IP6.HopLimit ...
							if len(names) >= 2 && (names[1] == "IP4" || names[1] == "IP6") && (base.Op == "param" || base.Op == "recv") {
								bad = x.String()
							}
						}
						if x.Op == "field" && denied[x.Name] != "" && access(x, ".GetICMPInfo", "0", x.Name) {
							bad = x.String() + " (derived from quoted " + denied[x.Name] + ")"
						}
						return bad == ""
					})
					if bad != "" {
						R.FailPath("R02.2", key+"/rewritten", pos, fn, "accept path is conditioned on "+bad+", a field real routers rewrite or add: genuine replies would be dropped", pstr)
					}
				}
				R.OK("R02.2", key+"/rewritten", pos, fn, "no atom on a router-rewritten field")
				// R02.3
				if cls.Form == "icmp-quote" {
					innerSrc := findEq(eqs, isInnerSrcAddr, m.roles.LocalAddr) != nil
					anySrc := false
					for _, e := range eqs {
						if isInnerSrcAddr(e.A) || isInnerSrcAddr(e.B) || isQuotedSrcPort(e.A) || isQuotedSrcPort(e.B) {
							anySrc = true
						}
					}
					switch mode {
					case "relaxed":
						R.Check(!anySrc, "R02.3", key+"/relaxed", pos, fn, "relaxed path carries no quoted-source comparison", "relaxed path still compares the quoted source: NAT-rewritten quotes would be dropped")
					case "strict", "any", "unswitched":
						if mode == "unswitched" && !anySrcCmp {
							R.OK("R02.3", key+"/strict", pos, fn, "path neither consults the switch nor compares the quoted source: it accepts in both modes")
						} else if innerSrc {
							R.OK("R02.3", key+"/strict", pos, fn, "strict path compares the INNER quoted source with "+m.roles.LocalAddr)
						} else {
							det := "strict path does not compare the INNER quoted source (ICMPPair.SrcAddr) with the probe's own source " + m.roles.LocalAddr
							if findEq(eqs, isOuterSrcViaICMPInfo, m.roles.LocalAddr) != nil {
								det += "; it compares the OUTER source (IPPair.SrcAddr = the router) instead, so every genuine time-exceeded from a router is rejected in strict mode"
							}
							R.FailPath("R02.3", key+"/strict", pos, fn, det, pstr)
						}
					}
				}
			}
		}
		// R02.1 catalogue
		var want []string
		modes := []string{"any"}
		if m.roles.Relaxed != "" {
			modes = []string{"strict", "relaxed"}
		}
		switch m.roles.Variant {
		case "icmp":
			want = []string{"icmp-quote/v4/te/any", "icmp-quote/v6/te/any", "echo-reply/v4", "echo-reply/v6"}
		case "udp":
			for _, md := range modes {
				for _, fam := range []string{"v4", "v6"} {
					want = append(want, "icmp-quote/"+fam+"/te/"+md, "icmp-quote/"+fam+"/du/"+md)
				}
			}
		case "syn", "sack":
			for _, md := range modes {
				want = append(want, "icmp-quote/v4/te/"+md)
			}
		}
		for _, w := range want {
			R.Check(forms[w], "R02.1", m.d.Name+"#form["+w+"]", m.d.ReceiveProbe.Pos(), m.d.Name, "reply form reaches an accept site", "no accept path for catalogue reply form "+w)
		}
		switch m.roles.Variant {
		case "syn":
			for _, w := range []string{"SYN+ACK", "RST", "ACK+RST"} {
				R.Check(flagSets[w], "R02.1", m.d.Name+"#form[tcp/"+w+"]", m.d.ReceiveProbe.Pos(), m.d.Name, "direct reply with flags "+w+" reaches an accept site", "no accept path for a direct reply with flags "+w)
			}
		case "sack":
			R.Check(flagSets["ACK"], "R02.1", m.d.Name+"#form[tcp/ACK+sack]", m.d.ReceiveProbe.Pos(), m.d.Name, "SACK-carrying ACK reaches an accept site", "no accept path for a plain ACK carrying SACK blocks")
		}
		var fl []string
		for f := range forms {
			fl = append(fl, f)
		}
		sort.Strings(fl)
		R.Info("R02.1", m.d.Name+"#forms", m.d.ReceiveProbe.Pos(), m.d.Name, "accepted forms: "+strings.Join(fl, " "))
	})
	checkBudget(c)
	for _, d := range Drivers(c.P) {
		checkSendOrderAs(c, d, "R02.6", false)
	}
	checkSackRelative(c)
	checkListeningBudget(c)
	checkUnreachablePredicate(c, "R02.1")
	checkSackRelaxedPolicy(c)
	checkQuoteHelpers(c)
}

// checkSackRelative is R02.5: SACK edges are ordered only after subtracting the initial sequence number,
// otherwise the minimum is wrong whenever localInitSeq+MaxTTL wraps around 2^32.
func checkSackRelative(c *Ctx) {
	R := c.R
	var recvF *ssa.Function
	for _, d := range Drivers(c.P) {
		if d.Pkg == "sack" {
			recvF = d.ReceiveProbe
		}
	}
	if recvF == nil {
		R.Fail("R02.5", "sack#anchor", 0, "", "the SACK driver's ReceiveProbe no longer resolves")
		return
	}
	// a raw SACK edge: a 32-bit big-endian read of TCP option data
	raw := func(t *core.Term) bool {
		return t.Has(func(z *core.Term) bool {
			return z.Op == "call" && strings.HasSuffix(z.Name, "Uint32") && strings.Contains(z.String(), "OptionData")
		})
	}
	// relative: every raw edge sits under a subtraction of a value that is not itself read from the options
	relative := func(t *core.Term) bool {
		if t.Op == "loopphi" || t.Op == "const" || !raw(t) {
			return true
		}
		return t.Has(func(z *core.Term) bool {
			return z.Op == "binop" && z.Name == "-" && raw(z.Args[0]) && !raw(z.Args[1]) && z.Args[1].Op != "const"
		})
	}
	n := 0
	for _, f := range ModReach(c.P, recvF) {
		if core.ShortPkg(core.FuncPkg(f)) != "sack" {
			continue
		}
		fn := core.FuncName(f)
		for _, b := range f.Blocks {
			for _, in := range b.Instrs {
				var ops []ssa.Value
				what := ""
				switch x := in.(type) {
				case *ssa.BinOp:
					switch x.Op.String() {
					case "<", ">", "<=", ">=":
						ops, what = []ssa.Value{x.X, x.Y}, x.Op.String()
					}
				case *ssa.Call:
					if bi, ok := x.Common().Value.(*ssa.Builtin); ok && (bi.Name() == "min" || bi.Name() == "max") {
						ops, what = x.Common().Args, bi.Name()
					}
					// ordering a whole slice of 32-bit values (slices.Min / Max / Sort ...): its elements are the operands
					if cn := core.CalleeName(x.Common()); strings.HasPrefix(cn, "slices.") && len(x.Common().Args) > 0 {
						if sl, ok := x.Common().Args[0].Type().Underlying().(*types.Slice); ok {
							if bits, _ := core.IntBits(sl.Elem()); bits == 32 && (strings.Contains(cn, "Min") || strings.Contains(cn, "Max") || strings.Contains(cn, "Sort")) {
								anyRaw, why := sliceHoldsRawEdges(c, f, x, x.Common().Args[0], raw)
								if anyRaw {
									n++
									R.Check(why == "", "R02.5", fmt.Sprintf("%s#ordered-compare@b%d", fn, b.Index), in.Pos(), fn, "the slice of SACK edges is made relative to the initial sequence number (in place, over its whole range) before it is ordered", "SACK edges are ordered by "+cn+" as absolute 32-bit sequence numbers ("+why+"): the minimum is wrong when the probe sequence numbers wrap around 2^32")
								}
							}
						}
					}
				}
				if len(ops) == 0 {
					continue
				}
				if bits, _ := core.IntBits(ops[0].Type()); bits != 32 {
					continue
				}
				for _, pa := range firstPath(f, b) {
					env := core.NewEnv(c.P, pa)
					var ts []*core.Term
					anyRaw, allRel := false, true
					for _, o := range ops {
						t := env.Term(o)
						ts = append(ts, t)
						if raw(t) {
							anyRaw = true
						}
						if !relative(t) {
							allRel = false
						}
					}
					if !anyRaw {
						continue
					}
					n++
					desc := ""
					for i, t := range ts {
						if i > 0 {
							desc += " " + what + " "
						}
						desc += t.String()
					}
					R.Check(allRel, "R02.5", fmt.Sprintf("%s#ordered-compare@b%d", fn, b.Index), in.Pos(), fn, "sequence numbers are ordered relative to the initial sequence number", "SACK edges are ordered as absolute 32-bit sequence numbers ("+desc+"): the minimum is wrong when the probe sequence numbers wrap around 2^32")
				}
			}
		}
	}
	R.Floor("R02.5:ordered-comparisons", n, 1)
}

// checkInclusiveBounds is R02.7 for one lookup accessor L.
func checkInclusiveBounds(c *Ctx, d Driver, L *ssa.Function) {
	R := c.R
	fn := core.FuncName(L)
	res := L.Signature.Results()
	errIdx := -1
	for i := 0; i < res.Len(); i++ {
		if isErrorType(res.At(i).Type()) {
			errIdx = i
		}
	}
	if errIdx < 0 {
		return
	}
	n := 0
	for _, ip := range InlinedPaths(c.P, L, inlineOpts{pkg: core.FuncPkg(L), stop: hasLoop}) {
		if !ip.Results[errIdx].IsConst("nil") {
			continue
		}
		for _, a := range ip.Atoms {
			nn := a.Norm()
			t := nn.Cond
			if t.Op != "binop" || len(t.Args) != 2 {
				continue
			}
			// orient as  key REL bound  with bound = <..>.MinTTL / <..>.MaxTTL
			x, y, op := t.Args[0], t.Args[1], t.Name
			isBound := func(z *core.Term) string {
				s := z.StripConv().String()
				switch {
				case strings.HasSuffix(s, ".MinTTL"):
					return "MinTTL"
				case strings.HasSuffix(s, ".MaxTTL"):
					return "MaxTTL"
				}
				return ""
			}
			flip := map[string]string{"<": ">", ">": "<", "<=": ">=", ">=": "<="}
			b := isBound(y)
			if b == "" {
				if b = isBound(x); b == "" {
					continue
				}
				x, y = y, x
				if f, ok := flip[op]; ok {
					op = f
				}
			}
			if !x.StripConv().Has(func(z *core.Term) bool { return z.Op == "param" }) {
				continue
			}
			if !nn.Sign {
				neg := map[string]string{"<": ">=", ">": "<=", "<=": ">", ">=": "<"}
				o2, ok := neg[op]
				if !ok {
					continue
				}
				op = o2
			}
			n++
			key := fmt.Sprintf("%s#bound[%s]", fn, b)
			switch {
			case b == "MaxTTL" && op == "<":
				R.FailPath("R02.7", key, L.Pos(), fn, "the lookup succeeds only for keys strictly below MaxTTL: the genuine reply to the probe with TTL = MaxTTL (the last hop of a long path; every end-to-end probe, whose only TTL is MaxTTL) is rejected and its hop is missing", ip.Desc)
			case b == "MinTTL" && op == ">":
				R.FailPath("R02.7", key, L.Pos(), fn, "the lookup succeeds only for keys strictly above MinTTL: the genuine reply to the first probe is rejected and its hop is missing", ip.Desc)
			default:
				R.OK("R02.7", key, L.Pos(), fn, "success path admits key "+op+" "+b)
			}
		}
	}
	_ = n
}

// checkSackRelaxedPolicy is R02.8: the SACK variant is specified to run with relaxed quoted-source checking (its probes leave
// through a kernel TCP connection; behind source NAT the quote carries the translated source). The only place that builds its
// parameters from a request sets the switch to constant true; without it every time-exceeded quote is rejected behind NAT.
func checkSackRelaxedPolicy(c *Ctx) {
	R := c.R
	n := 0
	sp := c.P.SSAPkgs["traceroute"]
	for _, f := range c.P.ModFuncs {
		if sp == nil || core.FuncPkg(f) != sp.Pkg || f.Parent() != nil || f.Signature.Results().Len() < 1 || !isNamed(f.Signature.Results().At(0).Type(), core.ModulePath+"/sack", "Params") {
			continue
		}
		fn := core.FuncName(f)
		rps, _ := core.ReturnPaths(c.P, f, 500)
		for _, rp := range rps {
			// error returns hand back the zero value
			if len(rp.Results) > 1 && !rp.Results[len(rp.Results)-1].IsConst("nil") {
				continue
			}
			n++
			v := core.ProjField(rp.Results[0], "LoosenICMPSrc")
			R.Check(v != nil && v.IsConst("true"), "R02.8", fn+"#sack-relaxed", rp.Ret.Pos(), fn, "SACK parameters are built with the relaxed source switch on", fmt.Sprintf("SACK parameters are built with LoosenICMPSrc = %v: the SACK variant then checks the quoted source strictly and loses every intermediate hop behind a source NAT", v))
		}
	}
	R.Floor("R02.8:sack-params-builders", n, 1)
}

// checkListeningBudget is R02.4b: the parallel engine listens for TracerouteTimeout plus one SendDelay per probe – the budget
// method returns exactly that sum in time.Duration arithmetic (a unit conversion on the way shrinks or inflates the window).
func checkListeningBudget(c *Ctx) {
	R := c.R
	f := c.P.Func("(common.TracerouteParallelParams).MaxTimeout")
	if f == nil {
		R.Fail("R02.4", "common.MaxTimeout#anchor", 0, "", "anchor (common.TracerouteParallelParams).MaxTimeout no longer resolves")
		return
	}
	fn := core.FuncName(f)
	// the probe-count helper stays a call: only the shape of the sum is judged here (the count itself is C19 R19.2 / R06.5)
	for _, ip := range InlinedPaths(c.P, f, inlineOpts{pkg: core.FuncPkg(f), stop: func(*ssa.Function) bool { return true }}) {
		r := ip.Results[0]
		ok := false
		if r.Op == "binop" && r.Name == "+" {
			for k := 0; k < 2; k++ {
				to, prod := r.Args[k], r.Args[1-k]
				if !strings.HasSuffix(to.String(), ".TracerouteTimeout") || prod.Op != "binop" || prod.Name != "*" {
					continue
				}
				for j := 0; j < 2; j++ {
					d, cnt := prod.Args[j], prod.Args[1-j]
					if strings.HasSuffix(d.String(), ".SendDelay") && cnt.Op == "conv" && strings.Contains(cnt.String(), "ProbeCount") || strings.HasSuffix(d.String(), ".SendDelay") && strings.Contains(cnt.String(), ".MaxTTL") && !cnt.Has(func(z *core.Term) bool { return z.Op == "call" && strings.HasPrefix(z.Name, "(time.Duration).") }) {
						ok = !d.Has(func(z *core.Term) bool { return z.Op == "call" })
					}
				}
			}
		}
		if ok {
			R.OK("R02.4", fn+"#budget", f.Pos(), fn, "listening budget = TracerouteTimeout + SendDelay * probe count, in time.Duration arithmetic")
		} else {
			R.FailPath("R02.4", fn+"#budget", f.Pos(), fn, "the listening budget is "+r.String()+", not TracerouteTimeout + SendDelay * (number of probes) in time.Duration arithmetic: probes sent late lose their listening window (or are never sent)", ip.Desc)
		}
	}
}

// sliceHoldsRawEdges: the slice S handed to an ordering call in f is filled with raw SACK edges (anyRaw); why is empty when a loop
// that runs over the whole of S and replaces S[i] by S[i] - base (base not read from the options) lies between the filling and the
// ordering call, and names what is missing otherwise.
func sliceHoldsRawEdges(c *Ctx, f *ssa.Function, at *ssa.Call, S ssa.Value, raw func(*core.Term) bool) (bool, string) {
	// where the elements come from: appends in f itself or in the module function that returned S
	anyRaw := false
	var fill []*ssa.Function
	if call, ok := S.(*ssa.Call); ok {
		if h := call.Common().StaticCallee(); h != nil && core.InModule(h) {
			fill = append(fill, h)
		}
	}
	fill = append(fill, f)
	for _, g := range fill {
		for _, b := range g.Blocks {
			for _, in := range b.Instrs {
				call, ok := in.(*ssa.Call)
				if !ok {
					continue
				}
				if bi, ok := call.Common().Value.(*ssa.Builtin); !ok || bi.Name() != "append" || len(call.Common().Args) < 2 {
					continue
				}
				if !types.Identical(call.Type(), S.Type()) {
					continue
				}
				for _, pa := range firstPath(g, b) {
					env := core.NewEnv(c.P, pa)
					// append(s, v) is append(s, tmp[:]...) with tmp[0] = v
					if sl, ok := call.Common().Args[1].(*ssa.Slice); ok {
						if arr, ok := sl.X.(*ssa.Alloc); ok {
							for _, r := range *arr.Referrers() {
								if ia, ok := r.(*ssa.IndexAddr); ok {
									for _, r2 := range *ia.Referrers() {
										if st, ok := r2.(*ssa.Store); ok && st.Addr == ssa.Value(ia) && raw(env.Term(st.Val)) {
											anyRaw = true
										}
									}
								}
							}
						}
					}
				}
			}
		}
	}
	if !anyRaw {
		return false, ""
	}
	// the normalising loop
	for _, b := range f.Blocks {
		for _, in := range b.Instrs {
			st, ok := in.(*ssa.Store)
			if !ok {
				continue
			}
			ia, ok := st.Addr.(*ssa.IndexAddr)
			if !ok || ia.X != S {
				continue
			}
			sub, ok := st.Val.(*ssa.BinOp)
			if !ok || sub.Op != token.SUB {
				continue
			}
			ld, ok := sub.X.(*ssa.UnOp)
			if !ok {
				continue
			}
			ia2, ok := ld.X.(*ssa.IndexAddr)
			if !ok || ia2.X != S || ia2.Index != ia.Index {
				continue
			}
			for _, pa := range firstPath(f, b) {
				if raw(core.NewEnv(c.P, pa).Term(sub.Y)) {
					return true, "the value subtracted from each edge is itself read from the options"
				}
			}
			if _, isConst := sub.Y.(*ssa.Const); isConst {
				continue
			}
			loop := innermostLoop(f, b)
			if loop == nil || loop[at.Block()] {
				continue
			}
			// whole range: the header tests index < len(S), the index starts at 0 (range form: phi(-1)+1)
			var header *ssa.BasicBlock
			for h := range loop {
				all := true
				for o := range loop {
					if !h.Dominates(o) {
						all = false
					}
				}
				if all {
					header = h
				}
			}
			if header == nil || !header.Dominates(at.Block()) {
				continue
			}
			whole := false
			if iff, ok := header.Instrs[len(header.Instrs)-1].(*ssa.If); ok {
				if cmp, ok := iff.Cond.(*ssa.BinOp); ok && cmp.Op == token.LSS && cmp.X == ia.Index {
					if ln, ok := cmp.Y.(*ssa.Call); ok {
						if bi, ok := ln.Common().Value.(*ssa.Builtin); ok && bi.Name() == "len" && ln.Common().Args[0] == S {
							// index = phi(-1, index) + 1
							if add, ok := ia.Index.(*ssa.BinOp); ok && add.Op == token.ADD {
								if phi, ok := add.X.(*ssa.Phi); ok {
									for _, e := range phi.Edges {
										if k, ok := e.(*ssa.Const); ok && k.Value != nil && k.Int64() == -1 {
											whole = true
										}
									}
								}
							}
							if phi, ok := ia.Index.(*ssa.Phi); ok {
								for _, e := range phi.Edges {
									if k, ok := e.(*ssa.Const); ok && k.Value != nil && k.Int64() == 0 {
										whole = true
									}
								}
							}
						}
					}
				}
			}
			if whole {
				return true, ""
			}
		}
	}
	return true, "no loop over the whole slice subtracts the initial sequence number from each element before the call"
}

// rawQuoteHelpers: reviewed module functions that may inspect the raw quoted header bytes.
var rawQuoteHelpers = map[string]string{
	"packets.extractEmbeddedIPv6": "skips the 4-byte ICMPv6 prefix after checking the IP version nibble only",
}

// quoteLocal: the term mentions a local of the gopacket IP layer types – the quoted header a parser function decodes into
// (the outer header lives in the parser object, not in a local).
func quoteLocal(t *core.Term) bool {
	return t.Has(func(x *core.Term) bool {
		if x.Op != "alloc" || x.Typ == nil {
			return false
		}
		pt, ok := x.Typ.Underlying().(*types.Pointer)
		if !ok {
			return false
		}
		nt, ok := pt.Elem().(*types.Named)
		return ok && nt.Obj().Pkg() != nil && strings.HasSuffix(nt.Obj().Pkg().Path(), "gopacket/layers") && (nt.Obj().Name() == "IPv4" || nt.Obj().Name() == "IPv6")
	})
}

// rawQuoteParam: inside a split-off half of the parser the raw quote arrives as a byte-slice parameter.
func rawQuoteParam(f *ssa.Function, arg *core.Term) bool {
	if f.Name() == "GetICMPInfo" || arg.Op != "param" {
		return false
	}
	if arg.Typ == nil {
		return false
	}
	sl, ok := arg.Typ.Underlying().(*types.Slice)
	if !ok {
		return false
	}
	b, ok := sl.Elem().Underlying().(*types.Basic)
	return ok && b.Kind() == types.Uint8
}

// icmpInfoBuilders: GetICMPInfo and the functions of its package in its call tree that hand back an ICMPInfo themselves (the
// per-family halves a refactor may split it into).
func icmpInfoBuilders(c *Ctx) []*ssa.Function {
	f := c.P.Func("(*packets.FrameParser).GetICMPInfo")
	if f == nil {
		return nil
	}
	out := []*ssa.Function{f}
	var names []string
	set := map[string]*ssa.Function{}
	for _, g := range ModReach(c.P, f) {
		if g == f || core.FuncPkg(g) != core.FuncPkg(f) || len(g.Blocks) == 0 || g.Signature.Results().Len() == 0 {
			continue
		}
		if nt, ok := g.Signature.Results().At(0).Type().(*types.Named); ok && nt.Obj().Name() == "ICMPInfo" {
			set[core.FuncName(g)] = g
			names = append(names, core.FuncName(g))
		}
	}
	sort.Strings(names)
	for _, n := range names {
		out = append(out, set[n])
	}
	return out
}

// checkQuoteHelpers extends R02.2 into the parser: the success of GetICMPInfo may not depend on a module helper that
// computes over the raw quoted header (where routers rewrite TTL, TOS and checksum), nor on a rewritten field of the decoded quote.
func checkQuoteHelpers(c *Ctx) {
	for _, f := range icmpInfoBuilders(c) {
		checkQuoteHelpersIn(c, f)
	}
}

func checkQuoteHelpersIn(c *Ctx, f *ssa.Function) {
	R := c.R
	fn := core.FuncName(f)
	rps, _ := core.ReturnPaths(c.P, f, 3000)
	n := 0
	for _, rp := range rps {
		if !rp.Results[len(rp.Results)-1].IsConst("nil") {
			continue
		}
		n++
		for _, a := range rp.Atoms {
			bad := ""
			a.Cond.Walk(func(x *core.Term) bool {
				if x.Op == "call" && strings.HasPrefix(x.Name, "packets.") && rawQuoteHelpers[x.Name] == "" {
					for ai, arg := range x.Args {
						as := arg.String()
						if (strings.Contains(as, ".Payload") && (strings.Contains(as, "ICMP4") || strings.Contains(as, "ICMP6"))) || (quoteLocal(arg) && strings.Contains(as, ".Contents")) || rawQuoteParam(f, arg) {
							// a helper that only hands the bytes to the layer decoder / keeps a copy is a moved piece of the parser;
							// one that reads the bytes itself computes over what routers rewrite
							inspected := true
							if site, ok := x.Val.(*ssa.Call); ok {
								if h := site.Common().StaticCallee(); h != nil {
									off := len(h.Params) - len(x.Args)
									if off >= 0 && ai+off < len(h.Params) {
										inspected = inspectsBytes(c.P, h, h.Params[ai+off], 0)
									}
								}
							}
							if inspected {
								bad = "module helper " + x.Name + " computed over the raw quoted header bytes"
							}
						}
					}
				}
				if x.Op == "field" && rewrittenFields[x.Name] && quoteLocal(x.Args[0]) {
					bad = "the quoted header's " + x.Name
				}
				return bad == ""
			})
			if bad != "" {
				R.FailPath("R02.2", fn+"#success-condition", rp.Ret.Pos(), fn, "GetICMPInfo succeeds only under a condition on "+bad+": real routers rewrite TTL, TOS and checksum of the quoted header, so genuine replies would be dropped", rp.Path.String())
			}
		}
	}
	R.OK("R02.2", fn+"#success-paths", f.Pos(), fn, fmt.Sprintf("%d success paths examined for conditions on router-rewritten quote bytes", n))
}

// deniedICMPInfoFields maps each ICMPInfo field that is derived from a
// router-rewritten field of the quoted header to that field's name.
func deniedICMPInfoFields(c *Ctx) map[string]string {
	out := map[string]string{}
	f := c.P.Func("(*packets.FrameParser).GetICMPInfo")
	if f == nil {
		c.R.Fail("R02.2", "packets.GetICMPInfo#anchor", 0, "", "anchor (*packets.FrameParser).GetICMPInfo no longer resolves")
		return out
	}
	n := 0
	for _, g := range icmpInfoBuilders(c) {
		rps, _ := core.ReturnPaths(c.P, g, 2000)
		for _, rp := range rps {
			r0 := rp.Results[0]
			if r0.Op != "struct" {
				continue
			}
			n++
			for _, kv := range r0.Args {
				kv.Args[0].Walk(func(x *core.Term) bool {
					if x.Op == "field" && rewrittenFields[x.Name] {
						out[kv.Name] = x.Name
					}
					return true
				})
			}
		}
	}
	c.R.Floor("R02.2:ICMPInfo-literals", n, 2)
	return out
}

// checkBudget is R02.4.
func checkBudget(c *Ctx) {
	R := c.R
	f := c.P.Func("common.TracerouteParallel")
	if f == nil {
		R.Fail("R02.4", "common.TracerouteParallel#anchor", 0, "", "anchor common.TracerouteParallel no longer resolves")
		return
	}
	fn := core.FuncName(f)
	found := 0
	for _, b := range f.Blocks {
		for _, in := range b.Instrs {
			call, ok := in.(*ssa.Call)
			if !ok {
				continue
			}
			cal := call.Common().StaticCallee()
			if cal == nil || cal.Pkg == nil || cal.Pkg.Pkg.Path() != "context" || cal.Name() != "WithTimeout" {
				continue
			}
			found++
			paths, _ := core.EnumPaths(f, b, 500)
			for _, pa := range paths {
				env := core.NewEnv(c.P, pa)
				d := env.Term(call.Common().Args[1])
				s := d.String()
				ok := strings.Contains(s, ".TracerouteTimeout") && strings.Contains(s, ".SendDelay") && (strings.Contains(s, "ProbeCount") || strings.Contains(s, ".MaxTTL") && strings.Contains(s, ".MinTTL")) && d.Op == "binop" && d.Name == "+"
				R.Check(ok, "R02.4", fn+"#budget", call.Pos(), fn, "listening budget = "+s, "listening budget "+s+" does not originate from TracerouteTimeout + SendDelay*ProbeCount()")
				par := env.Term(call.Common().Args[0])
				R.Check(par.Op == "param", "R02.4", fn+"#budget-parent", call.Pos(), fn, "timeout context derives from the caller's ctx", "timeout context derives from "+par.String())
			}
		}
	}
	R.Floor("R02.4:WithTimeout", found, 1)
	// the receiver: whichever function of the engine's scope calls ReceiveProbe (a closure of the engine or a helper it was moved to)
	nrecv := 0
	var scope []*ssa.Function
	for _, e := range Engines(c.P) {
		if e.Fn == f {
			scope = e.Scope
		}
	}
	for _, af := range scope {
		var recvCall ssa.Instruction
		for _, b := range af.Blocks {
			for _, in := range b.Instrs {
				if ci, ok := in.(ssa.CallInstruction); ok && ci.Common().IsInvoke() && ci.Common().Method.Name() == "ReceiveProbe" {
					recvCall = in
				}
			}
		}
		if recvCall == nil {
			continue
		}
		nrecv++
		// every ctx.Err() test in the receiver loop must be on the errgroup context
		nerr := 0
		for _, b := range af.Blocks {
			for _, in := range b.Instrs {
				ci, ok := in.(ssa.CallInstruction)
				if !ok || !ci.Common().IsInvoke() || ci.Common().Method.Name() != "Err" {
					continue
				}
				nerr++
				def := c.P.DefX(ci.Common().Value)
				okCtx := false
				desc := fmt.Sprintf("%T", def)
				if ex, ok := def.(*ssa.Extract); ok {
					if cl, ok := ex.Tuple.(*ssa.Call); ok {
						if callee := cl.Common().StaticCallee(); callee != nil {
							desc = callee.String()
							okCtx = callee.Pkg != nil && callee.Pkg.Pkg.Path() == "golang.org/x/sync/errgroup" && callee.Name() == "WithContext"
						}
					}
				}
				R.Check(okCtx, "R02.4", core.FuncName(af)+"#loop-ctx", in.Pos(), core.FuncName(af), "receiver loop is governed by the errgroup context (keeps reading after writerCancel)", "receiver loop tests a context defined by "+desc+": it would stop listening when the destination is seen")
			}
		}
		R.Floor("R02.4:receiver-ctx-tests", nerr, 1)
	}
	R.Floor("R02.4:receiver-closure", nrecv, 1)
}

// inspectsBytes: function h reads individual bytes of (a slice derived from) its parameter v, directly or in a module callee
// that is not a reviewed raw-quote helper. Handing the slice to a layer decoder, cloning, slicing and length tests do not count.
func inspectsBytes(p *core.Prog, h *ssa.Function, v ssa.Value, depth int) bool {
	if depth > 3 || len(h.Blocks) == 0 {
		return true
	}
	seen := map[ssa.Value]bool{}
	var visit func(x ssa.Value) bool
	visit = func(x ssa.Value) bool {
		if seen[x] || x.Referrers() == nil {
			return false
		}
		seen[x] = true
		for _, r := range *x.Referrers() {
			switch y := r.(type) {
			case *ssa.IndexAddr:
				if y.X == x {
					return true
				}
			case *ssa.Index:
				if y.X == x {
					return true
				}
			case *ssa.Lookup:
				if y.X == x {
					return true
				}
			case *ssa.Range:
				return true
			case *ssa.Slice:
				if visit(y) {
					return true
				}
			case *ssa.Phi:
				if visit(y) {
					return true
				}
			case *ssa.ChangeType:
				if visit(y) {
					return true
				}
			case *ssa.Convert:
				if visit(y) {
					return true
				}
			case *ssa.MakeInterface:
				if visit(y) {
					return true
				}
			case ssa.CallInstruction:
				cc := y.Common()
				if bi, ok := cc.Value.(*ssa.Builtin); ok {
					switch bi.Name() {
					case "len", "cap", "append", "copy":
						continue
					}
					return true
				}
				name := core.CalleeName(cc)
				if cc.IsInvoke() {
					if cc.Method.Name() == "DecodeFromBytes" {
						continue
					}
					return true
				}
				g := cc.StaticCallee()
				if g == nil {
					return true
				}
				if !core.InModule(g) {
					if g.Name() == "DecodeFromBytes" || name == "slices.Clone" || name == "bytes.Clone" || strings.HasPrefix(name, "slices.Clone[") {
						continue
					}
					return true
				}
				if rawQuoteHelpers[name] != "" {
					continue
				}
				for i, a := range cc.Args {
					if a == x && i < len(g.Params) {
						if inspectsBytes(p, g, g.Params[i], depth+1) {
							return true
						}
					}
				}
			}
		}
		return false
	}
	return visit(v)
}
