package rules

import (
	"encoding/json"
	"fmt"
	"os"
	"os/exec"
	"path/filepath"
	"sort"
	"strings"
	"sync"

	"verif/tool/internal/core"
)

// seed is one seeded defect of the sensitivity self-test (thorough tier): a textual edit of a current
// source file, or a patch kept under /verif/seeded/<id>/, analysed through a go/packages overlay in a
// child process. Self-test results never affect the exit code; they show that no rule has gone blind.
type seed struct {
	ID       string
	Property string
	File     string // relative to the repository (edit seeds)
	Old, New string
	Patch    string // absolute path of a patch (seeded/<id>/patch.diff)
	Expect   string // rule id prefix expected among the reports
}

type seedResult struct {
	ID       string `json:"id"`
	Expect   string `json:"expected_rule"`
	Outcome  string `json:"outcome"` // detected | MISSED | skipped
	Reported string `json:"reported,omitempty"`
	Note     string `json:"note,omitempty"`
}

// overlayFromEnv reads TRCHECK_OVERLAY (a JSON file: absolute path → content).
func overlayFromEnv() map[string][]byte {
	p := os.Getenv("TRCHECK_OVERLAY")
	if p == "" {
		return nil
	}
	b, err := os.ReadFile(p)
	if err != nil {
		return nil
	}
	var m map[string]string
	if json.Unmarshal(b, &m) != nil {
		return nil
	}
	out := map[string][]byte{}
	for k, v := range m {
		out[k] = []byte(v)
	}
	return out
}

func buildOverlay(s seed, tmp string) (map[string]string, string) {
	repo := core.RepoDir()
	if s.Patch == "" {
		b, err := os.ReadFile(filepath.Join(repo, s.File))
		if err != nil {
			return nil, "file missing: " + s.File
		}
		src := string(b)
		if strings.Count(src, s.Old) != 1 {
			return nil, fmt.Sprintf("anchor text occurs %d times in %s (needs exactly 1)", strings.Count(src, s.Old), s.File)
		}
		return map[string]string{filepath.Join(repo, s.File): strings.Replace(src, s.Old, s.New, 1)}, ""
	}
	// patch seed: copy the touched files, apply the patch to the copies
	pb, err := os.ReadFile(s.Patch)
	if err != nil {
		return nil, "patch missing"
	}
	var files []string
	for _, l := range strings.Split(string(pb), "\n") {
		if strings.HasPrefix(l, "+++ b/") {
			files = append(files, strings.TrimPrefix(l, "+++ b/"))
		}
	}
	work := filepath.Join(tmp, "patch-"+s.ID)
	defer os.RemoveAll(work)
	for _, f := range files {
		os.MkdirAll(filepath.Join(work, filepath.Dir(f)), 0o755)
		if b, err := os.ReadFile(filepath.Join(repo, f)); err == nil {
			os.WriteFile(filepath.Join(work, f), b, 0o644)
		}
	}
	cmd := exec.Command("patch", "-p1", "-s", "-f", "--no-backup-if-mismatch", "-d", work, "-i", s.Patch)
	if out, err := cmd.CombinedOutput(); err != nil {
		return nil, "patch no longer applies: " + firstLine(string(out))
	}
	ov := map[string]string{}
	for _, f := range files {
		b, err := os.ReadFile(filepath.Join(work, f))
		if err != nil {
			return nil, "patched file missing: " + f
		}
		ov[filepath.Join(repo, f)] = string(b)
	}
	return ov, ""
}

// loadSeededDirs reads /verif/seeded/<id>/meta.json entries that name this property among "detected_by".
func loadSeededDirs(prop string) []seed {
	var out []seed
	dirs, _ := filepath.Glob(filepath.Join(core.VerifDir(), "seeded", "*", "meta.json"))
	sort.Strings(dirs)
	for _, m := range dirs {
		b, err := os.ReadFile(m)
		if err != nil {
			continue
		}
		var meta struct {
			ID         string `json:"id"`
			DetectedBy []struct {
				Property string `json:"property"`
				Rule     string `json:"rule"`
			} `json:"detected_by"`
		}
		if json.Unmarshal(b, &meta) != nil {
			continue
		}
		for _, d := range meta.DetectedBy {
			if d.Property == prop {
				out = append(out, seed{ID: "seeded/" + filepath.Base(filepath.Dir(m)), Property: prop, Patch: filepath.Join(filepath.Dir(m), "patch.diff"), Expect: d.Rule})
				break
			}
		}
	}
	return out
}

// runSelfTest analyses every seed of the property in child processes and records the outcome in the evidence.
func runSelfTest(c *Ctx, prop string) {
	if os.Getenv("TRCHECK_OVERLAY") != "" || os.Getenv("TRCHECK_NO_SELFTEST") != "" {
		return
	}
	var seeds []seed
	for _, s := range selfEdits {
		if s.Property == prop {
			seeds = append(seeds, s)
		}
	}
	seeds = append(seeds, loadSeededDirs(prop)...)
	if len(seeds) == 0 {
		return
	}
	tmp, err := os.MkdirTemp("", "trcheck-selftest-")
	if err != nil {
		return
	}
	defer os.RemoveAll(tmp)
	results := make([]seedResult, len(seeds))
	sem := make(chan struct{}, 6)
	var wg sync.WaitGroup
	exe, _ := os.Executable()
	for i, s := range seeds {
		wg.Add(1)
		go func(i int, s seed) {
			defer wg.Done()
			sem <- struct{}{}
			defer func() { <-sem }()
			res := seedResult{ID: s.ID, Expect: s.Expect}
			ov, why := buildOverlay(s, tmp)
			if ov == nil {
				res.Outcome, res.Note = "skipped", why
				results[i] = res
				return
			}
			vd := filepath.Join(tmp, fmt.Sprintf("v%d", i))
			os.MkdirAll(filepath.Join(vd, "evidence", "replay"), 0o755)
			if kb, err := os.ReadFile(filepath.Join(core.VerifDir(), "known_findings.json")); err == nil {
				os.WriteFile(filepath.Join(vd, "known_findings.json"), kb, 0o644)
			}
			ob, _ := json.Marshal(ov)
			of := filepath.Join(vd, "overlay.json")
			os.WriteFile(of, ob, 0o644)
			cmd := exec.Command(exe, prop, "quick")
			cmd.Env = append(os.Environ(), "TRCHECK_OVERLAY="+of, "TRCHECK_VERIF="+vd, "TRCHECK_NO_SELFTEST=1")
			out, _ := cmd.CombinedOutput()
			res.Outcome = "MISSED"
			var other string
			for _, l := range strings.Split(string(out), "\n") {
				if strings.HasPrefix(l, prop+" R") {
					f := strings.Fields(l)
					if len(f) > 1 {
						if strings.HasPrefix(f[1], s.Expect) {
							res.Outcome = "detected"
							if len(l) > 220 {
								l = l[:220]
							}
							res.Reported = l
							break
						}
						if other == "" {
							other = l
						}
					}
				}
				if strings.Contains(l, "cannot load /repo") {
					res.Outcome, res.Note = "skipped", "variant does not type-check: "+l
				}
			}
			if res.Outcome == "MISSED" && other != "" {
				if len(other) > 220 {
					other = other[:220]
				}
				res.Note = "reported under another rule: " + other
				res.Outcome = "detected(other-rule)"
			}
			os.RemoveAll(vd)
			results[i] = res
		}(i, s)
	}
	wg.Wait()
	det, miss, skip := 0, 0, 0
	for _, r := range results {
		switch {
		case strings.HasPrefix(r.Outcome, "detected"):
			det++
		case r.Outcome == "skipped":
			skip++
		default:
			miss++
			fmt.Printf("SELFTEST-MISS property=%s seed=%s expected=%s\n", prop, r.ID, r.Expect)
		}
	}
	c.R.Extra["selftest"] = map[string]any{"seeded_defects": len(seeds), "detected": det, "missed": miss, "skipped": skip, "results": results,
		"note": "sensitivity self-test: each seeded defect is analysed through a source overlay in a child process; outcomes never affect the verdict on the real tree"}
}
