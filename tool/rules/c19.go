package rules

import (
	"fmt"
	"go/token"
	"go/types"
	"math"
	"sort"
	"strconv"
	"strings"

	"golang.org/x/tools/go/ssa"

	"verif/tool/internal/core"
)

func init() {
	register("C19", "Decides the representability clauses of parameter handling: (R19.1) every non-constant integer conversion in the module that narrows (or changes sign at equal width) is examined; one whose operand originates from a user parameter (a TracerouteParams field, an HTTP query value, a CLI flag, a parsed port) must, on every CFG path to it, be dominated by comparisons on the UN-narrowed value that confine it to the target type and whose failing edge does not reach the conversion; other narrowings must be discharged by a mask/shift, by being the re-narrowing of a widened value, by a small interval domain, or by a reviewed table entry; (R19.2) no + - * evaluated in an 8/16-bit type reaches a make size, an index, a slice bound or a loop bound unless the interval domain shows it cannot wrap; (R19.3) the protocol switch ends in an error-returning default (the TCP-method switch is C20 R20.1), the default port is substituted exactly when Port == 0, and the address/port handed to every protocol constructor come from parseTarget's result; (R19.4) the TTL bounds travel from the parameters to the engines' loop bounds through conversions only and e2e probes set MinTTL = MaxTTL. That accepted extreme values work end to end needs execution and is not decided; DNS resolution is outside. (R19.5) The HTTP layer hands the library exactly the integers the request states: every integer field of the parameters literal is a query decoder's result (converted or scaled by a constant at most), a decoder returns the parsed number itself or, only when the key is absent or not a number, its default, and the handler passes the literal unmodified to RunTraceroute behind err == nil. (R19.6) On the plumbing path (front end and per-protocol packages) every named parameter is used and every constructor stores each of its parameters in the value it returns or hands it to a call. (R19.5b) The boolean query decoder returns strconv.ParseBool's verdict or the default. (R19.3) RunTraceroute starts the runs with the caller's parameters unmodified (no field defaulted or rewritten before the range validation); parseTarget may return netip.ParseAddrPort's result only behind a non-zero port test. (R19.4) Both engines reach the method that rejects MinTTL > MaxTTL and MinTTL < 1 (a same-named method on an embedding struct would silently replace it).", runC19)
	darwinRules["C19"] = runC19
}

// narrowingTable: reviewed narrowings (function|operand rendering → reason).
var narrowingTable = map[string]string{
	"(*udp.UDPv4).Traceroute|common.LocalAddrForHost#0.Port": "OS-assigned UDP port of a live socket: always 0..65535",
	"tcp.reserveLocalPort|assert:*net.TCPAddr(…).Port":       "OS-assigned TCP port of a live listener: always 0..65535",
	"packets.AllocPacketID|allocator":                        "identifier space is modulo 2^16 by design (wrap-around of the block counter)",
	"icmp.nextEchoID|allocator":                              "identifier space is modulo 2^16 by design",
	"(*tcp.TCPv4).nextSeqNumAndPacketID|rand":                "random 16-bit identifier drawn from a 32-bit random number (legacy path)",
	"packets.SetBPF|len(filter)":                             "guarded by len(filter) > math.MaxUint16 just above",
	"packets.htons|byte-swap":                                "16-bit byte swap computed in uint16",
}

type bounds struct {
	lo, hi   float64
	loK, hiK bool
}

func constVal(t *core.Term) (float64, bool) {
	for t != nil && t.Op == "conv" {
		t = t.Args[0]
	}
	if t == nil || t.Op != "const" {
		return 0, false
	}
	v, err := strconv.ParseFloat(t.Name, 64)
	if err != nil {
		i, err2 := strconv.ParseInt(t.Name, 0, 64)
		if err2 != nil {
			return 0, false
		}
		return float64(i), true
	}
	return v, true
}

// atomBounds extracts bounds on the value with key k from the path's comparison atoms.
func atomBounds(atoms []core.Atom, k string) bounds {
	b := bounds{lo: math.Inf(-1), hi: math.Inf(1)}
	for _, a := range atoms {
		n := a.Norm()
		c := n.Cond
		if c.Op != "binop" {
			continue
		}
		x, y := c.Args[0], c.Args[1]
		op := c.Name
		var kv float64
		var ok bool
		switch {
		case x.Key() == k:
			kv, ok = constVal(y)
		case y.Key() == k:
			kv, ok = constVal(x)
			// flip: k' op x  ⇒ x op' k'
			op = map[string]string{"<": ">", "<=": ">=", ">": "<", ">=": "<=", "==": "==", "!=": "!="}[op]
		}
		if !ok {
			// comparison against a value with a known interval (e.g. conv[int](uint8))
			continue
		}
		sign := n.Sign
		if !sign {
			op = map[string]string{"<": ">=", "<=": ">", ">": "<=", ">=": "<", "==": "!=", "!=": "=="}[op]
		}
		switch op {
		case "<":
			b.hi, b.hiK = math.Min(b.hi, kv-1), true
		case "<=":
			b.hi, b.hiK = math.Min(b.hi, kv), true
		case ">":
			b.lo, b.loK = math.Max(b.lo, kv+1), true
		case ">=":
			b.lo, b.loK = math.Max(b.lo, kv), true
		case "==":
			b.lo, b.hi, b.loK, b.hiK = math.Max(b.lo, kv), math.Min(b.hi, kv), true, true
		}
	}
	return b
}

// interval: a tiny interval domain over terms (constants exact, widenings of unsigned types, len of constants, + - *).
func interval(t *core.Term, depth int) (lo, hi float64) {
	lo, hi = math.Inf(-1), math.Inf(1)
	if t == nil || depth > 8 {
		return
	}
	if v, ok := constVal(t); ok && t.Op == "const" {
		return v, v
	}
	typeRange := func(tt types.Type) (float64, float64) {
		bits, signed := core.IntBits(tt)
		if bits == 0 {
			return math.Inf(-1), math.Inf(1)
		}
		if signed {
			return -math.Pow(2, float64(bits-1)), math.Pow(2, float64(bits-1)) - 1
		}
		return 0, math.Pow(2, float64(bits)) - 1
	}
	switch t.Op {
	case "conv":
		il, ih := interval(t.Args[0], depth+1)
		tl, th := typeRange(t.Typ)
		if il >= tl && ih <= th {
			return il, ih
		}
		return tl, th
	case "binop":
		al, ah := interval(t.Args[0], depth+1)
		bl, bh := interval(t.Args[1], depth+1)
		switch t.Name {
		case "+":
			return al + bl, ah + bh
		case "-":
			return al - bh, ah - bl
		case "*":
			if al >= 0 && bl >= 0 {
				return al * bl, ah * bh
			}
		case "&":
			if bl >= 0 && bl == bh {
				return 0, bh
			}
			if al >= 0 && al == ah {
				return 0, ah
			}
		case ">>":
			if al >= 0 && bl == bh && bl >= 0 {
				return 0, math.Floor(ah / math.Pow(2, bl))
			}
		case "/":
			if al >= 0 && bl > 0 {
				return 0, ah
			}
		case "%":
			if bl > 0 {
				return 0, bh - 1
			}
		}
	case "len":
		if t.Args[0].Op == "const" && strings.HasPrefix(t.Args[0].Name, "\"") {
			if s, err := strconv.Unquote(t.Args[0].Name); err == nil {
				return float64(len(s)), float64(len(s))
			}
		}
		return 0, math.Inf(1)
	case "loopphi":
		// induction variable: init known, steps upwards
		if len(t.Args) > 0 {
			il, _ := interval(t.Args[0], depth+1)
			return il, math.Inf(1)
		}
	}
	if t.Typ != nil {
		return typeRange(t.Typ)
	}
	return
}

func userParamDerived(t *core.Term) (bool, string) {
	found, what := false, ""
	t.Walk(func(x *core.Term) bool {
		if x.Op == "field" && (x.Args[0].Op == "param" || x.Args[0].Op == "free") && x.Args[0].Typ != nil && (isNamed(x.Args[0].Typ, core.ModulePath+"/traceroute", "TracerouteParams") || isPtrToNamed(x.Args[0].Typ, core.ModulePath+"/traceroute", "TracerouteParams")) {
			found, what = true, x.String()
		}
		if x.Op == "param" && x.Name == "destinationPort" {
			found, what = true, x.String()
		}
		if x.Op == "call" && (x.Name == "strconv.Atoi" || x.Name == "strconv.ParseInt" || x.Name == "strconv.ParseUint") {
			found, what = true, x.Name
		}
		if x.Op == "global" && strings.HasPrefix(x.Name, "cmd.Args") {
			found, what = true, x.String()
		}
		return !found
	})
	return found, what
}

// checkNoParameterDropped is R19.6: a request field travels to the layer below as an argument; a function on the run path that
// receives it and never looks at it has dropped it (the layer below then runs with a default instead of what the request said).
// Every named parameter of every plain function or constructor on the run path (methods that implement an interface excepted:
// their signature is not theirs to choose) has at least one use.
func checkNoParameterDropped(c *Ctx) {
	R := c.R
	n := 0
	rp := runPathFuncs(c)
	var fs []*ssa.Function
	for f := range rp {
		fs = append(fs, f)
	}
	sort.Slice(fs, func(i, j int) bool { return core.FuncName(fs[i]) < core.FuncName(fs[j]) })
	for _, f := range fs {
		fn := core.FuncName(f)
		if f.Synthetic != "" || len(f.Blocks) == 0 || strings.Contains(fn, "Mock") || f.Parent() != nil {
			continue
		}
		// the layers between the request and the engine / the wire: the front end and the per-protocol packages (the shared
		// packages below them have platform switches and logging labels among their parameters)
		switch core.ShortPkg(core.FuncPkg(f)) {
		case "traceroute", "tcp", "udp", "icmp", "sack", "server", "cmd":
		default:
			continue
		}
		// interface-mandated methods
		if recv := f.Signature.Recv(); recv != nil && implementsModuleInterface(c, recv.Type(), f.Name()) {
			continue
		}
		for i, pa := range f.Params {
			if f.Signature.Recv() != nil && i == 0 {
				continue
			}
			if pa.Name() == "_" || pa.Name() == "" {
				continue
			}
			n++
			used := pa.Referrers() != nil && len(*pa.Referrers()) > 0
			R.Check(used, "R19.6", fmt.Sprintf("%s#param[%s]", fn, pa.Name()), f.Pos(), fn, "parameter "+pa.Name()+" is used", "parameter "+pa.Name()+" of "+fn+" is never used: whatever the caller hands over here (a request field on its way to the layer below) is dropped and a default takes its place")
		}
	}
	R.Floor("R19.6:parameters", n, 30)
}

// implementsModuleInterface: a method named name of type t is part of some module interface's method set that t implements.
func implementsModuleInterface(c *Ctx, t types.Type, name string) bool {
	for _, sp := range c.P.SSAPkgs {
		for _, m := range sp.Members {
			tn, ok := m.(*ssa.Type)
			if !ok {
				continue
			}
			iface, ok := tn.Type().Underlying().(*types.Interface)
			if !ok {
				continue
			}
			has := false
			for i := 0; i < iface.NumMethods(); i++ {
				if iface.Method(i).Name() == name {
					has = true
				}
			}
			if has && (types.Implements(t, iface) || types.Implements(types.NewPointer(t), iface)) {
				return true
			}
		}
	}
	return false
}

// checkConstructorsForward is R19.6b: a constructor of the per-protocol packages (a function that returns a struct it allocates)
// puts every one of its parameters into the constructed value or hands it to a call; a parameter that only steers a branch no longer
// reaches the code that reads the corresponding field.
func checkConstructorsForward(c *Ctx) {
	R := c.R
	n := 0
	var fs []*ssa.Function
	for f := range runPathFuncs(c) {
		fs = append(fs, f)
	}
	sort.Slice(fs, func(i, j int) bool { return core.FuncName(fs[i]) < core.FuncName(fs[j]) })
	derives := func(v ssa.Value, p *ssa.Parameter) bool {
		seen := map[ssa.Value]bool{}
		var walk func(v ssa.Value, d int) bool
		walk = func(v ssa.Value, d int) bool {
			if v == nil || d > 4 || seen[v] {
				return false
			}
			seen[v] = true
			if v == ssa.Value(p) {
				return true
			}
			// a by-value struct parameter is spilled into a local and read back field by field
			if a2, ok := v.(*ssa.Alloc); ok && a2.Referrers() != nil {
				for _, r := range *a2.Referrers() {
					if st, ok := r.(*ssa.Store); ok && st.Addr == ssa.Value(a2) && st.Val == ssa.Value(p) {
						return true
					}
				}
			}
			if in, ok := v.(ssa.Instruction); ok {
				for _, op := range in.Operands(nil) {
					if op != nil && *op != nil && walk(*op, d+1) {
						return true
					}
				}
			}
			return false
		}
		return walk(v, 0)
	}
	for _, f := range fs {
		switch core.ShortPkg(core.FuncPkg(f)) {
		case "tcp", "udp", "icmp", "sack":
		default:
			continue
		}
		if f.Synthetic != "" || f.Parent() != nil || len(f.Blocks) == 0 || f.Signature.Recv() != nil || strings.Contains(core.FuncName(f), "Mock") {
			continue
		}
		// returns a struct it allocates
		var al *ssa.Alloc
		for _, b := range f.Blocks {
			if ret, ok := b.Instrs[len(b.Instrs)-1].(*ssa.Return); ok && len(ret.Results) >= 1 {
				if a, ok := ret.Results[0].(*ssa.Alloc); ok && a.Heap {
					if _, isStruct := a.Type().Underlying().(*types.Pointer).Elem().Underlying().(*types.Struct); isStruct {
						al = a
					}
				}
			}
		}
		if al == nil {
			continue
		}
		fn := core.FuncName(f)
		for _, pa := range f.Params {
			if pa.Name() == "_" || pa.Name() == "" {
				continue
			}
			n++
			ok := false
			for _, b := range f.Blocks {
				for _, in := range b.Instrs {
					switch x := in.(type) {
					case *ssa.Store:
						if fa, isFA := x.Addr.(*ssa.FieldAddr); isFA && fa.X == ssa.Value(al) && derives(x.Val, pa) {
							ok = true
						}
					case ssa.CallInstruction:
						for _, a := range x.Common().Args {
							if derives(a, pa) {
								ok = true
							}
						}
					}
				}
			}
			R.Check(ok, "R19.6", fmt.Sprintf("%s#forwards[%s]", fn, pa.Name()), f.Pos(), fn, "constructor parameter "+pa.Name()+" reaches the constructed value (or a call)", "constructor parameter "+pa.Name()+" of "+fn+" is not stored in the constructed value nor handed on: the field the code below reads keeps its zero value whatever the request said")
		}
	}
	R.Floor("R19.6:constructor-parameters", n, 10)
}

// checkTTLIndexedTables is R19.2b: a slice field that a driver's SendProbe tree indexes by (a widening of) its ttl parameter has
// length int(MaxTTL)+1 by construction – the only length that makes every accepted TTL a valid index. A table sized by the probe
// count (MaxTTL-MinTTL+1) is too short whenever MinTTL > 1, and SendProbe panics.
func checkTTLIndexedTables(c *Ctx) {
	R := c.R
	if len(lenBoundedFields) == 0 {
		discoverLenBoundedFields(c)
	}
	n := 0
	for _, d := range Drivers(c.P) {
		var ttl *ssa.Parameter
		for _, pa := range d.SendProbe.Params {
			if bt, ok := pa.Type().Underlying().(*types.Basic); ok && bt.Kind() == types.Uint8 {
				ttl = pa
			}
		}
		if ttl == nil {
			continue
		}
		for _, g := range ModReach(c.P, d.SendProbe) {
			if core.ShortPkg(core.FuncPkg(g)) != d.Pkg {
				continue
			}
			for _, b := range g.Blocks {
				for _, in := range b.Instrs {
					ia, ok := in.(*ssa.IndexAddr)
					if !ok {
						continue
					}
					ld, ok := ia.X.(*ssa.UnOp)
					if !ok {
						continue
					}
					fa, ok := ld.X.(*ssa.FieldAddr)
					if !ok {
						continue
					}
					if _, isSlice := ld.Type().Underlying().(*types.Slice); !isSlice {
						continue
					}
					// index derives from the ttl parameter (of SendProbe, or of the helper it was handed to)
					idx := stripWiden(ia.Index)
					pa, isParam := c.P.DefX(idx).(*ssa.Parameter)
					if p2, ok := idx.(*ssa.Parameter); ok {
						pa, isParam = p2, true
					}
					if !isParam {
						continue
					}
					if bt, ok := pa.Type().Underlying().(*types.Basic); !ok || bt.Kind() != types.Uint8 {
						continue
					}
					n++
					key := strings.TrimPrefix(fieldKeyOf(fa), core.ModulePath+"/")
					R.Check(lenBoundedFields[key], "R19.2", fmt.Sprintf("%s#ttl-indexed[%s]", core.FuncName(g), key), ia.Pos(), core.FuncName(g), "the table indexed by the TTL is made with length int(MaxTTL)+1", "the table "+key+" is indexed by the TTL but is not made with length int(MaxTTL)+1: an accepted TTL can lie past its end (e.g. MinTTL > 1 with a table sized by the probe count) and SendProbe panics")
				}
			}
		}
	}
	R.Analysed["R19.2b_ttl_indexed_tables"] = n
}

func runC19(c *Ctx) {
	R := c.R
	checkNoParameterDropped(c)
	checkConstructorsForward(c)
	checkTTLIndexedTables(c)
	nconv, ncand := 0, 0
	for _, f := range c.P.ModFuncs {
		fn := core.FuncName(f)
		if strings.Contains(fn, "Mock") || strings.HasPrefix(fn, "testutils.") || f.Synthetic != "" {
			continue
		}
		for _, b := range f.Blocks {
			for _, in := range b.Instrs {
				cv, ok := in.(*ssa.Convert)
				if !ok {
					continue
				}
				tb, ts := core.IntBits(cv.Type())
				sb, ss := core.IntBits(cv.X.Type())
				if tb == 0 || sb == 0 {
					continue
				}
				if isUintptr(cv.Type()) || isUintptr(cv.X.Type()) {
					continue // file-descriptor plumbing, not a wire quantity
				}
				nconv++
				if _, isC := cv.X.(*ssa.Const); isC {
					continue
				}
				if !(tb < sb || (tb == sb && ts != ss)) {
					continue
				}
				ncand++
				checkNarrowing(c, f, cv)
			}
		}
	}
	R.Analysed["integer_conversions"] = nconv
	R.Analysed["narrowing_candidates"] = ncand
	R.Floor("R19.1:narrowing-candidates", ncand, 8)
	checkNarrowArith(c)
	checkProtocolSwitch(c)
	checkDefaultPort(c)
	checkTargetPlumbing(c)
	checkHTTPDecoding(c)
	checkTTLPlumbing(c)
	checkParseTargetPort(c)
}

// checkParseTargetPort: every success return of parseTarget carries a port that was range-checked on that path.
func checkParseTargetPort(c *Ctx) {
	R := c.R
	f := c.P.Func("traceroute.parseTarget")
	if f == nil {
		R.Fail("R19.3", "traceroute.parseTarget#anchor", 0, "", "anchor traceroute.parseTarget no longer resolves")
		return
	}
	fn := core.FuncName(f)
	// inlined paths: the port conversion and its range check may live in a helper of the package
	rps := InlinedPaths(c.P, f, inlineOpts{pkg: core.FuncPkg(f)})
	if len(rps) == 0 {
		R.Fail("R19.3", fn+"#enumeration", f.Pos(), fn, "paths cannot be enumerated: undecided")
		return
	}
	n := 0
	seen := map[string]bool{}
	for _, rp := range rps {
		if len(rp.Results) != 2 || !rp.Results[1].IsConst("nil") {
			continue
		}
		n++
		r0 := rp.Results[0]
		key := fmt.Sprintf("%s#success-port@b%d", fn, rp.Ret.Block().Index)
		ok := false
		detail := r0.String()
		if r0.Op == "call" && r0.Name == "netip.AddrPortFrom" && len(r0.Args) == 2 {
			pt := r0.Args[1]
			for pt.Op == "conv" {
				pt = pt.Args[0]
			}
			b := atomBounds(rp.Atoms, pt.Key())
			ok = b.loK && b.hiK && b.lo >= 1 && b.hi <= 65535
			detail = fmt.Sprintf("port %s bounded to [%g,%g]", pt.String(), b.lo, b.hi)
		}
		// an address-port parsed by the library (its port is a uint16, so at most 65535) whose port this path tested to be non-zero
		if !ok && r0.Op == "extract" && r0.Name == "0" && len(r0.Args) == 1 && r0.Args[0].Op == "call" && r0.Args[0].Name == "netip.ParseAddrPort" {
			for _, a := range rp.Atoms {
				nn := a.Norm()
				t := nn.Cond
				if t.Op != "binop" || len(t.Args) != 2 {
					continue
				}
				l, r := t.Args[0].StripConv(), t.Args[1]
				if l.Op != "call" || l.Name != "(netip.AddrPort).Port" || len(l.Args) != 1 || l.Args[0].String() != r0.String() {
					continue
				}
				nz := r.IsConst("0") && (t.Name == "!=" && nn.Sign || t.Name == "==" && !nn.Sign || t.Name == ">" && nn.Sign || t.Name == "<=" && !nn.Sign) ||
					r.IsConst("1") && (t.Name == ">=" && nn.Sign || t.Name == "<" && !nn.Sign)
				if nz {
					ok = true
					detail = "port of netip.ParseAddrPort's result (a uint16) tested to be non-zero"
				}
			}
		}
		if !ok && seen[key] {
			continue
		}
		seen[key] = true
		R.Check(ok, "R19.3", key, rp.Ret.Pos(), fn, "a successfully parsed target carries a port checked to lie in 1..65535", "a success return of parseTarget yields "+detail+" without a 1..65535 range check on that path: port 0 (or a wrapped port) is accepted instead of rejected")
	}
	R.Floor("R19.3:parseTarget-success-paths", n, 1)
}

func tableKey(fn string, op *core.Term) string {
	s := op.String()
	switch {
	case strings.Contains(s, "LocalAddrForHost") && strings.HasSuffix(s, "#0.Port"):
		return fn + "|common.LocalAddrForHost#0.Port"
	case strings.Contains(s, "assert:*net.TCPAddr") && strings.HasSuffix(s, ".Port"):
		return fn + "|assert:*net.TCPAddr(…).Port"
	case strings.Contains(s, ".Add(@"):
		return fn + "|allocator"
	case strings.Contains(s, "rand.Uint32"):
		return fn + "|rand"
	case strings.HasPrefix(s, "len("):
		return fn + "|" + s
	case fn == "packets.htons":
		return fn + "|byte-swap"
	}
	return fn + "|" + s
}

func checkNarrowing(c *Ctx, f *ssa.Function, cv *ssa.Convert) {
	R := c.R
	fn := core.FuncName(f)
	paths, complete := core.EnumPaths(f, cv.Block(), 5000)
	if !complete || len(paths) == 0 {
		R.Fail("R19.1", fn+"#narrow-enumeration", cv.Pos(), fn, "paths to a narrowing conversion cannot be enumerated: undecided")
		return
	}
	tbits, tsigned := core.IntBits(cv.Type())
	tlo, thi := 0.0, math.Pow(2, float64(tbits))-1
	if tsigned {
		tlo, thi = -math.Pow(2, float64(tbits-1)), math.Pow(2, float64(tbits-1))-1
	}
	var first *core.Term
	allOK := true
	why := ""
	user, what := false, ""
	for _, pa := range paths {
		env := core.NewEnv(c.P, pa)
		atoms := env.Atoms()
		if !core.Feasible(atoms) {
			continue
		}
		op := env.Term(cv.X)
		if first == nil {
			first = op
		}
		if u, w := userParamDerived(op); u {
			user, what = true, w
		}
		// a parameter: look at what the module's call sites pass
		if pv, ok := cv.X.(*ssa.Parameter); ok {
			for _, at := range callerArgTerms(c, f, pv, 0) {
				if u, w := userParamDerived(at); u {
					user, what = true, w
				}
			}
		}
		// (1) interval domain (a parameter takes the union of what the module's call sites pass)
		il, ih := interval(op, 0)
		if pv, ok := cv.X.(*ssa.Parameter); ok {
			if pl, ph, ok2 := paramInterval(c, f, pv, 0); ok2 {
				il, ih = math.Max(il, pl), math.Min(ih, ph)
			}
		}
		if il >= tlo && ih <= thi {
			why = fmt.Sprintf("interval [%g,%g] fits", il, ih)
			continue
		}
		// (2) dominating comparisons on the un-narrowed value (also through one widening)
		bd := atomBounds(atoms, op.Key())
		inner := op
		for inner.Op == "conv" && !inner.Narrowing() {
			inner = inner.Args[0]
			b2 := atomBounds(atoms, inner.Key())
			if b2.loK && b2.lo > bd.lo {
				bd.lo, bd.loK = b2.lo, true
			}
			if b2.hiK && b2.hi < bd.hi {
				bd.hi, bd.hiK = b2.hi, true
			}
		}
		lo, hi := math.Max(il, bd.lo), math.Min(ih, bd.hi)
		// comparisons against interval-valued operands: x <= conv[int](uint8), ¬(x > conv[int](MaxTTL)), ...
		for _, a := range atoms {
			n := a.Norm()
			if n.Cond.Op != "binop" {
				continue
			}
			opn := n.Cond.Name
			x, y := n.Cond.Args[0], n.Cond.Args[1]
			if y.Key() == op.Key() {
				x, y = y, x
				opn = map[string]string{"<": ">", "<=": ">=", ">": "<", ">=": "<="}[opn]
			}
			if x.Key() != op.Key() || opn == "" {
				continue
			}
			if !n.Sign {
				opn = map[string]string{"<": ">=", "<=": ">", ">": "<=", ">=": "<"}[opn]
			}
			yl, yh := interval(y, 0)
			switch opn {
			case "<":
				hi = math.Min(hi, yh-1)
			case "<=":
				hi = math.Min(hi, yh)
			case ">":
				lo = math.Max(lo, yl+1)
			case ">=":
				lo = math.Max(lo, yl)
			}
		}
		if lo >= tlo && hi <= thi {
			why = fmt.Sprintf("dominating range check confines it to [%g,%g]", lo, hi)
			continue
		}
		allOK = false
	}
	if first == nil {
		return
	}
	expr := fmt.Sprintf("%s(%s)", types.TypeString(cv.Type(), func(p *types.Package) string { return p.Name() }), first.String())
	key := fmt.Sprintf("%s#narrow[%s]", fn, expr)
	if len(key) > 200 {
		key = key[:200]
	}
	switch {
	case allOK:
		R.OK("R19.1", key, cv.Pos(), fn, "discharged: "+why)
	case packetDerived(first) && !user:
		R.Info("R19.1", key, cv.Pos(), fn, "packet-derived narrowing: decided by C01 R01.5, not a parameter")
	default:
		if reason, ok := narrowingTable[tableKey(fn, first)]; ok && !user {
			R.OK("R19.1", key, cv.Pos(), fn, "reviewed table: "+reason)
			return
		}
		if user {
			R.Fail("R19.1", key, cv.Pos(), fn, fmt.Sprintf("user parameter %s is narrowed to %s with no dominating range check on the un-narrowed value: out-of-range values wrap silently instead of being rejected", what, cv.Type()))
		} else {
			// not a request parameter: outside this property (packet-derived identifiers are C01 R01.5's, sizes R19.2's)
			R.Info("R19.1", key, cv.Pos(), fn, "undischarged narrowing of a value that does not originate from a request parameter: outside C19")
		}
	}
}

// checkNarrowArith is R19.2.
func checkNarrowArith(c *Ctx) {
	R := c.R
	n := 0
	for _, f := range c.P.ModFuncs {
		fn := core.FuncName(f)
		if strings.Contains(fn, "Mock") || strings.HasPrefix(fn, "testutils.") || f.Synthetic != "" {
			continue
		}
		for _, b := range f.Blocks {
			for _, in := range b.Instrs {
				bo, ok := in.(*ssa.BinOp)
				if !ok || (bo.Op != token.ADD && bo.Op != token.SUB && bo.Op != token.MUL) {
					continue
				}
				bits, signed := core.IntBits(bo.Type())
				if bits == 0 || bits > 16 {
					continue
				}
				n++
				sink := narrowSink(bo, map[ssa.Value]bool{}, 0)
				if sink == "" {
					continue
				}
				// interval check
				okI := false
				for _, pa := range firstPath(f, b) {
					env := core.NewEnv(c.P, pa)
					t := env.Term(bo)
					al, ah := interval(t.Args[0], 0)
					bl, bh := interval(t.Args[1], 0)
					var lo, hi float64
					switch bo.Op {
					case token.ADD:
						lo, hi = al+bl, ah+bh
					case token.SUB:
						lo, hi = al-bh, ah-bl
					default:
						lo, hi = al*bl, ah*bh
					}
					tlo, thi := 0.0, math.Pow(2, float64(bits))-1
					if signed {
						tlo, thi = -math.Pow(2, float64(bits-1)), math.Pow(2, float64(bits-1))-1
					}
					okI = lo >= tlo && hi <= thi
					key := fmt.Sprintf("%s#narrow-arith[%s→%s]", fn, t.String(), sink)
					if okI {
						R.OK("R19.2", key, bo.Pos(), fn, fmt.Sprintf("%d-bit arithmetic reaches a %s but cannot wrap: result in [%g,%g]", bits, sink, lo, hi))
					} else {
						R.Fail("R19.2", key, bo.Pos(), fn, fmt.Sprintf("%s is evaluated in a %d-bit type and reaches a %s: for operands up to %g it wraps around (result range [%g,%g] exceeds %g)", t.String(), bits, sink, ah, lo, hi, thi))
					}
				}
			}
		}
	}
	R.Floor("R19.2:narrow-arithmetic-sites", n, 3)
}

// narrowSink follows a value through conversions and phis to a size / index / bound use.
func narrowSink(v ssa.Value, seen map[ssa.Value]bool, depth int) string {
	if seen[v] || depth > 6 || v.Referrers() == nil {
		return ""
	}
	seen[v] = true
	for _, r := range *v.Referrers() {
		switch x := r.(type) {
		case *ssa.MakeSlice:
			if x.Len == v || x.Cap == v {
				return "make size"
			}
		case *ssa.IndexAddr:
			if x.Index == v {
				return "index"
			}
		case *ssa.Index:
			if x.Index == v {
				return "index"
			}
		case *ssa.Slice:
			if x.Low == v || x.High == v || x.Max == v {
				return "slice bound"
			}
		case *ssa.Convert:
			if s := narrowSink(x, seen, depth+1); s != "" {
				return s
			}
		case *ssa.ChangeType:
			if s := narrowSink(x, seen, depth+1); s != "" {
				return s
			}
		case *ssa.Phi:
			if s := narrowSink(x, seen, depth+1); s != "" {
				return s
			}
		case *ssa.BinOp:
			switch x.Op {
			case token.LSS, token.LEQ, token.GTR, token.GEQ:
				// loop bound: the comparison controls an If in a loop header
				for _, r2 := range *x.Referrers() {
					if iff, ok := r2.(*ssa.If); ok && innermostLoop(iff.Parent(), iff.Block()) != nil {
						return "loop bound"
					}
				}
			}
		}
	}
	return ""
}

// checkProtocolSwitch is R19.3 (protocol part).
func checkProtocolSwitch(c *Ctx) {
	R := c.R
	f := c.P.Func("traceroute.runTracerouteOnce")
	if f == nil {
		R.Fail("R19.3", "traceroute.runTracerouteOnce#anchor", 0, "", "anchor traceroute.runTracerouteOnce no longer resolves")
		return
	}
	fn := core.FuncName(f)
	rps, _ := core.ReturnPaths(c.P, f, 20000)
	ndefault := 0
	protos := map[string]bool{}
	for _, rp := range rps {
		matched := ""
		for _, a := range rp.Atoms {
			n := a.Norm()
			if n.Sign && n.Cond.Op == "binop" && n.Cond.Name == "==" && n.Cond.Args[0].String() == "param:params.Protocol" {
				matched = n.Cond.Args[1].Name
			}
		}
		if matched != "" {
			protos[matched] = true
			continue
		}
		ndefault++
		r0, r1 := rp.Results[0], rp.Results[1]
		R.Check(r0.IsConst("nil") && !r1.IsConst("nil"), "R19.3", fn+"#protocol-default", rp.Ret.Pos(), fn, "an unknown protocol is rejected with an error", "the protocol switch falls through to "+r0.String()+" / "+r1.String()+" for unknown protocols")
	}
	R.Floor("R19.3:protocol-default-paths", ndefault, 1)
	R.Check(protos["\"udp\""] && protos["\"tcp\""] && protos["\"icmp\""], "R19.3", fn+"#protocols", f.Pos(), fn, "udp, tcp and icmp are dispatched", fmt.Sprintf("dispatched protocols are %v", keysOf(protos)))
}

// checkDefaultPort: RunTraceroute substitutes the default port iff Port == 0.
func checkDefaultPort(c *Ctx) {
	R := c.R
	f := c.P.Func("(traceroute.Traceroute).RunTraceroute")
	if f == nil {
		R.Fail("R19.3", "traceroute.RunTraceroute#anchor", 0, "", "anchor (traceroute.Traceroute).RunTraceroute no longer resolves")
		return
	}
	fn := core.FuncName(f)
	n := 0
	// on the inlined paths of RunTraceroute (the "0 means default" rule may sit in a helper): at the call that starts the runs
	// the port argument is 33434 exactly when Port == 0 was decided, and the given port otherwise
	seen := map[string]bool{}
	for _, ip := range InlinedPaths(c.P, f, inlineOpts{pkg: core.FuncPkg(f), stop: runLayerStop}) {
		for _, ev := range ip.Events {
			if ev.Kind != "call" || !strings.HasSuffix(ev.Callee, ".runTracerouteMulti") || len(ev.Args) == 0 {
				continue
			}
			port := ev.Args[len(ev.Args)-1]
			// the request itself is handed on as it was received: no field is defaulted, clamped or rewritten on the way to the
			// validation that the per-run function performs (a bound of 0 silently turned into the default is executed, not rejected)
			if len(ev.Args) >= 2 {
				req := ev.Args[len(ev.Args)-2]
				same := req.String() == "param:params"
				if !same && req.Op == "struct" {
					// the parameter lives in an addressed local: field by field it still holds what the caller passed
					same = len(req.Args) > 0
					for _, kv := range req.Args {
						if len(kv.Args) != 1 || kv.Args[0].String() != "param:params."+kv.Name {
							same = false
						}
					}
				}
				R.Check(same, "R19.3", fn+"#request-unmodified", ev.Instr.Pos(), fn, "the runs are started with the caller's parameters unmodified", "the runs are started with "+req.String()+" instead of the caller's parameters: a field is rewritten before the range validation sees it, so an out-of-range request is executed with other values instead of being rejected")
			}
			f1, s1 := atomTrue(ip.Atoms, func(t *core.Term) bool { return t.String() == "(param:params.Port == 0)" })
			if !f1 {
				// the negated spelling
				f2, s2 := atomTrue(ip.Atoms, func(t *core.Term) bool { return t.String() == "(param:params.Port != 0)" })
				f1, s1 = f2, !s2
			}
			k := fmt.Sprintf("%v/%v", f1, s1)
			if seen[k] {
				continue
			}
			seen[k] = true
			n++
			switch {
			case f1 && s1:
				R.Check(port.IsConst("33434"), "R19.3", fn+"#default-port", ev.Instr.Pos(), fn, "Port == 0 ⇒ the default port 33434", "Port == 0 is replaced by "+port.String())
			case f1 && !s1:
				R.Check(port.String() == "param:params.Port", "R19.3", fn+"#given-port", ev.Instr.Pos(), fn, "a non-zero port is passed on unchanged", "a non-zero port becomes "+port.String())
			default:
				R.Fail("R19.3", fn+"#port", ev.Instr.Pos(), fn, "the run is started without deciding Port == 0")
			}
		}
	}
	R.Floor("R19.3:port-paths", n, 2)
}

// checkTargetPlumbing: address/port handed to each protocol constructor come from parseTarget(Hostname, port, WantV6).
func checkTargetPlumbing(c *Ctx) {
	R := c.R
	ctors := map[string][2]int{"udp.NewUDPv4": {0, 1}, "tcp.NewTCPv4": {0, 1}, "traceroute.makeSackParams": {0, 1}}
	n := 0
	for _, f := range c.P.ModFuncs {
		if core.ShortPkg(core.FuncPkg(f)) != "traceroute" {
			continue
		}
		for _, b := range f.Blocks {
			for _, in := range b.Instrs {
				call, ok := in.(*ssa.Call)
				if !ok || call.Common().StaticCallee() == nil {
					continue
				}
				idx, ok := ctors[core.FuncName(call.Common().StaticCallee())]
				if !ok {
					continue
				}
				n++
				for _, pa := range firstPath(f, b) {
					env := core.NewEnv(c.P, pa)
					// in the frame of the per-run function (the call may sit in a closure or a helper of it)
					at, ok1 := liftTerm(c, f, env.Term(call.Common().Args[idx[0]]), "traceroute.runTracerouteOnce", 0)
					pt0, ok2 := liftTerm(c, f, env.Term(call.Common().Args[idx[1]]), "traceroute.runTracerouteOnce", 0)
					if !ok1 || !ok2 {
						R.Fail("R19.3", fmt.Sprintf("%s#target[%s]", core.FuncName(f), core.FuncName(call.Common().StaticCallee())), call.Pos(), core.FuncName(f), "a protocol constructor is called from a function that is not part of the per-run function: where its target comes from is not decided")
						continue
					}
					addr := at.String()
					port := pt0.String()
					pt := "traceroute.parseTarget(param:params.Hostname, param:destinationPort, param:params.WantV6)#0"
					pt2 := "traceroute.parseTarget(free:params.Hostname, free:destinationPort, free:params.WantV6)#0"
					// inside closures the target is a captured variable
					okA := strings.Contains(addr, "(netip.AddrPort).Addr(") && (strings.Contains(addr, pt) || strings.Contains(addr, pt2))
					okP := strings.Contains(port, "(netip.AddrPort).Port(") && (strings.Contains(port, pt) || strings.Contains(port, pt2))
					key := fmt.Sprintf("%s#target[%s]", core.FuncName(f), core.FuncName(call.Common().StaticCallee()))
					R.Check(okA && okP, "R19.3", key, call.Pos(), core.FuncName(f), "constructor receives parseTarget's address and port", "constructor receives address "+addr+" and port "+port+", not parseTarget's result")
				}
			}
		}
	}
	R.Floor("R19.3:constructor-calls", n, 3)
	// the captured target really is parseTarget's result
	cnt := 0
	for _, f := range c.P.ModFuncs {
		if core.ShortPkg(core.FuncPkg(f)) != "traceroute" {
			continue
		}
		for _, b := range f.Blocks {
			for _, in := range b.Instrs {
				call, ok := in.(*ssa.Call)
				if !ok || !calleeIs(call, "traceroute.parseTarget") {
					continue
				}
				if !reachedOnlyFrom(c, f, "traceroute.runTracerouteOnce", map[*ssa.Function]bool{}) {
					continue
				}
				cnt++
				for _, pa := range firstPath(f, b) {
					env := core.NewEnv(c.P, pa)
					ht, ok1 := liftTerm(c, f, env.Term(call.Common().Args[0]), "traceroute.runTracerouteOnce", 0)
					ptm, ok2 := liftTerm(c, f, env.Term(call.Common().Args[1]), "traceroute.runTracerouteOnce", 0)
					h, p := ht.String(), ptm.String()
					okc := ok1 && ok2 && h == "param:params.Hostname" && (p == "param:destinationPort" || p == "80")
					R.Check(okc, "R19.3", fmt.Sprintf("traceroute.runTracerouteOnce#parseTarget[%s]", p), call.Pos(), core.FuncName(f), "parseTarget(Hostname, "+p+", WantV6)", "parseTarget is called with "+h+", "+p)
				}
			}
		}
	}
	R.Floor("R19.3:parseTarget-calls", cnt, 2)
}

// ttlFieldParam: the index of the parameter of f that ends up, unchanged, in the field named fname of the object f builds –
// stored by f itself or by a helper constructor that f hands the parameter to; -1 (and what is stored instead) otherwise.
func ttlFieldParam(c *Ctx, f *ssa.Function, fname string, depth int) (int, string) {
	i, path, what := ttlFieldOrigin(c, f, fname, depth)
	if path != "" {
		return -1, what
	}
	return i, what
}

// ttlFieldOrigin is ttlFieldParam's worker: the parameter may be a small by-value struct (the validated bounds) of which one
// field is stored; path names that field.
func ttlFieldOrigin(c *Ctx, f *ssa.Function, fname string, depth int) (int, string, string) {
	if depth > 3 || f == nil {
		return -1, "", ""
	}
	// value → (parameter index, field of it)
	origin := func(v ssa.Value, path string) (int, string) {
		v = c.P.Def(v)
		if path != "" {
			// the field `path` of a struct value built here: a literal whose field is assigned once
			ld, ok := v.(*ssa.UnOp)
			if ok && ld.Op == token.MUL {
				if al, ok := ld.X.(*ssa.Alloc); ok {
					var val ssa.Value
					n := 0
					for _, r := range *al.Referrers() {
						if fa, ok := r.(*ssa.FieldAddr); ok && core.FieldName(fa) == path {
							for _, r2 := range *fa.Referrers() {
								if st, ok := r2.(*ssa.Store); ok && st.Addr == ssa.Value(fa) {
									val = st.Val
									n++
								}
							}
						}
					}
					if n == 1 {
						v = c.P.Def(val)
						path = ""
					}
				}
			}
		}
		sub := ""
		if ld, ok := v.(*ssa.UnOp); ok && ld.Op == token.MUL {
			// a field of a by-value struct parameter (spilled to a local)
			if fa, ok := ld.X.(*ssa.FieldAddr); ok {
				if al, ok := fa.X.(*ssa.Alloc); ok {
					if st := core.SingleStore(al); st != nil {
						v = st.Val
						sub = core.FieldName(fa)
					}
				}
			}
		}
		if fl, ok := v.(*ssa.Field); ok {
			v = c.P.Def(fl.X)
			sub = fl.X.Type().Underlying().(*types.Struct).Field(fl.Field).Name()
		}
		if path != "" && sub != "" {
			return -1, ""
		}
		if sub == "" {
			sub = path
		}
		for i, p := range f.Params {
			if v == ssa.Value(p) {
				return i, sub
			}
		}
		return -1, ""
	}
	found, fpath, what := -1, "", ""
	note := func(i int, p string) bool {
		if found >= 0 && (found != i || fpath != p) {
			return false
		}
		found, fpath = i, p
		return true
	}
	for _, b := range f.Blocks {
		for _, in := range b.Instrs {
			switch x := in.(type) {
			case *ssa.Store:
				fa, ok := x.Addr.(*ssa.FieldAddr)
				if !ok || core.FieldName(fa) != fname {
					continue
				}
				i, p := origin(x.Val, "")
				if i < 0 {
					return -1, "", x.Val.String()
				}
				if !note(i, p) {
					return -1, "", "several values"
				}
			case *ssa.Call:
				g := x.Common().StaticCallee()
				if g == nil || !core.InModule(g) || len(g.Blocks) == 0 || x.Common().IsInvoke() {
					continue
				}
				gi, gp, _ := ttlFieldOrigin(c, g, fname, depth+1)
				if gi < 0 || gi >= len(x.Common().Args) {
					continue
				}
				i, p := origin(x.Common().Args[gi], gp)
				if i < 0 {
					return -1, "", x.Common().Args[gi].String()
				}
				if !note(i, p) {
					return -1, "", "several values"
				}
			}
		}
	}
	if found >= 0 {
		what = f.Params[found].Name()
		if fpath != "" {
			what += "." + fpath
		}
	}
	return found, fpath, what
}

// checkEnginesValidate is R19.4e: both engines run the parameter validation that rejects MinTTL > MaxTTL and MinTTL < 1 (found
// by role: the method of common whose paths compare the receiver's MinTTL with its MaxTTL). A same-named method on an outer struct
// that embeds the parameters silently replaces the promoted one at an unchanged call site.
func checkEnginesValidate(c *Ctx) {
	R := c.R
	var vf *ssa.Function
	for _, f := range c.P.ModFuncs {
		if core.ShortPkg(core.FuncPkg(f)) != "common" || f.Signature.Recv() == nil || len(f.Blocks) == 0 || f.Synthetic != "" {
			continue
		}
		if f.Signature.Results().Len() != 1 || !isErrorType(f.Signature.Results().At(0).Type()) {
			continue
		}
		rps, _ := core.ReturnPaths(c.P, f, 500)
		for _, rp := range rps {
			for _, a := range rp.Atoms {
				s := a.Cond.String()
				if a.Cond.Op == "binop" && strings.Contains(s, "recv.MinTTL") && strings.Contains(s, "recv.MaxTTL") {
					vf = f
				}
			}
		}
	}
	if vf == nil {
		R.Fail("R19.4", "common#range-validation", 0, "", "no method of package common compares the receiver's MinTTL with its MaxTTL: anchor lost")
		return
	}
	n := 0
	for _, e := range Engines(c.P) {
		n++
		reached := false
		for _, g := range ModReach(c.P, e.Fn) {
			if g == vf {
				reached = true
			}
		}
		R.Check(reached, "R19.4", e.Name+"#validates-range", e.Fn.Pos(), e.Name, "the engine runs "+core.FuncName(vf), "the engine never calls "+core.FuncName(vf)+" (the check MinTTL <= MaxTTL, MinTTL >= 1): an inverted range reaches the result table, whose re-slicing by MinTTL panics or yields an empty path instead of an error")
	}
	R.Floor("R19.4:engines-validate", n, 2)
}

// checkTTLPlumbing is R19.4.
func checkTTLPlumbing(c *Ctx) {
	R := c.R
	checkEnginesValidate(c)
	// (a) constructor arguments are plain narrowings of params.MinTTL / MaxTTL
	ctors := map[string][2]int{"udp.NewUDPv4": {2, 3}, "tcp.NewTCPv4": {2, 3}, "traceroute.makeSackParams": {2, 3}}
	n := 0
	for _, f := range c.P.ModFuncs {
		if core.ShortPkg(core.FuncPkg(f)) != "traceroute" {
			continue
		}
		for _, b := range f.Blocks {
			for _, in := range b.Instrs {
				call, ok := in.(*ssa.Call)
				if !ok || call.Common().StaticCallee() == nil {
					continue
				}
				idx, ok := ctors[core.FuncName(call.Common().StaticCallee())]
				if !ok {
					continue
				}
				n++
				for _, pa := range firstPath(f, b) {
					env := core.NewEnv(c.P, pa)
					mn, ok1 := liftTerm(c, f, env.Term(call.Common().Args[idx[0]]), "traceroute.runTracerouteOnce", 0)
					mx, ok2 := liftTerm(c, f, env.Term(call.Common().Args[idx[1]]), "traceroute.runTracerouteOnce", 0)
					if !ok1 || !ok2 {
						R.Fail("R19.4", fmt.Sprintf("%s#ttl-args[%s]", core.FuncName(f), core.FuncName(call.Common().StaticCallee())), call.Pos(), core.FuncName(f), "a protocol constructor is called from a function that is not part of the per-run function: where its TTL bounds come from is not decided")
						continue
					}
					okc := ttlOrigin(c, mn, 0) == "MinTTL" && ttlOrigin(c, mx, 0) == "MaxTTL"
					R.Check(okc, "R19.4", fmt.Sprintf("%s#ttl-args[%s]", core.FuncName(f), core.FuncName(call.Common().StaticCallee())), call.Pos(), core.FuncName(f), "TTL bounds passed through conversions only", "TTL bounds are passed as "+mn.String()+" / "+mx.String())
				}
			}
		}
	}
	R.Floor("R19.4:constructor-calls", n, 3)
	// (b) constructors store them unchanged
	for name, idx := range ctors {
		f := c.P.Func(name)
		if f == nil {
			R.Fail("R19.4", name+"#anchor", 0, "", "anchor "+name+" no longer resolves")
			continue
		}
		mnI, mnS := ttlFieldParam(c, f, "MinTTL", 0)
		mxI, mxS := ttlFieldParam(c, f, "MaxTTL", 0)
		okc := mnI == idx[0] && mxI == idx[1]
		R.Check(okc, "R19.4", name+"#stores", f.Pos(), name, "MinTTL/MaxTTL fields are the constructor's parameters unchanged", fmt.Sprintf("constructor stores MinTTL=%s MaxTTL=%s", mnS, mxS))
	}
	// (c) entry points hand the engine the config's bounds
	for _, e := range []string{"(*udp.UDPv4).Traceroute", "(*tcp.TCPv4).Traceroute"} {
		f := c.P.Func(e)
		if f == nil {
			R.Fail("R19.4", e+"#anchor", 0, "", "anchor "+e+" no longer resolves")
			continue
		}
		found := false
		for _, b := range f.Blocks {
			for _, in := range b.Instrs {
				call, ok := in.(*ssa.Call)
				if !ok || call.Common().StaticCallee() == nil {
					continue
				}
				cn := core.FuncName(call.Common().StaticCallee())
				if cn != "common.TracerouteParallel" && cn != "common.TracerouteSerial" {
					continue
				}
				for _, pa := range firstPath(f, b) {
					env := core.NewEnv(c.P, pa)
					p := env.Term(call.Common().Args[2])
					tp := core.ProjField(p, "TracerouteParams")
					mn, mx := core.ProjField(tp, "MinTTL").String(), core.ProjField(tp, "MaxTTL").String()
					found = true
					R.Check(mn == "recv.MinTTL" && mx == "recv.MaxTTL", "R19.4", e+"#engine-bounds", call.Pos(), e, "engine runs with the configured MinTTL/MaxTTL", "engine runs with MinTTL="+mn+" MaxTTL="+mx)
				}
			}
		}
		R.Check(found, "R19.4", e+"#engine-call", f.Pos(), e, "entry point calls an engine", "entry point no longer calls an engine")
	}
	// (d) engines' loop bounds
	for _, e := range Engines(c.P) {
		for _, s := range e.SendSites {
			g := s.Parent()
			loop := innermostLoop(g, s.Block())
			if loop == nil {
				R.Fail("R19.4", e.Name+"#send-loop", s.Pos(), e.Name, "SendProbe is not inside a loop")
				continue
			}
			for _, pa := range firstPath(g, s.Block()) {
				env := core.NewEnv(c.P, pa)
				arg := env.Term(s.(*ssa.Call).Common().Args[0]).StripConv()
				init := ""
				if arg.Op == "loopphi" && len(arg.Args) > 0 {
					init = arg.Args[0].String()
				}
				bound := ""
				for _, a := range env.Atoms() {
					nn := a.Norm()
					if nn.Sign && nn.Cond.Op == "binop" && nn.Cond.Name == "<=" && nn.Cond.Args[0].Key() == arg.Key() {
						bound = nn.Cond.Args[1].String()
					}
				}
				okc := strings.HasPrefix(init, "conv[int](") && strings.HasSuffix(init, ".MinTTL)") && strings.HasPrefix(bound, "conv[int](") && strings.HasSuffix(bound, ".MaxTTL)")
				R.Check(okc, "R19.4", e.Name+"#loop-bounds", s.Pos(), e.Name, "probes TTLs "+init+" .. "+bound, "send loop runs from "+init+" to "+bound+", not int(MinTTL)..int(MaxTTL)")
			}
		}
	}
	_ = sort.Strings
}

func isUintptr(t types.Type) bool {
	b, ok := t.Underlying().(*types.Basic)
	return ok && b.Kind() == types.Uintptr
}

func isPtrToNamed(t types.Type, pkg, name string) bool {
	p, ok := t.(*types.Pointer)
	if !ok {
		return false
	}
	if pp, ok := p.Elem().(*types.Pointer); ok {
		return isNamed(pp, pkg, name)
	}
	return isNamed(p.Elem(), pkg, name)
}

// paramInterval: union of the intervals of the arguments the module's call sites pass for a parameter.
// Unexported functions without module callers are dead code and contribute nothing.
func paramInterval(c *Ctx, f *ssa.Function, p *ssa.Parameter, depth int) (lo, hi float64, ok bool) {
	if depth > 3 {
		return 0, 0, false
	}
	idx := -1
	for i, q := range f.Params {
		if q == p {
			idx = i
		}
	}
	n := c.P.CallGraph().Nodes[f]
	if idx < 0 || n == nil {
		return 0, 0, false
	}
	lo, hi = math.Inf(1), math.Inf(-1)
	sites := 0
	for _, e := range n.In {
		caller := e.Caller.Func
		if !core.InModule(caller) || e.Site == nil {
			continue
		}
		args := e.Site.Common().Args
		if idx >= len(args) {
			return 0, 0, false
		}
		sites++
		al, ah := math.Inf(-1), math.Inf(1)
		for _, pa := range firstPath(caller, e.Site.Block()) {
			env := core.NewEnv(c.P, pa)
			t := env.Term(args[idx])
			al, ah = interval(t, 0)
			if q, isP := args[idx].(*ssa.Parameter); isP {
				if pl, ph, ok2 := paramInterval(c, caller, q, depth+1); ok2 {
					al, ah = math.Max(al, pl), math.Min(ah, ph)
				} else if len(c.P.CallGraph().Nodes[caller].In) == 0 && !token.IsExported(caller.Name()) {
					al, ah = math.Inf(1), math.Inf(-1) // dead caller
				}
			}
		}
		lo, hi = math.Min(lo, al), math.Max(hi, ah)
	}
	if sites == 0 {
		return 0, 0, false
	}
	return lo, hi, true
}

// ttlOrigin follows a TTL argument back to TracerouteParams.MinTTL / MaxTTL through conversions and
// through module functions that hand one of their parameters back converted (range-checking pass-throughs).
func ttlOrigin(c *Ctx, t *core.Term, depth int) string {
	if depth > 4 {
		return ""
	}
	for t.Op == "conv" {
		t = t.Args[0]
	}
	if t.Op == "field" && (t.Name == "MinTTL" || t.Name == "MaxTTL") && (t.Args[0].Op == "param" || t.Args[0].Op == "free") {
		return t.Name
	}
	if t.Op == "extract" && t.Args[0].Op == "call" {
		call := t.Args[0]
		idx := 0
		fmt.Sscan(t.Name, &idx)
		pi := resultParam(c, call, idx, depth)
		if pi < 0 || pi >= len(call.Args) {
			return ""
		}
		return ttlOrigin(c, call.Args[pi], depth+1)
	}
	return ""
}

// resultParam: which parameter of the called module function is handed back (through conversions and further helpers that do
// the same) as result #idx on every success path; -1 when there is none or it is not unique.
func resultParam(c *Ctx, call *core.Term, idx int, depth int) int {
	if depth > 5 {
		return -1
	}
	var f *ssa.Function
	if site, ok := call.Val.(*ssa.Call); ok {
		f = site.Common().StaticCallee()
	}
	if f == nil {
		for _, mf := range c.P.ModFuncs {
			if shortName(mf) == call.Name {
				f = mf
			}
		}
	}
	if f == nil || len(f.Blocks) == 0 {
		return -1
	}
	rps, _ := core.ReturnPaths(c.P, f, 2000)
	pi := -1
	var toParam func(r *core.Term, d int) int
	toParam = func(r *core.Term, d int) int {
		for r.Op == "conv" {
			r = r.Args[0]
		}
		switch {
		case r.Op == "param":
			for i, p := range f.Params {
				if p.Name() == r.Name {
					return i
				}
			}
		case r.Op == "extract" && len(r.Args) == 1 && r.Args[0].Op == "call" && d < 4:
			k := 0
			fmt.Sscan(r.Name, &k)
			inner := r.Args[0]
			j := resultParam(c, inner, k, depth+1)
			if j >= 0 && j < len(inner.Args) {
				return toParam(inner.Args[j], d+1)
			}
		}
		return -1
	}
	for _, rp := range rps {
		if len(rp.Results) == 0 || !rp.Results[len(rp.Results)-1].IsConst("nil") || idx >= len(rp.Results) {
			continue
		}
		i := toParam(rp.Results[idx], 0)
		if i < 0 || (pi >= 0 && pi != i) {
			return -1
		}
		pi = i
	}
	return pi
}

// callerArgTerms returns the terms the module's call sites pass for a parameter (transitively through parameters).
func callerArgTerms(c *Ctx, f *ssa.Function, p *ssa.Parameter, depth int) []*core.Term {
	if depth > 3 {
		return nil
	}
	idx := -1
	for i, q := range f.Params {
		if q == p {
			idx = i
		}
	}
	n := c.P.CallGraph().Nodes[f]
	if idx < 0 || n == nil {
		return nil
	}
	var out []*core.Term
	for _, e := range n.In {
		caller := e.Caller.Func
		if !core.InModule(caller) || e.Site == nil || e.Site.Common().IsInvoke() {
			continue
		}
		args := e.Site.Common().Args
		if idx >= len(args) {
			continue
		}
		for _, pa := range firstPath(caller, e.Site.Block()) {
			env := core.NewEnv(c.P, pa)
			out = append(out, env.Term(args[idx]))
		}
		if q, isP := c.P.Def(args[idx]).(*ssa.Parameter); isP {
			out = append(out, callerArgTerms(c, caller, q, depth+1)...)
		}
	}
	return out
}

// checkHTTPDecoding is R19.5: the HTTP layer hands the library exactly the integers the request states. Every integer field of
// the TracerouteParams literal built by parseTracerouteParams is a query decoder's result (only converted, or scaled by a
// constant unit); a decoder returns the parsed number itself or, only when the key is absent or not a number, its default:
// no path may replace a well-formed number by the default or transform it (the range decision belongs to the library, which
// rejects); and the handler passes that literal unmodified to RunTraceroute behind err == nil.
// checkBoolDecoders is R19.5b (shared with C17 R17.1): the HTTP front end's boolean query decoder hands back what strconv.ParseBool
// made of the value (1, t, T, TRUE, true, True and their false counterparts) and its default otherwise. A hand-rolled comparison
// accepts fewer spellings: `skip-private-hops=1` or `=True` would silently become the default and the flag would not reach the run.
func checkBoolDecoders(c *Ctx, rule string) {
	R := c.R
	sp := c.P.SSAPkgs["server"]
	n := 0
	for _, g := range c.P.ModFuncs {
		if sp == nil || core.FuncPkg(g) != sp.Pkg || g.Parent() != nil || len(g.Params) == 0 || g.Signature.Results().Len() != 1 || len(g.Blocks) == 0 {
			continue
		}
		if _, ok := g.Params[0].Type().Underlying().(*types.Map); !ok {
			continue
		}
		if bt, ok := g.Signature.Results().At(0).Type().Underlying().(*types.Basic); !ok || bt.Kind() != types.Bool {
			continue
		}
		// a generic helper that is handed the parser as a function value is judged through the decoders that call it
		hasFuncParam := false
		for _, p := range g.Params {
			if _, isSig := p.Type().Underlying().(*types.Signature); isSig {
				hasFuncParam = true
			}
		}
		if hasFuncParam {
			continue
		}
		n++
		fn := core.FuncName(g)
		parsed, handRolled := false, ""
		// helpers of the package are opened (the lookup may sit in a generic helper that receives strconv.ParseBool)
		for _, rp := range InlinedPaths(c.P, g, inlineOpts{pkg: core.FuncPkg(g)}) {
			r := rp.Results[0]
			isParse := func(call *core.Term) bool {
				if call.Op != "call" {
					return false
				}
				if call.Name == "strconv.ParseBool" {
					return true
				}
				// a call through a function value that is strconv.ParseBool
				return len(call.Args) > 0 && call.Args[0].Op == "func" && call.Args[0].Name == "strconv.ParseBool"
			}
			switch {
			case r.Op == "extract" && r.Name == "0" && len(r.Args) == 1 && isParse(r.Args[0]):
				parsed = true
			case r.Op == "param":
				// the default
			case r.IsConst("true") || r.IsConst("false"):
				handRolled = r.String()
			}
		}
		R.Check(parsed && handRolled == "", rule, fn+"#bool-decoder", g.Pos(), fn, "boolean query values are decoded by strconv.ParseBool; anything else yields the default", fmt.Sprintf("the boolean query decoder does not return strconv.ParseBool's verdict (uses ParseBool=%v, returns the constant %s on some path): spellings such as 1 / t / True are no longer understood and silently become the default, so a flag set that way never reaches the run", parsed, handRolled))
	}
	R.Floor(rule+":bool-decoders", n, 1)
}

func checkHTTPDecoding(c *Ctx) {
	R := c.R
	checkBoolDecoders(c, "R19.5")
	f := c.P.Func("server.parseTracerouteParams")
	if f == nil {
		R.Fail("R19.5", "server.parseTracerouteParams#anchor", 0, "", "anchor server.parseTracerouteParams no longer resolves")
		return
	}
	fn := core.FuncName(f)
	// a decoder: a module function that takes the query map first and returns one integer
	isDecoder := func(t *core.Term) *ssa.Function {
		if t.Op != "call" {
			return nil
		}
		g := c.P.Func(t.Name)
		if site, ok := t.Val.(*ssa.Call); ok && site.Common().StaticCallee() != nil {
			g = site.Common().StaticCallee() // the instantiation, when the decoder is generic
		}
		if g == nil || !core.InModule(g) || len(g.Params) == 0 || g.Signature.Results().Len() != 1 || len(g.Blocks) == 0 {
			return nil
		}
		if _, ok := g.Params[0].Type().Underlying().(*types.Map); !ok {
			return nil
		}
		if bits, _ := core.IntBits(g.Signature.Results().At(0).Type()); bits == 0 {
			return nil
		}
		return g
	}
	// the parsed number: result #0 of a strconv parser, called directly or through a function value bound to one
	parsedValue := func(t *core.Term) bool {
		if !(t.Op == "extract" && t.Name == "0" && len(t.Args) == 1 && t.Args[0].Op == "call") {
			return false
		}
		cl := t.Args[0]
		if strings.HasPrefix(cl.Name, "strconv.") {
			return true
		}
		return cl.Name == "dyn" && len(cl.Args) > 0 && cl.Args[0].Op == "func" && strings.HasPrefix(cl.Args[0].Name, "strconv.")
	}
	valueDependent := func(t *core.Term) bool {
		return t.Has(func(x *core.Term) bool { return parsedValue(x) || isDecoder(x) != nil })
	}
	var faithful func(call *core.Term, depth int) string
	faithful = func(call *core.Term, depth int) string {
		g := isDecoder(call)
		if g == nil {
			return "not a decoder"
		}
		if depth > 4 {
			return "decoder nesting too deep: undecided"
		}
		rps, ok := core.ReturnPaths(c.P, g, 2000)
		if !ok || len(rps) == 0 {
			return "return paths of " + core.FuncName(g) + " could not be enumerated: undecided"
		}
		// the decoder's parameters as its caller binds them (a generic decoder receives the parser as a function value)
		sub := func(z *core.Term) *core.Term {
			if z.Op == "param" {
				for i, pa := range g.Params {
					if pa.Name() == z.Name && i < len(call.Args) {
						return call.Args[i]
					}
				}
			}
			return nil
		}
		why := ""
		for _, rp := range rps {
			if rp.Ret.Block().Comment == "recover" || len(rp.Results) != 1 {
				continue
			}
			r := rp.Results[0].Subst(sub)
			for r.Op == "conv" && !r.Narrowing() {
				r = r.Args[0]
			}
			switch {
			case parsedValue(r):
			case isDecoder(r) != nil:
				if w := faithful(r, depth+1); w != "" {
					why = w
				}
			case r.Op == "param" || r.Op == "const":
				for _, a := range rp.Atoms {
					nn := a.Norm()
					cond := nn.Cond.Subst(sub)
					// the only admissible reasons for the default: key absent, empty, or not a number (parse error)
					if valueDependent(cond) && !(cond.Op == "binop" && cond.Name == "==" && cond.Args[1].IsConst("nil")) {
						why = core.FuncName(g) + " returns its default on a path that tests the decoded number (" + a.String() + "): a well-formed value is silently replaced instead of being handed to the library, which would reject it"
					}
				}
			default:
				why = core.FuncName(g) + " returns " + r.String() + ": the decoded number is transformed on the way"
			}
		}
		return why
	}
	rps, _ := core.ReturnPaths(c.P, f, 2000)
	nfields := 0
	for _, rp := range rps {
		if len(rp.Results) != 2 || !rp.Results[1].IsConst("nil") {
			continue
		}
		st := rp.Results[0]
		if !strings.HasPrefix(st.Op, "struct") {
			R.Fail("R19.5", fn+"#literal", rp.Ret.Pos(), fn, "the parameters returned on success are "+st.String()+", not a literal: undecided")
			continue
		}
		for _, kv := range st.Args {
			if kv.Op != "kv" || len(kv.Args) != 1 {
				continue
			}
			v := kv.Args[0]
			if b, _ := core.IntBits(v.Typ); b == 0 {
				// integer-valued fields only (durations are int64)
				continue
			}
			t := v
			for {
				if t.Op == "conv" && !t.Narrowing() {
					t = t.Args[0]
					continue
				}
				if t.Op == "binop" && t.Name == "*" && t.Args[1].Op == "const" {
					t = t.Args[0]
					continue
				}
				break
			}
			if t.Op == "const" {
				continue // fixed by the server (MinTTL, Delay)
			}
			nfields++
			key := fn + "#field[" + kv.Name + "]"
			g := isDecoder(t)
			if g == nil {
				R.Fail("R19.5", key, rp.Ret.Pos(), fn, "field "+kv.Name+" is "+v.String()+", not a query decoder's result (converted / scaled by a constant at most)")
				continue
			}
			if why := faithful(t, 0); why != "" {
				R.Fail("R19.5", key, rp.Ret.Pos(), fn, "field "+kv.Name+": "+why)
			} else {
				R.OK("R19.5", key, rp.Ret.Pos(), fn, kv.Name+" = "+t.Name+"(query, "+argStr(t, 1)+", default): the parsed number or, only when absent / not a number, the default")
			}
		}
	}
	R.Floor("R19.5:decoded-integer-fields", nfields, 5)
	// the handler
	h := c.P.Func("(*server.Server).TracerouteHandler")
	if h == nil {
		R.Fail("R19.5", "server.TracerouteHandler#anchor", 0, "", "anchor (*server.Server).TracerouteHandler no longer resolves")
		return
	}
	ncall := 0
	for _, b := range h.Blocks {
		for _, in := range b.Instrs {
			call, ok := in.(*ssa.Call)
			if !ok || !strings.HasSuffix(core.CalleeName(call.Common()), "RunTraceroute") {
				continue
			}
			ncall++
			for _, pa := range firstPath(h, b) {
				env := core.NewEnv(c.P, pa)
				args := call.Common().Args
				arg := env.Term(args[len(args)-1])
				okArg := arg.Op == "extract" && arg.Name == "0" && len(arg.Args) == 1 && arg.Args[0].Op == "call" && strings.HasSuffix(arg.Args[0].Name, "parseTracerouteParams")
				found, sign := atomTrue(env.Atoms(), func(t *core.Term) bool {
					return t.Op == "binop" && t.Name == "==" && t.Args[1].IsConst("nil") && t.Args[0].Op == "extract" && t.Args[0].Name == "1" && strings.HasSuffix(t.Args[0].Args[0].Name, "parseTracerouteParams")
				})
				R.Check(okArg && found && sign, "R19.5", core.FuncName(h)+"#run", call.Pos(), core.FuncName(h), "RunTraceroute receives parseTracerouteParams' result unmodified, behind err == nil", "RunTraceroute is given "+arg.String()+fmt.Sprintf(" (decode error tested: %v)", found && sign))
			}
		}
	}
	R.Floor("R19.5:handler-runs", ncall, 1)
}

func argStr(t *core.Term, i int) string {
	if i < len(t.Args) {
		return t.Args[i].String()
	}
	return "?"
}

// runLayerStop: functions the request layer calls but that are not part of its own plumbing – the multi-query layer, the
// per-run / per-probe workers – stay call events when RunTraceroute's paths are inlined.
func runLayerStop(h *ssa.Function) bool {
	if workSignature(h) {
		return true
	}
	res := h.Signature.Results()
	return res.Len() == 2 && isErrorType(res.At(1).Type()) && isNamed(res.At(0).Type(), core.ModulePath+"/result", "Results")
}
