package rules

import (
	"fmt"
	"os"

	"verif/tool/internal/core"
)

// dump prints the return paths of a function (TRCHECK_DUMP=<FuncName>) or the matchers' decision tables.
func dump() int {
	p, err := core.Load("linux", nil)
	if err != nil {
		fmt.Println(err)
		return 2
	}
	if name := os.Getenv("TRCHECK_IDUMP"); name != "" {
		f := p.Func(name)
		if f == nil {
			fmt.Println("no such function", name)
			return 2
		}
		for _, ip := range InlinedPaths(p, f, inlineOpts{pkg: core.FuncPkg(f), stop: hasLoop}) {
			fmt.Printf("  path %s\n", ip.Desc)
			for _, a := range ip.Atoms {
				fmt.Printf("      %s\n", a)
			}
			for _, e := range ip.Events {
				fmt.Printf("      ! %s %s %s locked=%v elems=%v val=%v args=%v\n", e.Kind, e.Target, e.Callee, e.Locked, e.Elems, e.Val, e.Args)
			}
			for i, r := range ip.Results {
				fmt.Printf("      => #%d = %s\n", i, r)
			}
		}
		return 0
	}
	if name := os.Getenv("TRCHECK_DUMP"); name != "" {
		f := p.Func(name)
		if f == nil {
			fmt.Println("no such function", name)
			return 2
		}
		rps, ok := core.ReturnPaths(p, f, 5000)
		fmt.Println("complete:", ok)
		for _, rp := range rps {
			fmt.Printf("  return b%d path %s\n", rp.Ret.Block().Index, rp.Path)
			for _, a := range rp.Atoms {
				fmt.Printf("      %s\n", a)
			}
			for i, r := range rp.Results {
				fmt.Printf("      => #%d = %s\n", i, r)
			}
		}
		return 0
	}
	for _, d := range Drivers(p) {
		fmt.Println("== driver", d.Name)
		for _, s := range AcceptSites(p, d) {
			fmt.Printf("  site %s in %s\n", p.PosStr(s.Alloc.Pos()), core.FuncName(s.Fn))
			for _, pa := range s.Paths {
				fmt.Printf("    path %s\n", pa.Desc)
				for _, a := range pa.Atoms {
					fmt.Printf("      %s\n", a)
				}
				for k, v := range pa.Fields {
					fmt.Printf("      => %s = %s\n", k, v)
				}
			}
		}
	}
	return 0
}
