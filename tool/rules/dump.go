package rules

import (
	"fmt"

	"verif/tool/internal/core"
)

func dump() int {
	p, err := core.Load("linux", nil)
	if err != nil {
		fmt.Println(err)
		return 2
	}
	for _, d := range Drivers(p) {
		fmt.Println("== driver", d.Name)
		for _, s := range AcceptSites(p, d) {
			fmt.Printf("  site %s in %s\n", p.PosStr(s.Alloc.Pos()), core.FuncName(s.Fn))
			for _, pa := range s.Paths {
				fmt.Printf("    path %s\n", pa.Path)
				for _, a := range pa.Atoms {
					fmt.Printf("      %s\n", a)
				}
				for k, v := range pa.Fields {
					fmt.Printf("      => %s = %s\n", k, v)
				}
			}
		}
	}
	return 0
}
