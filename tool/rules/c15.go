package rules

import (
	"fmt"
	"go/token"
	"go/types"
	"strings"

	"golang.org/x/tools/go/ssa"

	"verif/tool/internal/core"
)

func init() {
	register("C15", "Decides the all-or-error shape of a multi-query request for all query counts, failure subsets and completion orders: (R15.1) the run and probe goroutines are spawned in counted loops 0 <= i < TracerouteQueries / E2eQueries with exactly one go statement on every path through the body, each preceded by wg.Add(1) and each closure starting with defer wg.Done(); (R15.2) by path enumeration inside each closure, every path appends exactly one element to exactly one of {Runs, error list} (run closure), exactly one RTT plus one error exactly on the failure branch, that RTT being the constant 0 (probe closure), and nothing to any of them (public-IP closure), all under the one mutex; (R15.3) after wg.Wait() a non-empty error list returns (nil, errors.Join(whole list)), otherwise the accumulated document, and RunTraceroute returns (nil, err) before any enrichment; (R15.4) runE2eProbeOnce propagates the run error unchanged and maps 'no destination hop' to (0, nil). That the per-run function variable is runTracerouteOnce in production is C11 R11.3's no-global-write result. (R15.4) The result of a module function that returns a nil pointer with every error is dereferenced, in the front-end packages, only where the error is known to be nil.", runC15)
}

type appendEv struct {
	obj   string
	elems []*core.Term
	pos   ssa.Instruction
	locks bool
}

// appendsOnPath lists the append-and-store-back events along a path.
func appendsOnPath(c *Ctx, rp core.RetPath) []appendEv {
	var out []appendEv
	la := core.NewLockAnalysis(c.P)
	f := rp.Path.Fn
	for _, b := range rp.Path.Blocks {
		for _, in := range b.Instrs {
			st, ok := in.(*ssa.Store)
			if !ok {
				continue
			}
			call, ok := st.Val.(*ssa.Call)
			if !ok {
				continue
			}
			bi, ok := call.Common().Value.(*ssa.Builtin)
			if !ok || bi.Name() != "append" {
				continue
			}
			obj := la.ObjOfIn(f, "", st.Addr)
			if obj == "" {
				continue
			}
			ev := appendEv{obj: obj, pos: in}
			// appended elements: the varargs slice
			if sl, ok := call.Common().Args[1].(*ssa.Slice); ok {
				if arr, ok := sl.X.(*ssa.Alloc); ok {
					for _, r := range *arr.Referrers() {
						if ia, ok := r.(*ssa.IndexAddr); ok {
							for _, r2 := range *ia.Referrers() {
								if s2, ok := r2.(*ssa.Store); ok && s2.Addr == ssa.Value(ia) {
									ev.elems = append(ev.elems, rp.Env.Term(s2.Val))
								}
							}
						}
					}
				}
			} else {
				ev.elems = append(ev.elems, rp.Env.Term(call.Common().Args[1]))
			}
			out = append(out, ev)
		}
	}
	return out
}

func isWaitGroupGo(in ssa.Instruction) bool {
	call, ok := in.(*ssa.Call)
	if !ok {
		return false
	}
	cal := call.Common().StaticCallee()
	return cal != nil && cal.String() == "(*sync.WaitGroup).Go"
}

// multiSpawns: go statements, errgroup.Go and sync.WaitGroup.Go calls of f.
func multiSpawns(f *ssa.Function) []ssa.Instruction {
	return spawnSites(f)
}

func workSignature(h *ssa.Function) bool {
	res := h.Signature.Results()
	if res.Len() != 2 || !isErrorType(res.At(1).Type()) {
		return false
	}
	if b, ok := res.At(0).Type().Underlying().(*types.Basic); ok && b.Kind() == types.Float64 {
		return true
	}
	return isNamed(res.At(0).Type(), core.ModulePath+"/result", "TracerouteRun")
}

func runC15(c *Ctx) {
	R := c.R
	checkResultUsedAfterErrorTest(c)
	// shared with C20 (R20.5): an e2e sample of 0 means "unanswered" only if the probe was sent with the TTL that reaches the
	// destination – MinTTL = MaxTTL = the request's MaxTTL
	checkE2eOverride(c, checkSelector(c))
	f := c.P.Func("(traceroute.Traceroute).runTracerouteMulti")
	if f == nil {
		R.Fail("R15.1", "traceroute.runTracerouteMulti#anchor", 0, "", "anchor (traceroute.Traceroute).runTracerouteMulti no longer resolves")
		return
	}
	fn := core.FuncName(f)
	spawns := multiSpawns(f)
	R.Floor("R15.1:spawns", len(spawns), 3)
	kinds := map[string]int{}
	opts := inlineOpts{pkg: core.FuncPkg(f), stop: workSignature}
	for i, sp := range spawns {
		cl := spawnedClosure(c.P, sp)
		if cl == nil && isWaitGroupGo(sp) {
			if mc, ok := c.P.Def(sp.(*ssa.Call).Common().Args[1]).(*ssa.MakeClosure); ok {
				cl, _ = mc.Fn.(*ssa.Function)
			}
		}
		if cl == nil {
			R.Fail("R15.1", fmt.Sprintf("%s#spawn[%d]", fn, i), sp.Pos(), fn, "spawned function cannot be resolved")
			continue
		}
		ips := InlinedPaths(c.P, cl, opts)
		// what does the goroutine run? (its own statements or the helpers / methods they were moved into)
		kind := "other"
		var work *core.Term
		for _, ip := range ips {
			for _, ev := range ip.Events {
				if ev.Kind != "call" {
					continue
				}
				switch {
				case ev.Callee == "dyn" && len(ev.Args) > 0 && strings.Contains(ev.Args[0].String(), "runTracerouteOnceFn"):
					kind = "run"
				case strings.HasSuffix(ev.Callee, "runE2eProbeOnce"):
					kind = "probe"
				case strings.HasSuffix(ev.Callee, ".GetIP"):
					kind = "publicip"
				}
			}
		}
		_ = work
		kinds[kind]++
		key := fmt.Sprintf("%s#goroutine[%s]", fn, kind)
		// R15.1 loop shape
		if kind == "run" || kind == "probe" {
			want := map[string]string{"run": ".TracerouteQueries", "probe": ".E2eQueries"}[kind]
			loop := innermostLoop(f, sp.Block())
			okLoop := loop != nil
			bound, init := "", ""
			if okLoop {
				for _, pa := range firstPath(f, sp.Block()) {
					env := core.NewEnv(c.P, pa)
					for _, a := range env.Atoms() {
						nn := a.Norm()
						if nn.Sign && nn.Cond.Op == "binop" && nn.Cond.Name == "<" && strings.HasSuffix(nn.Cond.Args[1].String(), want) {
							lhs := nn.Cond.Args[0]
							// `for i := 0; i < n; i++` (the counter) or `for i := range n` (rangeindex+1 in go/ssa's lowering)
							if lhs.Op == "loopphi" || lhs.Has(func(z *core.Term) bool { return z.Op == "loopphi" }) {
								bound = nn.Cond.Args[1].String()
								lhs.Walk(func(z *core.Term) bool {
									if z.Op == "loopphi" && len(z.Args) > 0 {
										init = z.Args[0].String()
									}
									return true
								})
								if lhs.Op == "binop" && lhs.Name == "+" && init == "-1" {
									init = "0" // rangeindex starts at -1 and is incremented before the test
								}
							}
						}
					}
				}
				// rotated lowering of `for i := range n` / `for range n`: the counter is a phi of the loop (0, phi+1) and the
				// test `phi+1 < n` sits at the latch, so the first path to the spawn only carries the entry guard `0 < n`
				if bound == "" {
					for b := range loop {
						for _, in := range b.Instrs {
							phi, ok := in.(*ssa.Phi)
							if !ok {
								break
							}
							zero, step := false, false
							for _, ed := range phi.Edges {
								if cst, ok := ed.(*ssa.Const); ok && cst.Value != nil && cst.Int64() == 0 {
									zero = true
								}
								if bo, ok := ed.(*ssa.BinOp); ok && bo.Op == token.ADD && bo.X == ssa.Value(phi) {
									if cst, ok := bo.Y.(*ssa.Const); ok && cst.Value != nil && cst.Int64() == 1 {
										step = true
									}
								}
							}
							if !zero || !step {
								continue
							}
							for lb := range loop {
								iff, ok := lb.Instrs[len(lb.Instrs)-1].(*ssa.If)
								if !ok {
									continue
								}
								bo, ok := iff.Cond.(*ssa.BinOp)
								if !ok || bo.Op != token.LSS {
									continue
								}
								x := bo.X
								if add, ok := x.(*ssa.BinOp); ok && add.Op == token.ADD {
									x = add.X
								}
								if x != ssa.Value(phi) {
									continue
								}
								for _, pa := range firstPath(f, lb) {
									if y := core.NewEnv(c.P, pa).Term(bo.Y).String(); strings.HasSuffix(y, want) {
										bound, init = y, "0"
									}
								}
							}
						}
					}
				}
				// the go statement is passed on every iteration: its block dominates every latch of its loop
				for b := range loop {
					for _, s := range b.Succs {
						if loop[s] && s.Dominates(b) && s != b { // latch b → header s
							if !sp.Block().Dominates(b) {
								okLoop = false
							}
						}
					}
				}
			}
			R.Check(okLoop && bound != "" && init == "0", "R15.1", key+"/loop", sp.Pos(), fn, "one goroutine per i in 0.."+bound+", spawned on every iteration", fmt.Sprintf("spawn loop is not `for i := 0; i < params%s; i++` with the go statement on every iteration (init=%q bound=%q every-iteration=%v)", want, init, bound, okLoop))
			// no early exit from the loop body: exits only from the header
			if loop != nil {
				exits := 0
				for b := range loop {
					for _, s := range b.Succs {
						if !loop[s] {
							exits++
						}
					}
				}
				R.Check(exits == 1, "R15.1", key+"/no-early-exit", sp.Pos(), fn, "the spawn loop is left only when the counter reaches the requested count", fmt.Sprintf("the spawn loop has %d exits: fewer goroutines than requested may be started", exits))
			}
		}
		// wg.Add(1) dominates the go, closure starts with defer wg.Done() – or sync.WaitGroup.Go, which is exactly that pair
		addOK, doneFirst := isWaitGroupGo(sp), isWaitGroupGo(sp)
		for _, b := range f.Blocks {
			for _, in := range b.Instrs {
				if call, ok := in.(*ssa.Call); ok && call.Common().StaticCallee() != nil && call.Common().StaticCallee().String() == "(*sync.WaitGroup).Add" {
					if cst, ok := call.Common().Args[1].(*ssa.Const); ok && cst.Int64() == 1 && core.InstrDominates(in, sp) && (innermostLoop(f, b) == nil || innermostLoop(f, b)[sp.Block()]) {
						if innermostLoop(f, sp.Block()) == nil || innermostLoop(f, sp.Block())[b] {
							addOK = true
						}
					}
				}
			}
		}
		if len(cl.Blocks) > 0 && len(cl.Blocks[0].Instrs) > 0 {
			if d, ok := cl.Blocks[0].Instrs[0].(*ssa.Defer); ok && d.Call.StaticCallee() != nil && d.Call.StaticCallee().String() == "(*sync.WaitGroup).Done" {
				doneFirst = true
			}
		}
		R.Check(addOK && doneFirst, "R15.1", key+"/waitgroup", sp.Pos(), fn, "wg.Add(1) precedes the go statement in the same iteration and the closure starts with defer wg.Done() (or sync.WaitGroup.Go)", fmt.Sprintf("WaitGroup accounting broken: Add(1) before go=%v, defer Done() first=%v", addOK, doneFirst))
		// R15.2 per-path appends, with the helpers / locked accessor methods of the package opened in place
		np := 0
		seenCase := map[string]bool{}
		for _, ip := range ips {
			np++
			cnt := map[string]int{}
			var zeroRTT, rttFromProbe bool
			for _, ev := range ip.Events {
				if ev.Kind != "append" {
					continue
				}
				short := map[string]string{"Runs": "Runs", "RTTs": "RTTs", "[]error": "errors"}[ev.Target]
				if short == "" {
					short = ev.Target
				}
				cnt[short]++
				if short == "RTTs" {
					for _, e := range ev.Elems {
						if e.IsConst("0") {
							zeroRTT = true
						}
						if e.Op == "extract" && e.Name == "0" && isCallToSuffix(e.Args[0], "runE2eProbeOnce") {
							rttFromProbe = true
						}
					}
				}
			}
			failed := false
			for _, a := range ip.Atoms {
				nn := a.Norm()
				if nn.Cond.Op == "binop" && nn.Cond.Name == "==" && nn.Cond.Args[1].IsConst("nil") && nn.Cond.Args[0].Op == "extract" && nn.Cond.Args[0].Name == "1" && !nn.Sign {
					failed = true
				}
			}
			pkey := fmt.Sprintf("%s/path[failed=%v]", key, failed)
			seenCase[fmt.Sprint(failed)] = true
			switch kind {
			case "run":
				ok := (failed && cnt["errors"] == 1 && cnt["Runs"] == 0) || (!failed && cnt["errors"] == 0 && cnt["Runs"] == 1)
				if ok && cnt["RTTs"] == 0 {
					R.OK("R15.2", pkey, cl.Pos(), core.FuncName(cl), fmt.Sprintf("appends %v", cnt))
				} else {
					R.FailPath("R15.2", pkey, cl.Pos(), core.FuncName(cl), fmt.Sprintf("a run goroutine path (failed=%v) appends %v: it must add exactly one element to exactly one of Runs / the error list", failed, cnt), ip.Desc)
				}
			case "probe":
				ok := cnt["RTTs"] == 1 && cnt["Runs"] == 0 && ((failed && cnt["errors"] == 1 && zeroRTT) || (!failed && cnt["errors"] == 0 && rttFromProbe))
				if ok {
					R.OK("R15.2", pkey, cl.Pos(), core.FuncName(cl), fmt.Sprintf("appends %v (RTT 0 on failure=%v)", cnt, zeroRTT))
				} else {
					R.FailPath("R15.2", pkey, cl.Pos(), core.FuncName(cl), fmt.Sprintf("a probe goroutine path (failed=%v) appends %v (zero RTT=%v, measured RTT=%v): it must add exactly one RTT sample (0 on failure) and one error exactly on failure", failed, cnt, zeroRTT, rttFromProbe), ip.Desc)
				}
			case "publicip":
				ok := cnt["errors"] == 0 && cnt["Runs"] == 0 && cnt["RTTs"] == 0
				R.Check(ok, "R15.2", pkey, cl.Pos(), core.FuncName(cl), "public-IP goroutine touches neither the error list nor the samples", fmt.Sprintf("public-IP goroutine appends %v: a public-IP failure must never fail the request", cnt))
			default:
				R.Fail("R15.2", pkey, cl.Pos(), core.FuncName(cl), "an unrecognised goroutine is started by the multi-query layer: re-confirm R15")
			}
		}
		R.Floor("R15.2:paths:"+kind, len(seenCase), 2)
		_ = np
	}
	R.Check(kinds["run"] == 1 && kinds["probe"] == 1 && kinds["publicip"] == 1, "R15.1", fn+"#goroutine-kinds", f.Pos(), fn, "one spawn site each for runs, probes and public IP", fmt.Sprintf("spawn sites by kind: %v", kinds))
	// R15.3: after Wait, any recorded failure ⇒ (nil, errors.Join(all)); none ⇒ the accumulated document
	var waits []ssa.Instruction
	for _, b := range f.Blocks {
		for _, in := range b.Instrs {
			if isWaitCall(in) {
				waits = append(waits, in)
			}
		}
	}
	isErrList := func(t *core.Term) bool {
		if t == nil || t.Typ == nil {
			return false
		}
		sl, ok := t.Typ.Underlying().(*types.Slice)
		return ok && isErrorType(sl.Elem())
	}
	hasErrList := func(t *core.Term) bool { return t.Has(isErrList) }
	nret := 0
	seen := map[string]bool{}
	for _, ip := range InlinedPaths(c.P, f, inlineOpts{pkg: core.FuncPkg(f), stop: workSignature}) {
		r0, r1 := ip.Results[0], ip.Results[1]
		// the decision: len(errs) > 0, or errors.Join(errs...) != nil
		decided, failedCase := false, false
		for _, a := range ip.Atoms {
			nn := a.Norm()
			t := nn.Cond
			switch {
			case t.Op == "binop" && t.Name == ">" && t.Args[0].Op == "len" && hasErrList(t.Args[0]) && t.Args[1].IsConst("0"):
				decided, failedCase = true, nn.Sign
			case t.Op == "binop" && t.Name == "==" && t.Args[0].Op == "len" && hasErrList(t.Args[0]) && t.Args[1].IsConst("0"):
				decided, failedCase = true, !nn.Sign
			case t.Op == "binop" && t.Name == "==" && t.Args[1].IsConst("nil") && t.Args[0].Op == "call" && t.Args[0].Name == "errors.Join" && hasErrList(t.Args[0]):
				decided, failedCase = true, !nn.Sign
			}
		}
		key := fmt.Sprintf("%s#return[failures=%v]", fn, failedCase)
		if !decided {
			key = fmt.Sprintf("%s#return[b%d]", fn, ip.Ret.Block().Index)
		}
		if seen[key] {
			continue
		}
		seen[key] = true
		nret++
		dom := false
		for _, w := range waits {
			if core.InstrDominates(w, ip.Ret) {
				dom = true
			}
		}
		switch {
		case !dom:
			R.Fail("R15.3", key, ip.Ret.Pos(), fn, "a return is not dominated by wg.Wait(): results may be incomplete")
		case !decided:
			R.Fail("R15.3", key, ip.Ret.Pos(), fn, "a return does not depend on whether a failure was recorded (len(errs) > 0 / errors.Join(errs...) != nil)")
		case failedCase:
			ok := r0.IsConst("nil") && r1.Op == "call" && r1.Name == "errors.Join" && hasErrList(r1) && !strings.Contains(r1.String(), "slice(")
			R.Check(ok, "R15.3", key, ip.Ret.Pos(), fn, "any failure ⇒ (nil, errors.Join(all failures))", "with failures recorded the function returns "+r0.String()+", "+r1.String()+" instead of (nil, errors.Join(all failures...))")
		default:
			isDoc := r0.Typ != nil && isNamed(r0.Typ, core.ModulePath+"/result", "Results") && !r0.IsConst("nil")
			R.Check(r1.IsConst("nil") && isDoc, "R15.3", key, ip.Ret.Pos(), fn, "no failure ⇒ the accumulated document", "without failures the function returns "+r0.String()+", "+r1.String())
		}
	}
	R.Floor("R15.3:returns", nret, 2)
	// RunTraceroute returns (nil, err) before enrichment
	g := c.P.Func("(traceroute.Traceroute).RunTraceroute")
	if g == nil {
		R.Fail("R15.3", "traceroute.RunTraceroute#anchor", 0, "", "anchor RunTraceroute no longer resolves")
	} else {
		nerr := 0
		for _, ip := range InlinedPaths(c.P, g, inlineOpts{pkg: core.FuncPkg(g), stop: runLayerStop}) {
			f1, s1 := atomTrue(ip.Atoms, func(t *core.Term) bool {
				return t.Op == "binop" && t.Name == "==" && t.Args[1].IsConst("nil") && t.Args[0].Op == "extract" && isCallToSuffix(t.Args[0].Args[0], ".runTracerouteMulti")
			})
			if !f1 {
				R.Fail("R15.3", core.FuncName(g)+"#unchecked", ip.Ret.Pos(), core.FuncName(g), "a return path does not test the error of runTracerouteMulti")
				continue
			}
			if s1 {
				continue
			}
			nerr++
			// no enrichment call on the failing path
			called := ""
			for _, ev := range ip.Events {
				if ev.Kind == "call" && strings.HasPrefix(ev.Callee, "(*result.Results).") {
					called = ev.Callee
				}
			}
			okc := ip.Results[0].IsConst("nil") && ip.Results[1].Op == "extract" && called == ""
			R.Check(okc, "R15.3", core.FuncName(g)+"#error-return", ip.Ret.Pos(), core.FuncName(g), "a failed request returns (nil, err) before any enrichment", "a failed request returns "+ip.Results[0].String()+" / "+ip.Results[1].String()+" (enrichment called: "+called+")")
		}
		R.Floor("R15.3:RunTraceroute-error-paths", nerr, 1)
	}
	// R15.4
	runR043(c)
	h := c.P.Func("traceroute.runE2eProbeOnce")
	if h != nil {
		rps3, _ := core.ReturnPaths(c.P, h, 2000)
		for _, rp := range rps3 {
			if !rp.Results[1].IsConst("nil") {
				ok := rp.Results[1].Op == "extract" && rp.Results[1].Args[0].Op == "call"
				R.Check(ok, "R15.4", core.FuncName(h)+"#error-unchanged", rp.Ret.Pos(), core.FuncName(h), "the run error is propagated unchanged", "the run error is replaced by "+rp.Results[1].String())
			}
		}
	}
	// mutex discipline of the accumulators
	checkClosures(c)
}

// checkResultUsedAfterErrorTest is R15.4: 'if any of them fails the call returns an error ... and no result'. The aggregator
// returns a nil result together with the joined error, so its caller may touch the result only where the error is known to be nil:
// a field access that precedes the error test is a nil dereference exactly on the failing requests (a panic instead of the error).
// Decided for every call, in the front-end packages, of a module function that returns (pointer, error) with a nil pointer on each
// of its error paths.
func checkResultUsedAfterErrorTest(c *Ctx) {
	R := c.R
	n := 0
	nilOnError := map[*ssa.Function]bool{}
	decided := map[*ssa.Function]bool{}
	for _, f := range c.P.ModFuncs {
		pk := core.ShortPkg(core.FuncPkg(f))
		if pk != "traceroute" && pk != "server" && pk != "cmd" || strings.Contains(core.FuncName(f), "Mock") {
			continue
		}
		fn := core.FuncName(f)
		for _, b := range f.Blocks {
			for _, in := range b.Instrs {
				call, ok := in.(*ssa.Call)
				if !ok {
					continue
				}
				h := call.Common().StaticCallee()
				if h == nil || !core.InModule(h) || len(h.Blocks) == 0 {
					continue
				}
				res := h.Signature.Results()
				if res.Len() != 2 || !isErrorType(res.At(1).Type()) {
					continue
				}
				if _, isPtr := res.At(0).Type().Underlying().(*types.Pointer); !isPtr {
					continue
				}
				if !decided[h] {
					decided[h] = true
					rps, complete := core.ReturnPaths(c.P, h, 3000)
					okNil := complete && len(rps) > 0
					for _, rp := range rps {
						if rp.Ret.Block().Comment == "recover" {
							continue
						}
						if !rp.Results[1].IsConst("nil") && !rp.Results[0].IsConst("nil") {
							okNil = false
						}
					}
					nilOnError[h] = okNil
				}
				if !nilOnError[h] {
					continue
				}
				var ptr, errv ssa.Value
				for _, r := range *call.Referrers() {
					if ex, ok := r.(*ssa.Extract); ok {
						if ex.Index == 0 {
							ptr = ex
						} else {
							errv = ex
						}
					}
				}
				if ptr == nil || errv == nil {
					continue
				}
				for _, r := range *ptr.Referrers() {
					var use ssa.Instruction
					switch x := r.(type) {
					case *ssa.FieldAddr:
						if x.X == ptr {
							use = x
						}
					case *ssa.UnOp:
						if x.X == ptr && x.Op == token.MUL {
							use = x
						}
					}
					if use == nil {
						continue
					}
					n++
					conds, truth := domFacts(use.Block())
					known := false
					for i, cd := range conds {
						if bo, ok := cd.(*ssa.BinOp); ok && bo.X == errv {
							if k, isK := bo.Y.(*ssa.Const); isK && k.Value == nil {
								if bo.Op == token.NEQ && !truth[i] || bo.Op == token.EQL && truth[i] {
									known = true
								}
							}
						}
					}
					key := fmt.Sprintf("%s#result-of[%s]@b%d", fn, core.FuncName(h), use.Block().Index)
					R.Check(known, "R15.4", key, use.Pos(), fn, "the result of "+core.FuncName(h)+" is touched only where its error is known to be nil", "the result of "+core.FuncName(h)+" is dereferenced at "+c.P.PosStr(use.Pos())+" before its error was tested: "+core.FuncName(h)+" returns a nil result with every error, so a failing request panics instead of returning the error that exposes the failures")
				}
			}
		}
	}
	// no floor: where the aggregator's "nil result with every error" cannot be established (a collector's finish() method, a
	// constructor) the clause has nothing to say; the count is reported
	R.Analysed["R15.4_result_uses"] = n
}
