package rules

import (
	"fmt"
	"go/token"
	"go/types"
	"sort"
	"strings"

	"golang.org/x/tools/go/ssa"

	"verif/tool/internal/core"
)

func init() {
	register("C20", "Decides the TCP method policy structurally: (R20.1) the decision table of performTCPFallback over the method constants: syn calls only the SYN implementation, sack only the SACK implementation and returns its results unchanged, prefer_sack calls SACK and then SYN exactly when errors.As finds a *sack.NotSupportedError, returning every other failure wrapped with %w, unknown methods are an error; (R20.2) the census of sites that create a sack.NotSupportedError equals the reviewed set (dial failure, platform cannot hold a second socket, handshake without SACK-permitted, ACK without SACK blocks), keyed by function and wrapped cause, so that wrapping a filter/send/read failure into it (turning a fatal failure into a silent fallback) is reported; (R20.3) along every call path from those sites up to the selector each wrapping preserves the class (errors.As finds it at any depth); (R20.4) no connection-opening call (Dialer.DialContext, net.Dial on a non-UDP network, dialSackTCP) is reachable from the SYN traceroute in the module call graph, with the SACK path as positive control; (R20.5) every method the selector routes to SACK is rewritten to SYN by runE2eProbeOnce on every path before the per-run function is called. Whether real targets produce those situations needs a network and is not decided. The census is keyed by creating function and kind of cause with the reviewed number of sites, not by message text. (R20.6) The scan for the SACK-permitted option is not left early on a path that ends in the 'unsupported' verdict. (R20.7) The receive-path verdict is raised only for a plain ACK (SYN, FIN, RST clear) on the probed flow. A verdict whose chain carries a retryable wrapper is reported (the engines would skip it). E2e probes run with MinTTL = MaxTTL = the request's MaxTTL. Shares R10.7 (no return between a poll and the classification of its result): the capability verdict of the last poll reaches the selector. (R20.7) Conversely, no segment on the probed flow with SYN, FIN and RST clear is dismissed before its options reach the SACK scan.", runC20)
	darwinRules["C20"] = runC20
}

// The reviewed census of R20.2 is keyed by REGION of the SACK implementation and kind of cause, not by function names or
// message text (moving a switch arm into a method, extracting the socket set-up into a helper or rewording a message is not
// a change of behaviour):
//
//	recv      – the call tree of the SACK driver's ReceiveProbe: exactly one verdict, created under a guard on the reply
//	            (an acknowledgement without SACK blocks);
//	handshake – the call tree of ReadHandshake outside recv: exactly one verdict under a guard (SYN-ACK without SACK-permitted);
//	setup     – the rest of RunSackTraceroute's tree: any failure of the function that dials the target (io), and exactly one
//	            verdict created under a guard / state test (the platform cannot hold a second socket on the port).
type nsSite struct {
	region string
	fn     *ssa.Function
	pos    token.Pos
	origin string
	cause  string
	ok     bool
	why    string
}

func sackRegions(c *Ctx) (regionOf func(f *ssa.Function) string, okAnchors bool) {
	var recvF, hsF, entry *ssa.Function
	for _, d := range Drivers(c.P) {
		if d.Pkg == "sack" {
			recvF = d.ReceiveProbe
		}
	}
	hsF = c.P.Func("(*sack.sackDriver).ReadHandshake")
	entry = c.P.Func("sack.RunSackTraceroute")
	if recvF == nil || hsF == nil || entry == nil {
		return func(*ssa.Function) string { return "" }, false
	}
	inRecv, inHs, inEntry := map[*ssa.Function]bool{}, map[*ssa.Function]bool{}, map[*ssa.Function]bool{}
	for _, f := range ModReach(c.P, recvF) {
		inRecv[f] = true
	}
	for _, f := range ModReach(c.P, hsF) {
		inHs[f] = true
	}
	for _, f := range ModReach(c.P, entry) {
		inEntry[f] = true
	}
	return func(f *ssa.Function) string {
		switch {
		case inRecv[f]:
			return "recv"
		case inHs[f]:
			return "handshake"
		case inEntry[f]:
			return "setup"
		}
		return ""
	}, true
}

// notSupportedCensus enumerates every creation of a sack.NotSupportedError with its region and verdict.
func notSupportedCensus(c *Ctx) (sites []nsSite, counts map[string]int, anchors bool) {
	regionOf, anchors := sackRegions(c)
	ea := NewErrAnalysis(c)
	counts = map[string]int{}
	seen := map[string]bool{}
	for _, f := range c.P.ModFuncs {
		for _, b := range f.Blocks {
			for _, in := range b.Instrs {
				mi, ok := in.(*ssa.MakeInterface)
				if !ok || wrapperTag(mi.X.Type()) != "NotSupported" {
					continue
				}
				// the literal itself, or the result of a constructor that returns *NotSupportedError
				var viaCtor []ErrClass
				if _, isAlloc := mi.X.(*ssa.Alloc); !isAlloc {
					call, isCall := mi.X.(*ssa.Call)
					if !isCall || call.Common().StaticCallee() == nil {
						continue
					}
					g := call.Common().StaticCallee()
					idx := ctorResultParam(g)
					if idx < 0 || idx >= len(call.Common().Args) {
						continue
					}
					viaCtor = ea.classOf(call.Common().Args[idx], f, map[ssa.Value]bool{}).sorted()
					if len(viaCtor) == 0 {
						continue
					}
				}
				// a constructor (`func unsupported(cause error) error { return &NotSupportedError{Err: cause} }`): the verdicts
				// are its call sites, classified by the argument they pass
				type occ struct {
					fn  *ssa.Function
					pos token.Pos
					cls []ErrClass
				}
				var occs []occ
				if prm := ctorParam(mi); prm != nil && viaCtor == nil {
					idx := -1
					for k, q := range f.Params {
						if q == prm {
							idx = k
						}
					}
					if n := c.P.CallGraph().Nodes[f]; n != nil && idx >= 0 {
						for _, ie := range n.In {
							if ie.Caller.Func == nil || !core.InModule(ie.Caller.Func) || ie.Site.Common().IsInvoke() {
								continue
							}
							args := ie.Site.Common().Args
							off := len(f.Params) - len(args)
							if off < 0 || idx-off < 0 || idx-off >= len(args) {
								continue
							}
							occs = append(occs, occ{ie.Caller.Func, ie.Site.Pos(), ea.classOf(args[idx-off], ie.Caller.Func, map[ssa.Value]bool{}).sorted()})
						}
					}
				}
				if viaCtor != nil {
					occs = []occ{{f, mi.Pos(), viaCtor}}
				}
				if len(occs) == 0 {
					occs = []occ{{f, mi.Pos(), ea.classOf(mi, f, map[ssa.Value]bool{}).sorted()}}
				}
				for _, oc := range occs {
					f := oc.fn
					region := regionOf(f)
					for _, e := range oc.cls {
						st := nsSite{region: region, fn: f, pos: oc.pos, origin: e.Origin, cause: e.Cause}
						dial := false
						if e.Fn != nil {
							for _, g := range ModReach(c.P, e.Fn) {
								if len(dialCalls(c, []*ssa.Function{g})) > 0 {
									dial = true
								}
							}
						}
						kind := ""
						switch {
						case region == "setup" && dial && e.Fn != f:
							kind = "setup/dial"
							st.ok, st.why = true, "failure of the function that dials the target"
						case region == "setup" && (e.Cause == "guard" || e.Cause == "state"):
							kind = "setup/guard"
							st.ok, st.why = true, "verdict created under a test of the platform / socket state"
						case region == "handshake" && e.Cause == "guard":
							kind = "handshake/guard"
							st.ok, st.why = true, "verdict created under a guard on the handshake reply"
						case region == "recv" && e.Cause == "guard":
							kind = "recv/guard"
							st.ok, st.why = true, "verdict created under a guard on the reply"
						default:
							st.why = "a " + e.Cause + " failure in the " + region + " region"
						}
						if kind != "" && kind != "setup/dial" && !seen[kind+"|"+e.Origin] {
							seen[kind+"|"+e.Origin] = true
							counts[kind]++
						}
						if kind == "setup/dial" {
							counts[kind] = 1
						}
						sites = append(sites, st)
					}
				}
			}
		}
	}
	return sites, counts, anchors
}

// ctorParam: the NotSupportedError literal behind mi wraps a parameter of its function directly (a constructor).
func ctorParam(mi *ssa.MakeInterface) *ssa.Parameter {
	al, ok := mi.X.(*ssa.Alloc)
	if !ok {
		return nil
	}
	for _, r := range *al.Referrers() {
		fa, ok := r.(*ssa.FieldAddr)
		if !ok || core.FieldName(fa) != "Err" {
			continue
		}
		for _, r2 := range *fa.Referrers() {
			if st, ok := r2.(*ssa.Store); ok && st.Addr == ssa.Value(fa) {
				if p, ok := st.Val.(*ssa.Parameter); ok {
					return p
				}
			}
		}
	}
	return nil
}

func runC20(c *Ctx) {
	R := c.R
	sackMethods := checkSelector(c)
	checkNotSupportedCensus(c)
	checkClassSurvives(c)
	checkSynNoDial(c)
	checkE2eOverride(c, sackMethods)
	checkOptionScan(c)
	checkRecvVerdictGuard(c)
	// shared with C10 (R10.7): the capability verdict reaches the selector only if the engine looks at what every poll returned
	checkPollResultClassified(c)
	_ = R
}

// checkSelector is R20.1; returns the method constants routed to the SACK implementation.
// checkOptionScan is R20.6: 'no SACK-permitted in the handshake' is what the NotSupported verdict of the handshake claims, so
// the scan that looks for the option has to look at every option: the loop that tests an option kind against SACK-permitted may
// be left before exhaustion only towards an outcome that is not that verdict – in a helper that returns the flag, an early
// return must return constant true; in a function that builds the verdict itself, an early exit must not reach a NotSupportedError.
func checkOptionScan(c *Ctx) {
	R := c.R
	sp := c.P.SSAPkgs["sack"]
	if sp == nil {
		R.Fail("R20.6", "sack#option-scan", 0, "", "package sack no longer resolves")
		return
	}
	isSackPermittedConst := func(v ssa.Value) bool {
		k, ok := v.(*ssa.Const)
		if !ok || k.Value == nil || !isNamed(k.Type(), "github.com/google/gopacket/layers", "TCPOptionKind") {
			return false
		}
		return k.Int64() == 4
	}
	n := 0
	for _, g := range c.P.ModFuncs {
		if core.FuncPkg(g) != sp.Pkg || strings.Contains(core.FuncName(g), "Mock") {
			continue
		}
		var cmpBlock *ssa.BasicBlock
		for _, b := range g.Blocks {
			for _, in := range b.Instrs {
				if bo, ok := in.(*ssa.BinOp); ok && bo.Op == token.EQL && (isSackPermittedConst(bo.X) || isSackPermittedConst(bo.Y)) {
					cmpBlock = b
				}
			}
		}
		if cmpBlock == nil {
			continue
		}
		gn := core.FuncName(g)
		loop := innermostLoop(g, cmpBlock)
		if loop == nil {
			R.Fail("R20.6", gn+"#option-scan", g.Pos(), gn, "the SACK-permitted option kind is tested outside a loop over the options: undecided")
			continue
		}
		n++
		// the header is the block of the loop that dominates all others
		var header *ssa.BasicBlock
		for b := range loop {
			dom := true
			for o := range loop {
				if !b.Dominates(o) {
					dom = false
				}
			}
			if dom {
				header = b
			}
		}
		early := map[[2]*ssa.BasicBlock]bool{}
		for b := range loop {
			if b == header {
				continue
			}
			for _, s := range b.Succs {
				if !loop[s] {
					early[[2]*ssa.BasicBlock{b, s}] = true
				}
			}
		}
		// judged where the verdict is built: in every function of the package that constructs a NotSupportedError and runs this
		// scan (g itself, or a caller that opens it), no inlined path that leaves the scan loop early may return that error
		bad := ""
		var roots []*ssa.Function
		for _, h := range c.P.ModFuncs {
			if core.FuncPkg(h) != sp.Pkg || len(h.Blocks) == 0 {
				continue
			}
			builds := false
			for _, hb := range h.Blocks {
				for _, in := range hb.Instrs {
					if al, ok := in.(*ssa.Alloc); ok && isNamed(al.Type(), core.ModulePath+"/sack", "NotSupportedError") {
						builds = true
					}
				}
			}
			if !builds {
				continue
			}
			if h == g {
				roots = append(roots, h)
				continue
			}
			for _, hb := range h.Blocks {
				for _, in := range hb.Instrs {
					if call, ok := in.(*ssa.Call); ok && call.Common().StaticCallee() == g {
						roots = append(roots, h)
					}
				}
			}
		}
		if len(roots) == 0 {
			R.Fail("R20.6", gn+"#option-scan", g.Pos(), gn, "no function of the package both runs this scan and builds the NotSupportedError: undecided")
			continue
		}
		for _, root := range roots {
			for _, ip := range InlinedPaths(c.P, root, inlineOpts{pkg: sp.Pkg, stop: func(h *ssa.Function) bool { return h != g && hasLoop(h) }}) {
				viaEarly := false
				for i := 0; i+1 < len(ip.Blocks); i++ {
					if early[[2]*ssa.BasicBlock{ip.Blocks[i], ip.Blocks[i+1]}] {
						viaEarly = true
					}
				}
				if !viaEarly {
					continue
				}
				for _, r := range ip.Results {
					if r != nil && r.Has(func(x *core.Term) bool {
						al, ok := x.Val.(*ssa.Alloc)
						return ok && x.Op == "alloc" && isNamed(al.Type(), core.ModulePath+"/sack", "NotSupportedError")
					}) {
						bad = "is left early on a path of " + core.FuncName(root) + " that ends in the NotSupportedError at " + c.P.PosStr(ip.Ret.Pos())
					}
				}
			}
		}
		R.Check(bad == "", "R20.6", gn+"#option-scan", g.Pos(), gn, fmt.Sprintf("the SACK-permitted scan looks at every option (%d early exits, none towards the 'unsupported' verdict)", len(early)), "the scan for the SACK-permitted option "+bad+": an option placed after the exit point is never seen and a SACK-capable target is reported as unsupported (prefer_sack then falls back although SACK is available)")
	}
	R.Floor("R20.6:option-scans", n, 1)
}

func checkSelector(c *Ctx) []string {
	R := c.R
	f := c.P.Func("traceroute.performTCPFallback")
	if f == nil {
		R.Fail("R20.1", "traceroute.performTCPFallback#anchor", 0, "", "anchor traceroute.performTCPFallback no longer resolves")
		return nil
	}
	fn := core.FuncName(f)
	// inlined paths: the decision table is read off the selector with its helpers (a prefer_sack helper taking the two
	// implementations as function values, ...) opened; an implementation call is a call of one of the selector's own function
	// parameters, the method is the selector's TCPMethod-typed parameter whatever it is called
	ips := InlinedPaths(c.P, f, inlineOpts{pkg: core.FuncPkg(f)})
	if len(ips) == 0 {
		R.Fail("R20.1", fn+"#enumeration", f.Pos(), fn, "paths cannot be enumerated: undecided")
		return nil
	}
	methodParam := ""
	fnParams := map[string]bool{}
	for _, p := range f.Params {
		if _, isSig := p.Type().Underlying().(*types.Signature); isSig {
			fnParams["param:"+p.Name()] = true
		} else if b, ok := p.Type().Underlying().(*types.Basic); ok && b.Kind() == types.String {
			methodParam = "param:" + p.Name()
		}
	}
	type rowRP struct {
		Results []*core.Term
		Atoms   []core.Atom
		Ret     *ssa.Return
		Path    string
	}
	type row struct {
		method string
		calls  []string
		asNS   string // "true" "false" ""
		rp     rowRP
	}
	var rows []row
	for _, ip := range ips {
		r := row{method: "<other>", rp: rowRP{ip.Results, ip.Atoms, ip.Ret, ip.Desc}}
		for _, a := range ip.Atoms {
			n := a.Norm()
			if n.Sign && n.Cond.Op == "binop" && n.Cond.Name == "==" && n.Cond.Args[1].Op == "const" && strings.HasPrefix(n.Cond.Args[1].Name, "\"") {
				if n.Cond.Args[0].String() == methodParam {
					m := strings.Trim(n.Cond.Args[1].Name, "\"")
					if m == "" {
						continue
					}
					r.method = m
				}
			}
			if n.Cond.Op == "call" && n.Cond.Name == "errors.As" {
				r.asNS = fmt.Sprint(n.Sign)
			}
		}
		// the empty string is rewritten to "syn"
		f1, s1 := atomTrue(ip.Atoms, func(t *core.Term) bool { return t.String() == "("+methodParam+" == \"\")" })
		if f1 && s1 {
			r.method = "<empty→syn>"
		}
		for _, ev := range ip.Events {
			if ev.Kind == "call" && len(ev.Args) > 0 && fnParams[ev.Args[0].String()] {
				r.calls = append(r.calls, strings.TrimPrefix(ev.Args[0].String(), "param:"))
			}
		}
		rows = append(rows, r)
	}
	want := map[string][]string{"syn": {"doSyn"}, "<empty→syn>": {"doSyn"}, "sack": {"doSack"}, "syn_socket": {"doSynSocket"}, "<other>": {}}
	seen := map[string]bool{}
	var sackRouted []string
	for _, r := range rows {
		seen[r.method] = true
		key := fmt.Sprintf("%s#method[%s]", fn, r.method)
		pstr := r.rp.Path
		for _, cl := range r.calls {
			if cl == "doSack" {
				sackRouted = append(sackRouted, r.method)
			}
		}
		if r.method == "prefer_sack" {
			key += "/as=" + r.asNS
			r1 := r.rp.Results[1]
			switch {
			case r.asNS == "true":
				R.Check(strings.Join(r.calls, ",") == "doSack,doSyn", "R20.1", key, r.rp.Ret.Pos(), fn, "NotSupported ⇒ SACK then SYN", "with a NotSupportedError the selector calls ["+strings.Join(r.calls, ",")+"], expected doSack then doSyn")
			case r.asNS == "false":
				okCalls := strings.Join(r.calls, ",") == "doSack"
				f1, s1 := atomTrue(r.rp.Atoms, func(t *core.Term) bool {
					return t.Op == "binop" && t.Name == "==" && t.Args[1].IsConst("nil") && t.Args[0].Op == "extract" && t.Args[0].Name == "1"
				})
				if f1 && !s1 {
					// err != nil: returned wrapped, no result
					wrapped := r1.Op == "call" && r1.Name == "fmt.Errorf" && strings.Contains(r1.Args[0].Name, "%w")
					R.Check(okCalls && wrapped && r.rp.Results[0].IsConst("nil"), "R20.1", key+"/err", r.rp.Ret.Pos(), fn, "any other SACK failure is returned wrapped with %w and no fallback", "a non-capability SACK failure is not reported as such: calls ["+strings.Join(r.calls, ",")+"], returns "+r1.String())
				} else {
					R.Check(okCalls && r1.IsConst("nil") && r.rp.Results[0].Op == "extract", "R20.1", key+"/ok", r.rp.Ret.Pos(), fn, "SACK success is returned as is", "SACK success path returns "+r.rp.Results[0].String()+" after calls ["+strings.Join(r.calls, ",")+"]")
				}
			default:
				// `if err == nil { return res, nil }` before the classification: errors.As(nil, …) is false anyway
				f1, s1 := atomTrue(r.rp.Atoms, func(t *core.Term) bool {
					return t.Op == "binop" && t.Name == "==" && t.Args[1].IsConst("nil") && t.Args[0].Op == "extract" && t.Args[0].Name == "1"
				})
				if f1 && s1 {
					R.Check(strings.Join(r.calls, ",") == "doSack" && r1.IsConst("nil") && r.rp.Results[0].Op == "extract", "R20.1", key+"/ok", r.rp.Ret.Pos(), fn, "SACK success is returned as is", "SACK success path returns "+r.rp.Results[0].String()+" after calls ["+strings.Join(r.calls, ",")+"]")
				} else {
					R.FailPath("R20.1", key, r.rp.Ret.Pos(), fn, "prefer_sack path does not consult errors.As for *sack.NotSupportedError", pstr)
				}
			}
			continue
		}
		w, ok := want[r.method]
		if !ok {
			R.FailPath("R20.1", key, r.rp.Ret.Pos(), fn, "the selector handles a method ("+r.method+") that is not in the reviewed table; re-confirm R20.1/R20.5", pstr)
			continue
		}
		okc := strings.Join(r.calls, ",") == strings.Join(w, ",")
		det := "calls [" + strings.Join(r.calls, ",") + "]"
		if r.method == "<other>" {
			okc = okc && r.rp.Results[0].IsConst("nil") && !r.rp.Results[1].IsConst("nil")
			det += ", returns an error"
		} else if okc {
			// results unchanged
			r0, r1 := r.rp.Results[0], r.rp.Results[1]
			okc = r0.Op == "extract" && r1.Op == "extract" && r0.Args[0].Key() == r1.Args[0].Key()
			det += ", results forwarded unchanged"
		}
		R.Check(okc, "R20.1", key, r.rp.Ret.Pos(), fn, det, "method "+r.method+": "+det+"; expected exactly ["+strings.Join(w, ",")+"] with the results forwarded unchanged")
	}
	for _, m := range []string{"syn", "sack", "prefer_sack", "<other>"} {
		if !seen[m] {
			R.Fail("R20.1", fmt.Sprintf("%s#method[%s]", fn, m), f.Pos(), fn, "no path of the selector handles method "+m)
		}
	}
	// errors.As target type
	okT := false
	for _, g := range ModReach(c.P, f) {
		if core.FuncPkg(g) != core.FuncPkg(f) {
			continue
		}
		for _, b := range g.Blocks {
			for _, in := range b.Instrs {
				if al, ok := in.(*ssa.Alloc); ok {
					if p, ok := al.Type().(*types.Pointer).Elem().(*types.Pointer); ok && wrapperTag(p) == "NotSupported" {
						okT = true
					}
				}
			}
		}
	}
	R.Check(okT, "R20.1", fn+"#as-target", f.Pos(), fn, "errors.As target is *sack.NotSupportedError", "errors.As is not applied to a *sack.NotSupportedError target")
	sort.Strings(sackRouted)
	var uniq []string
	for i, m := range sackRouted {
		if i == 0 || sackRouted[i-1] != m {
			uniq = append(uniq, m)
		}
	}
	return uniq
}

// checkNotSupportedCensus is R20.2.
func checkNotSupportedCensus(c *Ctx) {
	R := c.R
	sites, counts, anchors := notSupportedCensus(c)
	if !anchors {
		R.Fail("R20.2", "sack#anchors", 0, "", "RunSackTraceroute / ReadHandshake / the SACK driver's ReceiveProbe no longer resolve")
		return
	}
	for _, st := range sites {
		fn := core.FuncName(st.fn)
		key := fmt.Sprintf("%s#NotSupported(%s)", fn, shortOrigin(st.origin))
		if st.ok {
			R.OK("R20.2", key, st.pos, fn, "reviewed capability verdict ("+st.region+"): "+st.why+", wrapping "+st.origin)
		} else {
			R.Fail("R20.2", key, st.pos, fn, "a NotSupportedError is created around "+st.origin+" (cause "+st.cause+"), which is not one of the reviewed capability situations ("+st.why+"): under prefer_sack this failure would silently fall back to SYN instead of being reported")
		}
	}
	R.Floor("R20.2:NotSupported-sites", len(sites), 4)
	for _, kind := range []string{"setup/dial", "setup/guard", "handshake/guard", "recv/guard"} {
		got := counts[kind]
		switch {
		case got == 0:
			R.Fail("R20.2", "sack#expected["+kind+"]", 0, "", "the reviewed capability verdict of kind "+kind+" is no longer produced: SACK unavailability would surface as a fatal error instead of a fallback")
		case got > 1:
			R.Fail("R20.2", "sack#census["+kind+"]", 0, "", fmt.Sprintf("%d distinct causes of kind %s are wrapped into a NotSupportedError where one was reviewed: an additional failure cause now falls back to SYN silently under prefer_sack", got, kind))
		default:
			R.OK("R20.2", "sack#census["+kind+"]", 0, "", "exactly the reviewed verdict of this kind")
		}
	}
}

// doSackClosure finds the closure handed to performTCPFallback as doSack.
func tcpImplClosures(c *Ctx) map[string]*ssa.Function {
	out := map[string]*ssa.Function{}
	sel := c.P.Func("traceroute.performTCPFallback")
	if sel == nil {
		return out
	}
	// the implementation behind each function parameter of the selector: what the call graph resolves the calls of that
	// parameter to (the closures may be made in the per-run function, in a helper of it, or gathered in a struct first)
	cg := c.P.CallGraph()
	for _, h := range withClosures(sel) {
		node := cg.Nodes[h]
		if node == nil {
			continue
		}
		for _, e := range node.Out {
			if e.Site == nil || e.Site.Common().IsInvoke() || e.Site.Common().StaticCallee() != nil {
				continue
			}
			pa, ok := c.P.Def(e.Site.Common().Value).(*ssa.Parameter)
			if !ok || pa.Parent() != sel {
				continue
			}
			if prev, dup := out[pa.Name()]; dup && prev != e.Callee.Func {
				out[pa.Name()] = nil
				continue
			}
			out[pa.Name()] = e.Callee.Func
		}
	}
	return out
}

// checkClassSurvives is R20.3.
func checkClassSurvives(c *Ctx) {
	R := c.R
	cl := tcpImplClosures(c)
	ds := cl["doSack"]
	if ds == nil {
		R.Fail("R20.3", "traceroute.runTracerouteOnce#doSack", 0, "", "the SACK implementation closure handed to performTCPFallback cannot be resolved")
		return
	}
	ea := NewErrAnalysis(c)
	sum := ea.Summary(ds)
	got := map[string]bool{}
	lost := map[string]bool{}
	for _, e := range sum {
		if strings.Contains(e.Tags, "NotSupported") && e.SiteFn != nil {
			got[core.FuncName(e.SiteFn)] = true
			// the verdict is not hidden behind a retryable wrapper in its own chain: the engines ask CheckProbeRetryable
			// (errors.As over the whole chain) first, and would skip the packet instead of ending the run with the verdict
			if e.Retryable() {
				R.Fail("R20.3", "doSack#verdict-masked["+core.FuncName(e.SiteFn)+"]", e.SitePos, core.FuncName(e.SiteFn), "the NotSupportedError created in "+core.FuncName(e.SiteFn)+" carries a retryable wrapper in its chain (tags "+e.Tags+", cause "+e.Origin+"): the engine's CheckProbeRetryable finds it with errors.As and skips the packet, so the capability verdict never ends the SACK run and prefer_sack never falls back")
			}
		}
		if !e.Wrapped && e.Fn != nil {
			lost[e.Origin] = true
		}
	}
	sites, _, _ := notSupportedCensus(c)
	// a verdict made by a constructor helper (newNotSupportedError(cause)) is attributed by the census to the constructor's
	// callers: a surviving class of the constructor's own literal stands for them
	for _, st := range sites {
		if st.fn == nil || got[core.FuncName(st.fn)] {
			continue
		}
		for _, b := range st.fn.Blocks {
			for _, in := range b.Instrs {
				call, ok := in.(*ssa.Call)
				if !ok || call.Pos() != st.pos || call.Common().StaticCallee() == nil {
					continue
				}
				if got[core.FuncName(call.Common().StaticCallee())] {
					got[core.FuncName(st.fn)] = true
				}
			}
		}
	}
	done := map[string]bool{}
	for _, st := range sites {
		fn := core.FuncName(st.fn)
		if done[fn] || !st.ok {
			continue
		}
		done[fn] = true
		R.Check(got[fn], "R20.3", "doSack#class-survives["+fn+"]", ds.Pos(), core.FuncName(ds), "the NotSupportedError created in "+fn+" reaches the selector with its type intact (every wrapping on the way uses %w)", "the NotSupportedError created in "+fn+" does not reach the selector as such: a wrapping on the way drops the class (errors.As would not find it, prefer_sack would not fall back)")
	}
	R.Floor("R20.3:verdict-sites", len(done), 3)
	for o := range lost {
		R.Fail("R20.3", "doSack#unwrapped["+shortOrigin(o)+"]", ds.Pos(), core.FuncName(ds), "on the SACK path an error is re-created without %w ("+o+"): the class of the cause is lost on its way to the selector")
	}
	R.Analysed["doSack_error_classes"] = len(sum)
}

func dialCalls(c *Ctx, fs []*ssa.Function) []string {
	var hits []string
	for _, f := range fs {
		for _, b := range f.Blocks {
			for _, in := range b.Instrs {
				ci, ok := in.(ssa.CallInstruction)
				if !ok {
					continue
				}
				cal := ci.Common().StaticCallee()
				if cal == nil {
					continue
				}
				pk := ""
				if p := core.FuncPkg(cal); p != nil {
					pk = p.Path()
				}
				name := cal.Name()
				switch {
				case pk == "net" && strings.HasPrefix(name, "Dial"):
					args := ci.Common().Args
					idx := 0
					if cal.Signature.Recv() != nil {
						idx = 1
					}
					if name == "DialContext" {
						idx++
					}
					netw := "?"
					if idx < len(args) {
						if s, ok := constStr(args[idx]); ok {
							netw = s
						}
					}
					if !strings.HasPrefix(netw, "udp") {
						hits = append(hits, fmt.Sprintf("%s → %s(%q) at %s", core.FuncName(f), shortName(cal), netw, c.P.PosStr(in.Pos())))
					}
				case core.FuncName(cal) == "sack.dialSackTCP":
					hits = append(hits, fmt.Sprintf("%s → sack.dialSackTCP at %s", core.FuncName(f), c.P.PosStr(in.Pos())))
				case pk == "net/http" && (name == "Do" || name == "Get"):
					hits = append(hits, fmt.Sprintf("%s → %s at %s", core.FuncName(f), shortName(cal), c.P.PosStr(in.Pos())))
				}
			}
		}
	}
	return hits
}

// checkSynNoDial is R20.4.
func checkSynNoDial(c *Ctx) {
	R := c.R
	syn := c.P.Func("(*tcp.TCPv4).Traceroute")
	if syn == nil {
		R.Fail("R20.4", "tcp.Traceroute#anchor", 0, "", "anchor (*tcp.TCPv4).Traceroute no longer resolves")
		return
	}
	roots := []*ssa.Function{syn}
	if ds := tcpImplClosures(c)["doSyn"]; ds != nil {
		roots = append(roots, ds)
	}
	fs := ModReach(c.P, roots...)
	hits := dialCalls(c, fs)
	R.Check(len(hits) == 0, "R20.4", "tcp.Traceroute#no-connection", syn.Pos(), core.FuncName(syn), fmt.Sprintf("no connection-opening call among the %d module functions reachable from the SYN traceroute", len(fs)), "the SYN traceroute can open a connection: "+strings.Join(hits, "; "))
	// positive control
	ctl := 0
	if f := c.P.Func("sack.runSackTraceroute"); f != nil {
		ctl = len(dialCalls(c, ModReach(c.P, f)))
	}
	R.Floor("R20.4:control(dial found under runSackTraceroute)", ctl, 1)
}

// checkE2eOverride is R20.5.
func checkE2eOverride(c *Ctx, sackMethods []string) {
	R := c.R
	f := c.P.Func("traceroute.runE2eProbeOnce")
	if f == nil {
		R.Fail("R20.5", "traceroute.runE2eProbeOnce#anchor", 0, "", "anchor traceroute.runE2eProbeOnce no longer resolves")
		return
	}
	fn := core.FuncName(f)
	if len(sackMethods) == 0 {
		R.Fail("R20.5", fn+"#sack-methods", f.Pos(), fn, "the selector routes no method to SACK: R20.1 anchor lost")
		return
	}
	n := 0
	// inlined paths: the override may be computed by a helper of the package (a parameter-copying function, a method chooser)
	for _, ip := range InlinedPaths(c.P, f, inlineOpts{pkg: core.FuncPkg(f), stop: workSignature}) {
		for _, ev := range ip.Events {
			if ev.Kind != "call" || ev.Callee != "dyn" || len(ev.Args) < 3 || !strings.Contains(ev.Args[0].String(), "runTracerouteOnceFn") {
				continue
			}
			atoms := ip.Atoms
			pt := ev.Args[2]
			// the parameters arrive ready-made (derived once by the caller): judge the function that derives them
			if pt.Op == "param" && pt.Val != nil {
				if call, ok := c.P.DefX(pt.Val).(*ssa.Call); ok {
					if h := call.Common().StaticCallee(); h != nil && core.FuncPkg(h) == core.FuncPkg(f) && len(h.Blocks) > 0 && h.Signature.Results().Len() == 1 {
						for _, hp := range InlinedPaths(c.P, h, inlineOpts{pkg: core.FuncPkg(f), stop: workSignature}) {
							n++
							judgeE2eParams(c, fn, sackMethods, hp.Results[0], hp.Atoms, ev.Instr.Pos())
						}
						continue
					}
				}
			}
			n++
			judgeE2eParams(c, fn, sackMethods, pt, atoms, ev.Instr.Pos())
		}
	}
	R.Floor("R20.5:per-run-call-paths", n, 2)
}

// judgeE2eParams: pt is the parameter value an e2e probe hands to the per-run function on a path with conditions atoms.
func judgeE2eParams(c *Ctx, fn string, sackMethods []string, pt *core.Term, atoms []core.Atom, pos token.Pos) {
	R := c.R
	{
		{
			m := core.ProjField(pt, "TCPMethod")
			proto := core.ProjField(pt, "Protocol")
			key := fmt.Sprintf("%s#e2e-method", fn)
			switch {
			case m.Op == "const":
				val := strings.Trim(m.Name, "\"")
				bad := false
				for _, s := range sackMethods {
					if s == val {
						bad = true
					}
				}
				R.Check(!bad && val == "syn", "R20.5", key, pos, fn, "method rewritten to syn before the per-run function", "e2e probes run with method "+m.Name)
			default:
				// unmodified: the path must exclude every SACK-routing method, or a non-tcp protocol
				excluded := map[string]bool{}
				nonTCP := false
				for _, a := range atoms {
					nn := a.Norm()
					if nn.Cond.Op == "binop" && nn.Cond.Name == "==" && nn.Cond.Args[1].Op == "const" {
						if nn.Cond.Args[0].Key() == m.Key() && !nn.Sign {
							excluded[strings.Trim(nn.Cond.Args[1].Name, "\"")] = true
						}
						if nn.Cond.Args[0].Key() == proto.Key() && nn.Cond.Args[1].Name == "\"tcp\"" && !nn.Sign {
							nonTCP = true
						}
					}
				}
				all := true
				var miss []string
				for _, s := range sackMethods {
					if !excluded[s] {
						all = false
						miss = append(miss, s)
					}
				}
				R.Check(all || nonTCP, "R20.5", key, pos, fn, "method left unchanged only when it is not SACK-routed (or the protocol is not tcp)", fmt.Sprintf("an e2e probe can reach the per-run function with a SACK-routing method (%v not rewritten to syn); selector routes %v to SACK", miss, sackMethods))
			}
			// MinTTL = MaxTTL (C19 R19.4 shares this)
			mn, mx := core.ProjField(pt, "MinTTL"), core.ProjField(pt, "MaxTTL")
			// both ends are the request's MaxTTL (the probe must reach the destination): MinTTL := MaxTTL, not the reverse
			untouchedMax := mx.Op == "field" && mx.Name == "MaxTTL" && len(mx.Args) == 1 && (mx.Args[0].Op == "param" || mx.Args[0].Op == "free" || mx.Args[0].Op == "recv")
			R.Check(mn.Key() == mx.Key() && untouchedMax, "R20.5", fn+"#single-probe", pos, fn, "MinTTL = MaxTTL = the request's MaxTTL for e2e probes", "e2e probe does not run with MinTTL = MaxTTL = the request's MaxTTL: MinTTL is "+mn.String()+", MaxTTL is "+mx.String()+" (a probe sent with a smaller TTL expires on the way and is counted as lost although the destination would answer)")
		}
	}
}

// ctorResultParam: g is a straight-line constructor returning &NotSupportedError{Err: <its parameter #i>}; returns i or -1.
func ctorResultParam(g *ssa.Function) int {
	if g == nil || !core.InModule(g) || len(g.Blocks) == 0 || len(g.Blocks) > 2 {
		return -1
	}
	blk := g.Blocks[0]
	ret, ok := blk.Instrs[len(blk.Instrs)-1].(*ssa.Return)
	if !ok || len(ret.Results) != 1 {
		return -1
	}
	al, ok := ret.Results[0].(*ssa.Alloc)
	if !ok || wrapperTag(al.Type()) != "NotSupported" {
		if mi, ok2 := ret.Results[0].(*ssa.MakeInterface); ok2 {
			al, ok = mi.X.(*ssa.Alloc)
		}
		if !ok || al == nil || wrapperTag(al.Type()) != "NotSupported" {
			return -1
		}
	}
	for _, r := range *al.Referrers() {
		fa, ok := r.(*ssa.FieldAddr)
		if !ok || core.FieldName(fa) != "Err" {
			continue
		}
		for _, r2 := range *fa.Referrers() {
			if st, ok := r2.(*ssa.Store); ok && st.Addr == ssa.Value(fa) {
				if p, ok := st.Val.(*ssa.Parameter); ok {
					for i, q := range g.Params {
						if q == p {
							return i
						}
					}
				}
			}
		}
	}
	return -1
}

// checkRecvVerdictGuard is R20.7: 'acknowledgements without SACK blocks' is a statement about a plain ACK of the probed
// connection. On every inlined path of the SACK driver's ReceiveProbe that returns a NotSupportedError the segment was established
// to be on the flow (outer pair, ports) and to be neither SYN, FIN nor RST – the same guards the accept path of a selective ACK
// carries. A late SYN-ACK retransmission, a FIN or a RST carries no SACK block either and must not produce the verdict.
func checkRecvVerdictGuard(c *Ctx) {
	R := c.R
	var d Driver
	found := false
	for _, x := range Drivers(c.P) {
		if x.Pkg == "sack" {
			d, found = x, true
		}
	}
	if !found {
		R.Fail("R20.7", "sack#driver", 0, "", "the SACK driver no longer resolves")
		return
	}
	roles := roleTable[d.Name]
	f := d.ReceiveProbe
	fn := core.FuncName(f)
	n := 0
	for _, ip := range InlinedPaths(c.P, f, inlineOpts{pkg: core.FuncPkg(f), stop: hasLoop, maxDepth: 4}) {
		if len(ip.Results) < 2 || ip.Results[1] == nil {
			continue
		}
		isVerdict := ip.Results[1].Has(func(x *core.Term) bool {
			al, ok := x.Val.(*ssa.Alloc)
			return ok && x.Op == "alloc" && isNamed(al.Type(), core.ModulePath+"/sack", "NotSupportedError")
		})
		if !isVerdict {
			continue
		}
		n++
		var missing []string
		for _, a := range flagAssignments(ip.Atoms) {
			if a["SYN"] || a["FIN"] || a["RST"] {
				missing = append(missing, "SYN, FIN and RST all clear")
				break
			}
		}
		eqs := pathEqs(ip.Atoms)
		for name, chk := range map[string]struct {
			pk   func(*core.Term) bool
			role string
		}{"outer source = target": {isOuterSrcAddr, roles.TargetAddr}, "TCP source port = target port": {isTCPSrcPort, roles.TargetPort}, "TCP destination port = local port": {isTCPDstPort, roles.LocalPort}} {
			if findEq(eqs, chk.pk, chk.role) == nil {
				missing = append(missing, name)
			}
		}
		sort.Strings(missing)
		key := fn + "#recv-verdict-guard"
		if len(missing) == 0 {
			R.OK("R20.7", key, ip.Ret.Pos(), fn, "the 'no SACK blocks' verdict is raised only for a plain ACK on the probed flow")
		} else {
			R.FailPath("R20.7", key, ip.Ret.Pos(), fn, "a NotSupportedError can be returned for a segment without: "+strings.Join(missing, "; ")+" – such a segment (a retransmitted SYN-ACK, a FIN, a RST, another flow) carries no SACK block either, so a SACK-capable target is reported as unsupported and prefer_sack falls back although SACK is available", ip.Desc)
		}
	}
	R.Floor("R20.7:recv-verdict-paths", n, 1)
	// the converse: a segment on the probed flow with SYN, FIN and RST clear is never dismissed before its options have been
	// scanned for SACK blocks. An early exit for "segments that cannot matter" (no options, no payload, ...) swallows exactly
	// the plain ACKs whose lack of SACK blocks IS the 'not supported' verdict: the run then ends empty instead of with the
	// verdict, and prefer_sack never falls back
	scans := func(ip IPath) bool {
		for _, ev := range ip.Events {
			if ev.Kind != "call" {
				continue
			}
			for _, a := range ev.Args {
				if a != nil && a.Has(func(x *core.Term) bool { return x.Op == "field" && x.Name == "Options" }) {
					return true
				}
			}
		}
		return false
	}
	ips := InlinedPaths(c.P, f, inlineOpts{pkg: core.FuncPkg(f), stop: hasLoop, maxDepth: 4})
	anyScan := false
	for _, ip := range ips {
		if scans(ip) {
			anyScan = true
		}
	}
	if !anyScan {
		R.Info("R20.7", fn+"#verdict-complete", f.Pos(), fn, "no call receives the TCP options: the SACK scan is not a call here, completeness of the verdict is not decided")
		return
	}
	m := 0
	for _, ip := range ips {
		eqs := pathEqs(ip.Atoms)
		if findEq(eqs, isOuterSrcAddr, roles.TargetAddr) == nil || findEq(eqs, isTCPSrcPort, roles.TargetPort) == nil || findEq(eqs, isTCPDstPort, roles.LocalPort) == nil {
			continue
		}
		as := flagAssignments(ip.Atoms)
		clear := len(as) > 0
		for _, a := range as {
			sy, ok1 := a["SYN"]
			fi, ok2 := a["FIN"]
			rs, ok3 := a["RST"]
			if !ok1 || !ok2 || !ok3 || sy || fi || rs {
				clear = false
			}
		}
		if !clear {
			continue
		}
		m++
		if scans(ip) {
			R.OK("R20.7", fn+"#verdict-complete", ip.Ret.Pos(), fn, "a plain segment on the probed flow reaches the SACK scan")
		} else {
			R.FailPath("R20.7", fn+"#verdict-complete", ip.Ret.Pos(), fn, "a segment from the target on the probed flow with SYN, FIN and RST clear is dismissed before its options are scanned for SACK blocks: the plain ACKs whose missing SACK blocks are the 'not supported' verdict are skipped as noise, so a target without SACK yields an empty run instead of the verdict and prefer_sack never falls back", ip.Desc)
		}
	}
	R.Floor("R20.7:plain-segment-paths", m, 1)
}
