package rules

import (
	"go/types"
	"sort"

	"golang.org/x/tools/go/ssa"

	"verif/tool/internal/core"
)

// Driver is a module type implementing common.TracerouteDriver.
type Driver struct {
	Name          string // "icmp.icmpDriver"
	Pkg           string
	Named         *types.Named
	SendProbe     *ssa.Function
	ReceiveProbe  *ssa.Function
	GetDriverInfo *ssa.Function
}

func lookupType(p *core.Prog, pkg, name string) types.Type {
	sp := p.SSAPkgs[pkg]
	if sp == nil {
		return nil
	}
	o := sp.Pkg.Scope().Lookup(name)
	if o == nil {
		return nil
	}
	return o.Type()
}

// Drivers resolves every module type whose pointer implements common.TracerouteDriver.
func Drivers(p *core.Prog) []Driver {
	it := lookupType(p, "common", "TracerouteDriver")
	if it == nil {
		return nil
	}
	iface, ok := it.Underlying().(*types.Interface)
	if !ok {
		return nil
	}
	var out []Driver
	for short, sp := range p.SSAPkgs {
		for _, m := range sp.Members {
			tn, ok := m.(*ssa.Type)
			if !ok {
				continue
			}
			named, ok := tn.Type().(*types.Named)
			if !ok {
				continue
			}
			if _, isI := named.Underlying().(*types.Interface); isI {
				continue
			}
			ptr := types.NewPointer(named)
			if !types.Implements(ptr, iface) {
				continue
			}
			if named.Obj().Name() == "MockDriver" {
				continue
			}
			d := Driver{Name: sp.Pkg.Name() + "." + named.Obj().Name(), Pkg: short, Named: named}
			ms := p.SSA.MethodSets.MethodSet(ptr)
			for i := 0; i < ms.Len(); i++ {
				f := p.SSA.MethodValue(ms.At(i))
				switch ms.At(i).Obj().Name() {
				case "SendProbe":
					d.SendProbe = f
				case "ReceiveProbe":
					d.ReceiveProbe = f
				case "GetDriverInfo":
					d.GetDriverInfo = f
				}
			}
			out = append(out, d)
		}
	}
	sort.Slice(out, func(i, j int) bool { return out[i].Name < out[j].Name })
	return out
}

// ModReach returns the module functions reachable from the roots through
// static calls, closures and VTA-resolved dynamic calls. Library code is never walked.
func ModReach(p *core.Prog, roots ...*ssa.Function) []*ssa.Function {
	cg := p.CallGraph()
	seen := map[*ssa.Function]bool{}
	var order []*ssa.Function
	var visit func(f *ssa.Function)
	visit = func(f *ssa.Function) {
		if f == nil || seen[f] || !core.InModule(f) {
			return
		}
		seen[f] = true
		order = append(order, f)
		if n := cg.Nodes[f]; n != nil {
			for _, e := range n.Out {
				visit(e.Callee.Func)
			}
		}
		for _, af := range f.AnonFuncs {
			visit(af)
		}
	}
	for _, r := range roots {
		visit(r)
	}
	return order
}

// PathInfo is one feasible path to an accept site.
type PathInfo struct {
	Path   *core.Path
	Env    *core.Env
	Atoms  []core.Atom
	Fields map[string]*core.Term // TTL IP RTT IsDest
}

// AcceptSite is an allocation of common.ProbeResponse returned by a matcher.
type AcceptSite struct {
	Fn     *ssa.Function
	Alloc  *ssa.Alloc
	Ret    *ssa.Return
	Paths  []PathInfo
	Pruned int
	All    int
}

func isNamed(t types.Type, pkgPath, name string) bool {
	if p, ok := t.(*types.Pointer); ok {
		t = p.Elem()
	}
	n, ok := t.(*types.Named)
	if !ok {
		return false
	}
	return n.Obj().Name() == name && n.Obj().Pkg() != nil && n.Obj().Pkg().Path() == pkgPath
}

// AcceptSites builds the decision table of a driver's matcher.
func AcceptSites(p *core.Prog, d Driver) []AcceptSite {
	var out []AcceptSite
	for _, f := range ModReach(p, d.ReceiveProbe) {
		for _, b := range f.Blocks {
			for _, in := range b.Instrs {
				al, ok := in.(*ssa.Alloc)
				if !ok || !al.Heap || !isNamed(al.Type(), core.ModulePath+"/common", "ProbeResponse") {
					continue
				}
				site := AcceptSite{Fn: f, Alloc: al}
				// the return that hands the allocation out
				for _, rb := range f.Blocks {
					if ret, ok := rb.Instrs[len(rb.Instrs)-1].(*ssa.Return); ok {
						for _, rv := range ret.Results {
							if rv == ssa.Value(al) {
								site.Ret = ret
							}
						}
					}
				}
				if site.Ret == nil {
					out = append(out, site)
					continue
				}
				paths, _ := core.EnumPaths(f, site.Ret.Block(), 5000)
				site.All = len(paths)
				for _, pa := range paths {
					env := core.NewEnv(p, pa)
					atoms := env.Atoms()
					if !core.Feasible(atoms) {
						site.Pruned++
						continue
					}
					pi := PathInfo{Path: pa, Env: env, Atoms: atoms, Fields: map[string]*core.Term{}}
					st := al.Type().Underlying().(*types.Pointer).Elem().Underlying().(*types.Struct)
					for i := 0; i < st.NumFields(); i++ {
						pi.Fields[st.Field(i).Name()] = env.LoadField(al, st.Field(i).Name(), site.Ret, st.Field(i).Type())
					}
					site.Paths = append(site.Paths, pi)
				}
				out = append(out, site)
			}
		}
	}
	return out
}
