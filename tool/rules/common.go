package rules

import (
	"fmt"
	"go/types"
	"sort"
	"strings"

	"golang.org/x/tools/go/ssa"

	"verif/tool/internal/core"
)

// Driver is a module type implementing common.TracerouteDriver.
type Driver struct {
	Name          string // "icmp.icmpDriver"
	Pkg           string
	Named         *types.Named
	SendProbe     *ssa.Function
	ReceiveProbe  *ssa.Function
	GetDriverInfo *ssa.Function
}

func lookupType(p *core.Prog, pkg, name string) types.Type {
	sp := p.SSAPkgs[pkg]
	if sp == nil {
		return nil
	}
	o := sp.Pkg.Scope().Lookup(name)
	if o == nil {
		return nil
	}
	return o.Type()
}

// Drivers resolves every module type whose pointer implements common.TracerouteDriver.
func Drivers(p *core.Prog) []Driver {
	it := lookupType(p, "common", "TracerouteDriver")
	if it == nil {
		return nil
	}
	iface, ok := it.Underlying().(*types.Interface)
	if !ok {
		return nil
	}
	var out []Driver
	for short, sp := range p.SSAPkgs {
		for _, m := range sp.Members {
			tn, ok := m.(*ssa.Type)
			if !ok {
				continue
			}
			named, ok := tn.Type().(*types.Named)
			if !ok {
				continue
			}
			if _, isI := named.Underlying().(*types.Interface); isI {
				continue
			}
			ptr := types.NewPointer(named)
			if !types.Implements(ptr, iface) {
				continue
			}
			if named.Obj().Name() == "MockDriver" {
				continue
			}
			d := Driver{Name: sp.Pkg.Name() + "." + named.Obj().Name(), Pkg: short, Named: named}
			ms := p.SSA.MethodSets.MethodSet(ptr)
			for i := 0; i < ms.Len(); i++ {
				f := p.SSA.MethodValue(ms.At(i))
				switch ms.At(i).Obj().Name() {
				case "SendProbe":
					d.SendProbe = f
				case "ReceiveProbe":
					d.ReceiveProbe = f
				case "GetDriverInfo":
					d.GetDriverInfo = f
				}
			}
			out = append(out, d)
		}
	}
	sort.Slice(out, func(i, j int) bool { return out[i].Name < out[j].Name })
	return out
}

// ModReach returns the module functions reachable from the roots through
// static calls, closures and VTA-resolved dynamic calls. Library code is never walked.
func ModReach(p *core.Prog, roots ...*ssa.Function) []*ssa.Function {
	cg := p.CallGraph()
	seen := map[*ssa.Function]bool{}
	var order []*ssa.Function
	var visit func(f *ssa.Function)
	visit = func(f *ssa.Function) {
		if f == nil || seen[f] || !core.InModule(f) {
			return
		}
		seen[f] = true
		order = append(order, f)
		if n := cg.Nodes[f]; n != nil {
			for _, e := range n.Out {
				visit(e.Callee.Func)
			}
		}
		for _, af := range f.AnonFuncs {
			visit(af)
		}
	}
	for _, r := range roots {
		visit(r)
	}
	return order
}

// PathInfo is one feasible path to an accept site.
type PathInfo struct {
	Path   *core.Path
	Env    *core.Env
	Atoms  []core.Atom
	Fields map[string]*core.Term // TTL IP RTT IsDest
}

// AcceptSite is an allocation of common.ProbeResponse returned by a matcher.
type AcceptSite struct {
	Fn     *ssa.Function
	Alloc  *ssa.Alloc
	Ret    *ssa.Return
	Paths  []PathInfo
	Pruned int
	All    int
}

func isNamed(t types.Type, pkgPath, name string) bool {
	if p, ok := t.(*types.Pointer); ok {
		t = p.Elem()
	}
	n, ok := t.(*types.Named)
	if !ok {
		return false
	}
	return n.Obj().Name() == name && n.Obj().Pkg() != nil && n.Obj().Pkg().Path() == pkgPath
}

// AcceptSites builds the decision table of a driver's matcher.
func AcceptSites(p *core.Prog, d Driver) []AcceptSite {
	var out []AcceptSite
	for _, f := range ModReach(p, d.ReceiveProbe) {
		for _, b := range f.Blocks {
			for _, in := range b.Instrs {
				al, ok := in.(*ssa.Alloc)
				if !ok || !al.Heap || !isNamed(al.Type(), core.ModulePath+"/common", "ProbeResponse") {
					continue
				}
				site := AcceptSite{Fn: f, Alloc: al}
				// the return that hands the allocation out
				for _, rb := range f.Blocks {
					if ret, ok := rb.Instrs[len(rb.Instrs)-1].(*ssa.Return); ok {
						for _, rv := range ret.Results {
							if rv == ssa.Value(al) {
								site.Ret = ret
							}
						}
					}
				}
				if site.Ret == nil {
					out = append(out, site)
					continue
				}
				paths, _ := core.EnumPaths(f, site.Ret.Block(), 5000)
				site.All = len(paths)
				for _, pa := range paths {
					env := core.NewEnv(p, pa)
					atoms := env.Atoms()
					if !core.Feasible(atoms) {
						site.Pruned++
						continue
					}
					fields := map[string]*core.Term{}
					st := al.Type().Underlying().(*types.Pointer).Elem().Underlying().(*types.Struct)
					for i := 0; i < st.NumFields(); i++ {
						fields[st.Field(i).Name()] = env.LoadField(al, st.Field(i).Name(), site.Ret, st.Field(i).Type())
					}
					// checks extracted into helpers of the driver's package are opened: one virtual path per
					// success path of the helper, with the helper's conditions lifted into the matcher's vocabulary
					for _, av := range expandHelperAtoms(p, d, atoms, 0) {
						variant := av.resolved()
						if !core.Feasible(variant) {
							continue
						}
						vfields := fields
						if len(av.Subs) > 0 {
							vfields = map[string]*core.Term{}
							for k, v := range fields {
								vfields[k] = applySubs(v, av.Subs)
							}
						}
						site.Paths = append(site.Paths, PathInfo{Path: pa, Env: env, Atoms: variant, Fields: vfields})
						if len(site.Paths) > 4000 {
							break
						}
					}
				}
				// an accept site in a helper the matcher tail-calls: compose the helper's paths with the caller's
				site = composeThroughCallers(p, d, site)
				out = append(out, site)
			}
		}
	}
	return out
}

// composeThroughCallers prepends, to every path of an accept site that lives in a callee of the matcher, the conditions
// of each caller path that reaches the (tail) call, lifting the callee's conditions and field values into the caller's
// vocabulary. A helper shared by several arms (each arm a method of its own) is composed along every call chain. The
// outermost frame is the function ReceiveProbe calls, as for sites written inline.
func composeThroughCallers(p *core.Prog, d Driver, site AcceptSite) AcceptSite {
	if site.Ret == nil {
		return site
	}
	paths, outer, ok := composeUp(p, d, site.Fn, site.Paths, 0)
	if !ok {
		return site
	}
	site.Paths = paths
	site.Fn = outer
	return site
}

func composeUp(p *core.Prog, d Driver, fn *ssa.Function, inner []PathInfo, depth int) ([]PathInfo, *ssa.Function, bool) {
	chains := callChains(p, d.ReceiveProbe, fn)
	if len(chains) == 0 || depth > 3 {
		return inner, fn, true
	}
	direct := false
	for _, ch := range chains {
		if len(ch) <= 1 {
			direct = true
		}
	}
	if direct {
		return inner, fn, true // called directly by ReceiveProbe: already the outermost frame
	}
	var callers []*ssa.Call
	seen := map[*ssa.Call]bool{}
	for _, ch := range chains {
		cs := ch[len(ch)-1]
		if !seen[cs] {
			seen[cs] = true
			callers = append(callers, cs)
		}
	}
	var out []PathInfo
	var outer *ssa.Function
	for _, cs := range callers {
		h := cs.Parent()
		// tail position: some return of h forwards both results of cs
		tail := false
		for _, b := range h.Blocks {
			if ret, isRet := b.Instrs[len(b.Instrs)-1].(*ssa.Return); isRet && len(ret.Results) == 2 {
				e0, ok0 := ret.Results[0].(*ssa.Extract)
				e1, ok1 := ret.Results[1].(*ssa.Extract)
				if ok0 && ok1 && e0.Tuple == ssa.Value(cs) && e1.Tuple == ssa.Value(cs) {
					tail = true
				}
			}
		}
		if !tail {
			return nil, nil, false
		}
		var composed []PathInfo
		cpaths, _ := core.EnumPaths(h, cs.Block(), 5000)
		for _, pa := range cpaths {
			env := core.NewEnv(p, pa)
			atoms := env.Atoms()
			if !core.Feasible(atoms) {
				continue
			}
			// the caller's own checks may sit in predicate helpers as well
			for _, cav := range expandHelperAtoms(p, d, atoms, 0) {
				catoms := cav.resolved()
				if !core.Feasible(catoms) {
					continue
				}
				for _, in := range inner {
					variant := append([]core.Atom{}, catoms...)
					for _, a := range in.Atoms {
						variant = append(variant, core.Atom{Cond: applySubs(liftWithEnv(env, a.Cond, cs), cav.Subs), Sign: a.Sign, Block: cs.Block()})
					}
					if !core.Feasible(variant) {
						continue
					}
					fields := map[string]*core.Term{}
					for k, v := range in.Fields {
						fields[k] = applySubs(liftWithEnv(env, v, cs), cav.Subs)
					}
					composed = append(composed, PathInfo{Path: pa, Env: env, Atoms: variant, Fields: fields})
				}
			}
		}
		up, o, ok := composeUp(p, d, h, composed, depth+1)
		if !ok {
			return nil, nil, false
		}
		out = append(out, up...)
		outer = o
	}
	if outer == nil {
		return nil, nil, false
	}
	return out, outer, true
}

// valueSub: result #idx of the call at site is, on the chosen success path of the callee, the term repl (caller's vocabulary).
type valueSub struct {
	site *ssa.Call
	idx  string
	repl *core.Term
}

// atomVariant is one virtual path after opening helpers: its conditions and the values the opened helpers return on it.
type atomVariant struct {
	Atoms []core.Atom
	Subs  []valueSub
}

func applySubs(t *core.Term, subs []valueSub) *core.Term {
	if len(subs) == 0 || t == nil {
		return t
	}
	return t.Subst(func(x *core.Term) *core.Term {
		if x.Op == "extract" && len(x.Args) == 1 && x.Args[0].Op == "call" {
			for _, sb := range subs {
				if x.Name == sb.idx && x.Args[0].Val == ssa.Value(sb.site) {
					return sb.repl
				}
			}
		}
		// a helper with a single result: its value is the call term itself
		if x.Op == "call" && x.Val != nil {
			for _, sb := range subs {
				if sb.idx == "0" && x.Val == ssa.Value(sb.site) {
					if cs := sb.site.Common().StaticCallee(); cs != nil && cs.Signature.Results().Len() == 1 {
						return sb.repl
					}
				}
			}
		}
		return nil
	})
}

func (v atomVariant) resolved() []core.Atom {
	if len(v.Subs) == 0 {
		return v.Atoms
	}
	out := make([]core.Atom, len(v.Atoms))
	for i, a := range v.Atoms {
		out[i] = core.Atom{Cond: applySubs(a.Cond, v.Subs), Sign: a.Sign, Block: a.Block}
	}
	return out
}

// expandHelperAtoms replaces every accepting atom that is a call of a boolean (or error-returning) helper defined in the
// driver's own package by the conditions of each of the helper's success paths. A method of the driver that returns
// (value, error) – a switch arm extracted into a method – is opened too: its success conditions are imported and its value
// result is replaced by what that path returns; plain value-producing functions and the sent-probe accessors stay opaque.
func expandHelperAtoms(p *core.Prog, d Driver, atoms []core.Atom, depth int) []atomVariant {
	if depth > 2 {
		return []atomVariant{{Atoms: atoms}}
	}
	for i, a := range atoms {
		n := a.Norm()
		if !n.Sign {
			continue
		}
		var callT *core.Term
		errIdx := -1
		switch {
		case n.Cond.Op == "call":
			callT = n.Cond
		case n.Cond.Op == "binop" && n.Cond.Name == "==" && n.Cond.Args[1].IsConst("nil") && n.Cond.Args[0].Op == "extract" && n.Cond.Args[0].Args[0].Op == "call":
			callT = n.Cond.Args[0].Args[0]
			fmt.Sscan(n.Cond.Args[0].Name, &errIdx)
		}
		if callT == nil || callT.Val == nil {
			continue
		}
		site, ok := callT.Val.(*ssa.Call)
		if !ok {
			continue
		}
		f := site.Common().StaticCallee()
		if f == nil || !core.InModule(f) || core.ShortPkg(core.FuncPkg(f)) != d.Pkg || f.Synthetic != "" {
			continue
		}
		// sent-probe accessors stay opaque (they are the lookups R01.4 wants to see)
		if len(site.Common().Args) > 0 && site.Common().Args[0] == ssa.Value(site.Parent().Params[0]) && isAccessorName(f.Name()) {
			continue
		}
		res := f.Signature.Results()
		valueIdx := -1
		if errIdx < 0 {
			if res.Len() != 1 {
				continue
			}
			if b, ok := res.At(0).Type().Underlying().(*types.Basic); !ok || b.Kind() != types.Bool {
				continue
			}
		} else if res.Len() == 1 && errIdx == 0 && isErrorType(res.At(0).Type()) {
			// error-only helper
		} else if res.Len() == 2 && errIdx == 1 && isErrorType(res.At(1).Type()) && d.Named != nil && f.Signature.Recv() != nil && types.Identical(f.Signature.Recv().Type(), types.NewPointer(d.Named)) && !isAccessorName(f.Name()) {
			valueIdx = 0
		} else {
			continue // value-producing functions stay opaque: their results are keys / fields of the reply
		}
		rps, complete := core.ReturnPaths(p, f, 500)
		if !complete {
			continue
		}
		var out []atomVariant
		for _, rp := range rps {
			if rp.Ret.Block().Comment == "recover" {
				continue
			}
			var extra []core.Atom
			var subs []valueSub
			if errIdx < 0 {
				r := rp.Results[0]
				if r.IsConst("false") {
					continue
				}
				if !r.IsConst("true") {
					extra = append(extra, core.Atom{Cond: liftThrough(p, r, site), Sign: true, Block: a.Block})
				}
			} else if !rp.Results[errIdx].IsConst("nil") {
				continue
			}
			if valueIdx >= 0 {
				subs = append(subs, valueSub{site, fmt.Sprint(valueIdx), liftThrough(p, rp.Results[valueIdx], site)})
			}
			variant := append([]core.Atom{}, atoms[:i]...)
			for _, ca := range rp.Atoms {
				variant = append(variant, core.Atom{Cond: liftThrough(p, ca.Cond, site), Sign: ca.Sign, Block: a.Block})
			}
			variant = append(variant, extra...)
			variant = append(variant, atoms[i+1:]...)
			for _, sub := range expandHelperAtoms(p, d, variant, depth+1) {
				out = append(out, atomVariant{Atoms: sub.Atoms, Subs: append(append([]valueSub{}, subs...), sub.Subs...)})
			}
		}
		if len(out) == 0 {
			return []atomVariant{{Atoms: atoms}}
		}
		return out
	}
	return []atomVariant{{Atoms: atoms}}
}

func isAccessorName(n string) bool {
	return strings.HasPrefix(n, "find") || strings.HasPrefix(n, "get") || strings.HasPrefix(n, "store")
}

// openPredicates opens the boolean / error-only helpers of package pkg (short name) in a list of path conditions: the generic
// form of expandHelperAtoms for functions that are not matchers (validators, decoders, selectors).
func openPredicates(p *core.Prog, pkg string, atoms []core.Atom) [][]core.Atom {
	var out [][]core.Atom
	for _, v := range expandHelperAtoms(p, Driver{Pkg: pkg}, atoms, 0) {
		out = append(out, v.resolved())
	}
	return out
}

// xpath is a return path of a function after tail calls of module helpers have been opened.
type xpath struct {
	Atoms   []core.Atom
	Results []*core.Term
	Ret     *ssa.Return
	Path    string
}

// expandedReturnPaths enumerates the return paths of f; where f returns exactly the results of a call of a module helper
// (`return helper(x, y)`), the helper's own return paths take its place, their conditions and results lifted into f's vocabulary.
func expandedReturnPaths(p *core.Prog, f *ssa.Function, depth int) []xpath {
	rps, _ := core.ReturnPaths(p, f, 5000)
	var out []xpath
	for _, rp := range rps {
		if rp.Ret.Block().Comment == "recover" {
			continue
		}
		var site *ssa.Call
		tail := len(rp.Results) > 0 && depth < 3
		for i, r := range rp.Results {
			if r.Op != "extract" || r.Name != fmt.Sprint(i) || len(r.Args) != 1 || r.Args[0].Op != "call" {
				tail = false
				break
			}
			cs, ok := r.Args[0].Val.(*ssa.Call)
			if !ok || (site != nil && cs != site) {
				tail = false
				break
			}
			site = cs
		}
		if tail && site != nil {
			if h := site.Common().StaticCallee(); h != nil && core.InModule(h) && len(h.Blocks) > 0 && h.Signature.Results().Len() == len(rp.Results) {
				for _, hx := range expandedReturnPaths(p, h, depth+1) {
					x := xpath{Ret: rp.Ret, Path: rp.Path.String() + "→" + core.FuncName(h) + ":" + hx.Path}
					x.Atoms = append(x.Atoms, rp.Atoms...)
					for _, a := range hx.Atoms {
						x.Atoms = append(x.Atoms, core.Atom{Cond: liftWithEnv(rp.Env, a.Cond, site), Sign: a.Sign, Block: site.Block()})
					}
					for _, r := range hx.Results {
						x.Results = append(x.Results, liftWithEnv(rp.Env, r, site))
					}
					out = append(out, x)
				}
				continue
			}
		}
		out = append(out, xpath{Atoms: rp.Atoms, Results: rp.Results, Ret: rp.Ret, Path: rp.Path.String()})
	}
	return out
}

// openSuccessConds: for every accepting condition `helper(...)#k == nil` (k the helper's error result) of a module helper, the
// conditions of the helper's success paths are added (lifted into the caller's vocabulary). One variant per success path.
func openSuccessConds(p *core.Prog, atoms []core.Atom, depth int) [][]core.Atom {
	if depth > 2 {
		return [][]core.Atom{atoms}
	}
	for i, a := range atoms {
		n := a.Norm()
		if !n.Sign || n.Cond.Op != "binop" || n.Cond.Name != "==" || !n.Cond.Args[1].IsConst("nil") {
			continue
		}
		x := n.Cond.Args[0]
		if x.Op != "extract" || len(x.Args) != 1 || x.Args[0].Op != "call" {
			continue
		}
		site, ok := x.Args[0].Val.(*ssa.Call)
		if !ok {
			continue
		}
		h := site.Common().StaticCallee()
		if h == nil || !core.InModule(h) || len(h.Blocks) == 0 {
			continue
		}
		res := h.Signature.Results()
		k := 0
		fmt.Sscan(x.Name, &k)
		if k != res.Len()-1 || !isErrorType(res.At(k).Type()) {
			continue
		}
		rps, complete := core.ReturnPaths(p, h, 500)
		if !complete {
			continue
		}
		var out [][]core.Atom
		for _, rp := range rps {
			if rp.Ret.Block().Comment == "recover" || !rp.Results[k].IsConst("nil") {
				continue
			}
			variant := append([]core.Atom{}, atoms[:i]...)
			for _, ca := range rp.Atoms {
				variant = append(variant, core.Atom{Cond: liftThrough(p, ca.Cond, site), Sign: ca.Sign, Block: a.Block})
			}
			variant = append(variant, atoms[i+1:]...)
			out = append(out, openSuccessConds(p, variant, depth+1)...)
		}
		if len(out) > 0 {
			return out
		}
	}
	return [][]core.Atom{atoms}
}
