package rules

import (
	"fmt"
	"go/types"
	"sort"
	"strings"

	"golang.org/x/tools/go/ssa"

	"verif/tool/internal/core"
)

// Driver is a module type implementing common.TracerouteDriver.
type Driver struct {
	Name          string // "icmp.icmpDriver"
	Pkg           string
	Named         *types.Named
	SendProbe     *ssa.Function
	ReceiveProbe  *ssa.Function
	GetDriverInfo *ssa.Function
}

func lookupType(p *core.Prog, pkg, name string) types.Type {
	sp := p.SSAPkgs[pkg]
	if sp == nil {
		return nil
	}
	o := sp.Pkg.Scope().Lookup(name)
	if o == nil {
		return nil
	}
	return o.Type()
}

// Drivers resolves every module type whose pointer implements common.TracerouteDriver.
func Drivers(p *core.Prog) []Driver {
	it := lookupType(p, "common", "TracerouteDriver")
	if it == nil {
		return nil
	}
	iface, ok := it.Underlying().(*types.Interface)
	if !ok {
		return nil
	}
	var out []Driver
	for short, sp := range p.SSAPkgs {
		for _, m := range sp.Members {
			tn, ok := m.(*ssa.Type)
			if !ok {
				continue
			}
			named, ok := tn.Type().(*types.Named)
			if !ok {
				continue
			}
			if _, isI := named.Underlying().(*types.Interface); isI {
				continue
			}
			ptr := types.NewPointer(named)
			if !types.Implements(ptr, iface) {
				continue
			}
			if named.Obj().Name() == "MockDriver" {
				continue
			}
			d := Driver{Name: sp.Pkg.Name() + "." + named.Obj().Name(), Pkg: short, Named: named}
			ms := p.SSA.MethodSets.MethodSet(ptr)
			for i := 0; i < ms.Len(); i++ {
				f := p.SSA.MethodValue(ms.At(i))
				switch ms.At(i).Obj().Name() {
				case "SendProbe":
					d.SendProbe = f
				case "ReceiveProbe":
					d.ReceiveProbe = f
				case "GetDriverInfo":
					d.GetDriverInfo = f
				}
			}
			out = append(out, d)
		}
	}
	sort.Slice(out, func(i, j int) bool { return out[i].Name < out[j].Name })
	return out
}

// ModReach returns the module functions reachable from the roots through
// static calls, closures and VTA-resolved dynamic calls. Library code is never walked.
func ModReach(p *core.Prog, roots ...*ssa.Function) []*ssa.Function {
	cg := p.CallGraph()
	seen := map[*ssa.Function]bool{}
	var order []*ssa.Function
	var visit func(f *ssa.Function)
	visit = func(f *ssa.Function) {
		if f == nil || seen[f] || !core.InModule(f) {
			return
		}
		seen[f] = true
		order = append(order, f)
		if n := cg.Nodes[f]; n != nil {
			for _, e := range n.Out {
				visit(e.Callee.Func)
			}
		}
		for _, af := range f.AnonFuncs {
			visit(af)
		}
		// function values handed to library code (g.Go(worker), g.Go(run.loop)): the call graph has the edge from the library's
		// goroutine, not from here
		for _, b := range f.Blocks {
			for _, in := range b.Instrs {
				if mc, ok := in.(*ssa.MakeClosure); ok {
					if g, ok := mc.Fn.(*ssa.Function); ok {
						visit(g)
					}
					continue
				}
				if ci, ok := in.(ssa.CallInstruction); ok {
					for _, a := range ci.Common().Args {
						if g, ok := a.(*ssa.Function); ok {
							visit(g)
						}
					}
				}
			}
		}
	}
	for _, r := range roots {
		visit(r)
	}
	return order
}

// PathInfo is one feasible path to an accept site.
type PathInfo struct {
	Desc   string
	Events []Event // the path's effects in program order (calls that were not opened, stores, appends)
	Atoms  []core.Atom
	Fields map[string]*core.Term // TTL IP RTT IsDest
}

// AcceptSite is an allocation of common.ProbeResponse returned by a matcher.
type AcceptSite struct {
	Fn     *ssa.Function
	Alloc  *ssa.Alloc
	Ret    *ssa.Return
	Paths  []PathInfo
	Pruned int
	All    int
}

func isNamed(t types.Type, pkgPath, name string) bool {
	if p, ok := t.(*types.Pointer); ok {
		t = p.Elem()
	}
	n, ok := t.(*types.Named)
	if !ok {
		return false
	}
	return n.Obj().Name() == name && n.Obj().Pkg() != nil && n.Obj().Pkg().Path() == pkgPath
}

// typedFieldKey names a struct field by its owner type: "pkg.Type.field".
func typedFieldKey(fa *ssa.FieldAddr) (string, *types.Named) {
	pt, ok := fa.X.Type().Underlying().(*types.Pointer)
	if !ok {
		return "", nil
	}
	nt, ok := pt.Elem().(*types.Named)
	if !ok {
		return "", nil
	}
	st, ok := nt.Underlying().(*types.Struct)
	if !ok || nt.Obj().Pkg() == nil {
		return "", nil
	}
	return nt.Obj().Pkg().Name() + "." + nt.Obj().Name() + "." + st.Field(fa.Field).Name(), nt
}

// typedFieldsTouched: the fields of struct types declared in package pkg that the functions of pkg reachable from the roots
// read / write, keyed by owner type (so a table moved into a struct of its own is still one object).
func typedFieldsTouched(p *core.Prog, pkg *types.Package, roots ...*ssa.Function) (reads, writes map[string]bool) {
	reads, writes = map[string]bool{}, map[string]bool{}
	for _, f := range ModReach(p, roots...) {
		if core.FuncPkg(f) != pkg {
			continue
		}
		for _, b := range f.Blocks {
			for _, in := range b.Instrs {
				fa, ok := in.(*ssa.FieldAddr)
				if !ok {
					continue
				}
				k, nt := typedFieldKey(fa)
				if k == "" || nt.Obj().Pkg() != pkg {
					continue
				}
				if core.IsSyncType(fa.Type().Underlying().(*types.Pointer).Elem()) {
					continue
				}
				if addrWritten(fa, 0) {
					writes[k] = true
				} else {
					reads[k] = true
				}
			}
		}
	}
	return
}

var sentTableMemo = map[*ssa.Function]map[string]bool{}

// SentTableKeys: the storage through which SendProbe tells ReceiveProbe what was emitted – typed fields of the driver's package
// that SendProbe's tree writes and ReceiveProbe's tree reads.
func SentTableKeys(p *core.Prog, d Driver) map[string]bool {
	if m, ok := sentTableMemo[d.ReceiveProbe]; ok {
		return m
	}
	pkg := core.FuncPkg(d.ReceiveProbe)
	_, w := typedFieldsTouched(p, pkg, d.SendProbe)
	r, _ := typedFieldsTouched(p, pkg, d.ReceiveProbe)
	out := map[string]bool{}
	for k := range w {
		if r[k] {
			out[k] = true
		}
	}
	sentTableMemo[d.ReceiveProbe] = out
	return out
}

// readsSentTable: f (or a function of its package it calls) reads one of the sent-table fields: f is a lookup.
func readsSentTable(p *core.Prog, d Driver, f *ssa.Function) bool {
	return readsSentTableX(p, d, f, true)
}

// readsSentTableX with deep=false looks at f's own body only (the accessor proper, not a matcher arm that calls one).
func readsSentTableX(p *core.Prog, d Driver, f *ssa.Function, deep bool) bool {
	keys := SentTableKeys(p, d)
	pkg := core.FuncPkg(d.ReceiveProbe)
	fs := []*ssa.Function{f}
	if deep {
		fs = ModReach(p, f)
	}
	for _, g := range fs {
		if core.FuncPkg(g) != pkg {
			continue
		}
		for _, b := range g.Blocks {
			for _, in := range b.Instrs {
				if fa, ok := in.(*ssa.FieldAddr); ok {
					if k, _ := typedFieldKey(fa); keys[k] {
						return true
					}
				}
			}
		}
	}
	return false
}

// touchesPacket: f (or a function of its package it calls) handles decoded packet data – a value whose type is declared in the
// packets package or in gopacket. A function that reads the sent table without looking at the packet is an accessor (a lookup by
// key); one that does both is an arm of the matcher.
func touchesPacket(p *core.Prog, f *ssa.Function) bool {
	isPkt := func(t types.Type) bool {
		if pt, ok := t.Underlying().(*types.Pointer); ok {
			t = pt.Elem()
		}
		nt, ok := t.(*types.Named)
		if !ok || nt.Obj().Pkg() == nil {
			return false
		}
		path := nt.Obj().Pkg().Path()
		return path == core.ModulePath+"/packets" || strings.Contains(path, "gopacket")
	}
	pkg := core.FuncPkg(f)
	for _, g := range ModReach(p, f) {
		if core.FuncPkg(g) != pkg {
			continue
		}
		for _, pa := range g.Params {
			if isPkt(pa.Type()) {
				return true
			}
		}
		for _, b := range g.Blocks {
			for _, in := range b.Instrs {
				if v, ok := in.(ssa.Value); ok && v.Type() != nil {
					if _, isTuple := v.Type().(*types.Tuple); !isTuple && isPkt(v.Type()) {
						return true
					}
				}
			}
		}
	}
	return false
}

func hasLoop(f *ssa.Function) bool {
	for _, b := range f.Blocks {
		for _, s := range b.Succs {
			if s.Dominates(b) {
				return true
			}
		}
	}
	return false
}

func isProbeResponseAlloc(in ssa.Instruction) (*ssa.Alloc, bool) {
	al, ok := in.(*ssa.Alloc)
	if !ok || !al.Heap || !isNamed(al.Type(), core.ModulePath+"/common", "ProbeResponse") {
		return nil, false
	}
	return al, true
}

// AcceptSites builds the decision table of a driver's matcher: the inlined return paths of ReceiveProbe (helpers of the driver's
// package opened in place, whatever their signature) that hand out a freshly allocated ProbeResponse. Sent-probe lookups and
// helpers that loop stay opaque calls: the former are what R01.4 wants to see, the latter are computations, not decisions.
func AcceptSites(p *core.Prog, d Driver) []AcceptSite {
	reach := ModReach(p, d.ReceiveProbe)
	var allocs []*ssa.Alloc
	allocIn := map[*ssa.Function]bool{}
	for _, f := range reach {
		for _, b := range f.Blocks {
			for _, in := range b.Instrs {
				if al, ok := isProbeResponseAlloc(in); ok {
					allocs = append(allocs, al)
					allocIn[f] = true
				}
			}
		}
	}
	reachesAlloc := map[*ssa.Function]bool{}
	for _, f := range reach {
		for _, g := range ModReach(p, f) {
			if allocIn[g] {
				reachesAlloc[f] = true
				break
			}
		}
	}
	stop := func(h *ssa.Function) bool {
		if reachesAlloc[h] {
			return false
		}
		return hasLoop(h) || readsSentTable(p, d, h) && !touchesPacket(p, h)
	}
	// a helper that hands out an object filled in behind its back (a decoder: the address went to library code) is a source of
	// packet data, known to the rules by its name; opening it would lose that
	opaque := func(h *ssa.Function, inner []IPath) bool {
		for _, ip := range inner {
			for ri, r := range ip.Results {
				if ri < h.Signature.Results().Len() && isErrorType(h.Signature.Results().At(ri).Type()) {
					continue
				}
				if r != nil && r.Has(func(x *core.Term) bool {
					if x.Op != "alloc" {
						return false
					}
					al, ok := x.Val.(*ssa.Alloc)
					if !ok {
						return true
					}
					_, isResp := isProbeResponseAlloc(al)
					return !isResp
				}) {
					return true
				}
			}
		}
		return false
	}
	ips := InlinedPaths(p, d.ReceiveProbe, inlineOpts{pkg: core.FuncPkg(d.ReceiveProbe), stop: stop, maxDepth: 4, opaque: opaque})
	sites := map[*ssa.Alloc]*AcceptSite{}
	for _, al := range allocs {
		sites[al] = &AcceptSite{Fn: al.Parent(), Alloc: al}
	}
	for _, ip := range ips {
		if len(ip.Results) == 0 || ip.Results[0] == nil || ip.Results[0].Op != "alloc" {
			continue
		}
		al, ok := ip.Results[0].Val.(*ssa.Alloc)
		if !ok || sites[al] == nil {
			continue
		}
		site := sites[al]
		site.Ret = ip.Ret
		site.All++
		fields := map[string]*core.Term{}
		st := al.Type().Underlying().(*types.Pointer).Elem().Underlying().(*types.Struct)
		for i := 0; i < st.NumFields(); i++ {
			fields[st.Field(i).Name()] = &core.Term{Op: "zero", Name: st.Field(i).Type().String(), Typ: st.Field(i).Type()}
		}
		for _, ev := range ip.Events {
			if ev.Kind != "store" {
				continue
			}
			if sto, ok := ev.Instr.(*ssa.Store); ok {
				if fa, ok := sto.Addr.(*ssa.FieldAddr); ok && fa.X == ssa.Value(al) {
					fields[st.Field(fa.Field).Name()] = ev.Val
					continue
				}
			}
			// a store through another name of the same response (a constructor's result completed by its caller)
			if ev.Addr != nil && ev.Addr.Op == "field" && len(ev.Addr.Args) == 1 && ev.Addr.Args[0].Op == "alloc" && ev.Addr.Args[0].Val == ssa.Value(al) {
				fields[ev.Addr.Name] = ev.Val
			}
		}
		if len(site.Paths) < 4000 {
			site.Paths = append(site.Paths, PathInfo{Desc: ip.Desc, Atoms: ip.Atoms, Fields: fields, Events: ip.Events})
		}
	}
	var out []AcceptSite
	for _, al := range allocs {
		out = append(out, *sites[al])
	}
	sort.SliceStable(out, func(i, j int) bool { return out[i].Alloc.Pos() < out[j].Alloc.Pos() })
	return out
}

// valueSub: result #idx of the call at site is, on the chosen success path of the callee, the term repl (caller's vocabulary).
type valueSub struct {
	site *ssa.Call
	idx  string
	repl *core.Term
}

// atomVariant is one virtual path after opening helpers: its conditions and the values the opened helpers return on it.
type atomVariant struct {
	Atoms []core.Atom
	Subs  []valueSub
}

func applySubs(t *core.Term, subs []valueSub) *core.Term {
	if len(subs) == 0 || t == nil {
		return t
	}
	return t.Subst(func(x *core.Term) *core.Term {
		if x.Op == "extract" && len(x.Args) == 1 && x.Args[0].Op == "call" {
			for _, sb := range subs {
				if x.Name == sb.idx && x.Args[0].Val == ssa.Value(sb.site) {
					return sb.repl
				}
			}
		}
		// a helper with a single result: its value is the call term itself
		if x.Op == "call" && x.Val != nil {
			for _, sb := range subs {
				if sb.idx == "0" && x.Val == ssa.Value(sb.site) {
					if cs := sb.site.Common().StaticCallee(); cs != nil && cs.Signature.Results().Len() == 1 {
						return sb.repl
					}
				}
			}
		}
		return nil
	})
}

func (v atomVariant) resolved() []core.Atom {
	if len(v.Subs) == 0 {
		return v.Atoms
	}
	out := make([]core.Atom, len(v.Atoms))
	for i, a := range v.Atoms {
		out[i] = core.Atom{Cond: applySubs(a.Cond, v.Subs), Sign: a.Sign, Block: a.Block}
	}
	return out
}

// expandHelperAtoms replaces every accepting atom that is a call of a boolean (or error-returning) helper defined in the
// driver's own package by the conditions of each of the helper's success paths. A method of the driver that returns
// (value, error) – a switch arm extracted into a method – is opened too: its success conditions are imported and its value
// result is replaced by what that path returns; plain value-producing functions and the sent-probe accessors stay opaque.
func expandHelperAtoms(p *core.Prog, d Driver, atoms []core.Atom, depth int) []atomVariant {
	if depth > 2 {
		return []atomVariant{{Atoms: atoms}}
	}
	for i, a := range atoms {
		n := a.Norm()
		if !n.Sign {
			continue
		}
		var callT *core.Term
		errIdx := -1
		switch {
		case n.Cond.Op == "call":
			callT = n.Cond
		case n.Cond.Op == "binop" && n.Cond.Name == "==" && n.Cond.Args[1].IsConst("nil") && n.Cond.Args[0].Op == "extract" && n.Cond.Args[0].Args[0].Op == "call":
			callT = n.Cond.Args[0].Args[0]
			fmt.Sscan(n.Cond.Args[0].Name, &errIdx)
		}
		if callT == nil || callT.Val == nil {
			continue
		}
		site, ok := callT.Val.(*ssa.Call)
		if !ok {
			continue
		}
		f := site.Common().StaticCallee()
		if f == nil || !core.InModule(f) || core.ShortPkg(core.FuncPkg(f)) != d.Pkg || f.Synthetic != "" {
			continue
		}
		// sent-probe accessors stay opaque (they are the lookups R01.4 wants to see)
		if len(site.Common().Args) > 0 && site.Common().Args[0] == ssa.Value(site.Parent().Params[0]) && isAccessorName(f.Name()) {
			continue
		}
		res := f.Signature.Results()
		valueIdx := -1
		if errIdx < 0 {
			if res.Len() != 1 {
				continue
			}
			if b, ok := res.At(0).Type().Underlying().(*types.Basic); !ok || b.Kind() != types.Bool {
				continue
			}
		} else if res.Len() == 1 && errIdx == 0 && isErrorType(res.At(0).Type()) {
			// error-only helper
		} else if res.Len() == 2 && errIdx == 1 && isErrorType(res.At(1).Type()) && d.Named != nil && f.Signature.Recv() != nil && types.Identical(f.Signature.Recv().Type(), types.NewPointer(d.Named)) && !isAccessorName(f.Name()) {
			valueIdx = 0
		} else {
			continue // value-producing functions stay opaque: their results are keys / fields of the reply
		}
		rps, complete := core.ReturnPaths(p, f, 500)
		if !complete {
			continue
		}
		var out []atomVariant
		for _, rp := range rps {
			if rp.Ret.Block().Comment == "recover" {
				continue
			}
			var extra []core.Atom
			var subs []valueSub
			if errIdx < 0 {
				r := rp.Results[0]
				if r.IsConst("false") {
					continue
				}
				if !r.IsConst("true") {
					extra = append(extra, core.Atom{Cond: liftThrough(p, r, site), Sign: true, Block: a.Block})
				}
			} else if !rp.Results[errIdx].IsConst("nil") {
				continue
			}
			if valueIdx >= 0 {
				subs = append(subs, valueSub{site, fmt.Sprint(valueIdx), liftThrough(p, rp.Results[valueIdx], site)})
			}
			variant := append([]core.Atom{}, atoms[:i]...)
			for _, ca := range rp.Atoms {
				variant = append(variant, core.Atom{Cond: liftThrough(p, ca.Cond, site), Sign: ca.Sign, Block: a.Block})
			}
			variant = append(variant, extra...)
			variant = append(variant, atoms[i+1:]...)
			for _, sub := range expandHelperAtoms(p, d, variant, depth+1) {
				out = append(out, atomVariant{Atoms: sub.Atoms, Subs: append(append([]valueSub{}, subs...), sub.Subs...)})
			}
		}
		if len(out) == 0 {
			return []atomVariant{{Atoms: atoms}}
		}
		return out
	}
	return []atomVariant{{Atoms: atoms}}
}

func isAccessorName(n string) bool {
	return strings.HasPrefix(n, "find") || strings.HasPrefix(n, "get") || strings.HasPrefix(n, "store")
}

// openPredicates opens the boolean / error-only helpers of package pkg (short name) in a list of path conditions: the generic
// form of expandHelperAtoms for functions that are not matchers (validators, decoders, selectors).
func openPredicates(p *core.Prog, pkg string, atoms []core.Atom) [][]core.Atom {
	var out [][]core.Atom
	for _, v := range expandHelperAtoms(p, Driver{Pkg: pkg}, atoms, 0) {
		out = append(out, v.resolved())
	}
	return out
}

// xpath is a return path of a function after tail calls of module helpers have been opened.
type xpath struct {
	Atoms   []core.Atom
	Results []*core.Term
	Ret     *ssa.Return
	Path    string
}

// expandedReturnPaths enumerates the return paths of f; where f returns exactly the results of a call of a module helper
// (`return helper(x, y)`), the helper's own return paths take its place, their conditions and results lifted into f's vocabulary.
func expandedReturnPaths(p *core.Prog, f *ssa.Function, depth int) []xpath {
	rps, _ := core.ReturnPaths(p, f, 5000)
	var out []xpath
	for _, rp := range rps {
		if rp.Ret.Block().Comment == "recover" {
			continue
		}
		var site *ssa.Call
		tail := len(rp.Results) > 0 && depth < 3
		for i, r := range rp.Results {
			if r.Op != "extract" || r.Name != fmt.Sprint(i) || len(r.Args) != 1 || r.Args[0].Op != "call" {
				tail = false
				break
			}
			cs, ok := r.Args[0].Val.(*ssa.Call)
			if !ok || (site != nil && cs != site) {
				tail = false
				break
			}
			site = cs
		}
		if tail && site != nil {
			if h := site.Common().StaticCallee(); h != nil && core.InModule(h) && len(h.Blocks) > 0 && h.Signature.Results().Len() == len(rp.Results) {
				for _, hx := range expandedReturnPaths(p, h, depth+1) {
					x := xpath{Ret: rp.Ret, Path: rp.Path.String() + "→" + core.FuncName(h) + ":" + hx.Path}
					x.Atoms = append(x.Atoms, rp.Atoms...)
					for _, a := range hx.Atoms {
						x.Atoms = append(x.Atoms, core.Atom{Cond: liftWithEnv(rp.Env, a.Cond, site), Sign: a.Sign, Block: site.Block()})
					}
					for _, r := range hx.Results {
						x.Results = append(x.Results, liftWithEnv(rp.Env, r, site))
					}
					out = append(out, x)
				}
				continue
			}
		}
		out = append(out, xpath{Atoms: rp.Atoms, Results: rp.Results, Ret: rp.Ret, Path: rp.Path.String()})
	}
	return out
}

// openSuccessConds: for every accepting condition `helper(...)#k == nil` (k the helper's error result) of a module helper, the
// conditions of the helper's success paths are added (lifted into the caller's vocabulary). One variant per success path.
func openSuccessConds(p *core.Prog, atoms []core.Atom, depth int) [][]core.Atom {
	if depth > 2 {
		return [][]core.Atom{atoms}
	}
	for i, a := range atoms {
		n := a.Norm()
		if !n.Sign || n.Cond.Op != "binop" || n.Cond.Name != "==" || !n.Cond.Args[1].IsConst("nil") {
			continue
		}
		x := n.Cond.Args[0]
		if x.Op != "extract" || len(x.Args) != 1 || x.Args[0].Op != "call" {
			continue
		}
		site, ok := x.Args[0].Val.(*ssa.Call)
		if !ok {
			continue
		}
		h := site.Common().StaticCallee()
		if h == nil || !core.InModule(h) || len(h.Blocks) == 0 {
			continue
		}
		res := h.Signature.Results()
		k := 0
		fmt.Sscan(x.Name, &k)
		if k != res.Len()-1 || !isErrorType(res.At(k).Type()) {
			continue
		}
		rps, complete := core.ReturnPaths(p, h, 500)
		if !complete {
			continue
		}
		var out [][]core.Atom
		for _, rp := range rps {
			if rp.Ret.Block().Comment == "recover" || !rp.Results[k].IsConst("nil") {
				continue
			}
			variant := append([]core.Atom{}, atoms[:i]...)
			for _, ca := range rp.Atoms {
				variant = append(variant, core.Atom{Cond: liftThrough(p, ca.Cond, site), Sign: ca.Sign, Block: a.Block})
			}
			variant = append(variant, atoms[i+1:]...)
			out = append(out, openSuccessConds(p, variant, depth+1)...)
		}
		if len(out) > 0 {
			return out
		}
	}
	return [][]core.Atom{atoms}
}

// liftTerm re-expresses a term computed in the frame of helper f in the frame of the function named root: a captured variable
// becomes the value bound where the closure is made, a parameter the argument of the helper's only call site in the module. It
// fails (false) when f is not reached from root alone: a closure made twice, a function with no or with several call sites.
func liftTerm(c *Ctx, f *ssa.Function, t *core.Term, root string, depth int) (*core.Term, bool) {
	if core.FuncName(f) == root {
		return t, true
	}
	if depth > 6 || f == nil {
		return t, false
	}
	if par := f.Parent(); par != nil {
		var mc *ssa.MakeClosure
		n := 0
		for _, b := range par.Blocks {
			for _, in := range b.Instrs {
				if m, ok := in.(*ssa.MakeClosure); ok && m.Fn == ssa.Value(f) {
					mc = m
					n++
				}
			}
		}
		if n != 1 {
			return t, false
		}
		paths := firstPath(par, mc.Block())
		if len(paths) == 0 {
			return t, false
		}
		env := core.NewEnv(c.P, paths[0])
		t2 := t.Subst(func(x *core.Term) *core.Term {
			if x.Op != "free" {
				return nil
			}
			for i, fv := range f.FreeVars {
				if fv.Name() != x.Name || i >= len(mc.Bindings) {
					continue
				}
				if al, ok := mc.Bindings[i].(*ssa.Alloc); ok {
					return env.LoadValue(al, mc)
				}
				return env.Term(mc.Bindings[i])
			}
			return nil
		})
		return liftTerm(c, par, t2, root, depth+1)
	}
	node := c.P.CallGraph().Nodes[f]
	if node == nil {
		return t, false
	}
	var site ssa.CallInstruction
	for _, e := range node.In {
		if e.Caller.Func == nil || !core.InModule(e.Caller.Func) || e.Site == nil {
			continue
		}
		if site != nil && site != e.Site {
			return t, false
		}
		site = e.Site
	}
	if site == nil || site.Common().IsInvoke() || site.Common().StaticCallee() != f {
		return t, false
	}
	caller := site.Parent()
	paths := firstPath(caller, site.Block())
	if len(paths) == 0 {
		return t, false
	}
	env := core.NewEnv(c.P, paths[0])
	args := site.Common().Args
	t2 := t.Subst(func(x *core.Term) *core.Term {
		if x.Op != "param" {
			return nil
		}
		for i, p := range f.Params {
			if p.Name() == x.Name && i < len(args) {
				return env.Term(args[i])
			}
		}
		return nil
	})
	return liftTerm(c, caller, t2, root, depth+1)
}

// reachedOnlyFrom reports whether module function f runs only as part of the function named root: it is root, a closure made
// inside such a function, or every call of it in the module sits in such a function.
func reachedOnlyFrom(c *Ctx, f *ssa.Function, root string, seen map[*ssa.Function]bool) bool {
	if f == nil || seen[f] {
		return false
	}
	if core.FuncName(f) == root {
		return true
	}
	seen[f] = true
	defer delete(seen, f)
	if par := f.Parent(); par != nil {
		return reachedOnlyFrom(c, par, root, seen)
	}
	node := c.P.CallGraph().Nodes[f]
	if node == nil {
		return false
	}
	n := 0
	for _, e := range node.In {
		if e.Caller.Func == nil || !core.InModule(e.Caller.Func) {
			continue
		}
		n++
		if !reachedOnlyFrom(c, e.Caller.Func, root, seen) {
			return false
		}
	}
	return n > 0
}

// checkFamilySeparation is R01.10 (shared with C04 and C09): the address pair the frame parser builds from an IPv6 header keeps
// the addresses as IPv6 addresses. Unmapping them would make `::ffff:a.b.c.d` equal to the IPv4 address a.b.c.d, and every driver
// decides "from the target / on this flow" by comparing these pairs: an IPv6 packet with v4-mapped addresses would then be taken
// for a reply of an IPv4 run (a destination reply from another address, another flow credited to a probe, a wrong-family packet
// that changes the result instead of being skipped).
func checkFamilySeparation(c *Ctx) {
	R := c.R
	n := 0
	for _, f := range c.P.ModFuncs {
		if core.ShortPkg(core.FuncPkg(f)) != "packets" || len(f.Blocks) == 0 || f.Signature.Results().Len() == 0 {
			continue
		}
		if nt, ok := f.Signature.Results().At(0).Type().(*types.Named); !ok || nt.Obj().Name() != "IPPair" {
			continue
		}
		v6 := false
		for _, p := range f.Params {
			if pt, ok := p.Type().(*types.Pointer); ok {
				if nt, ok := pt.Elem().(*types.Named); ok && nt.Obj().Name() == "IPv6" && nt.Obj().Pkg() != nil && strings.HasSuffix(nt.Obj().Pkg().Path(), "gopacket/layers") {
					v6 = true
				}
			}
		}
		if !v6 {
			continue
		}
		n++
		fn := core.FuncName(f)
		bad := ""
		for _, ip := range InlinedPaths(c.P, f, inlineOpts{pkg: core.FuncPkg(f), openAll: true}) {
			if len(ip.Results) == 0 {
				continue
			}
			if ip.Results[0].Has(func(x *core.Term) bool { return x.Op == "call" && x.Name == "(netip.Addr).Unmap" }) {
				bad = ip.Results[0].String()
			}
		}
		R.Check(bad == "", "R01.10", fn+"#family-kept", f.Pos(), fn, "the pair built from an IPv6 header keeps IPv6 addresses (no Unmap)", "the address pair built from an IPv6 header is unmapped ("+bad+"): an IPv6 packet from ::ffff:a.b.c.d then compares equal to the IPv4 address a.b.c.d, so it passes the target / flow comparisons of an IPv4 run - a reply of the wrong family creates or marks a hop instead of being skipped")
	}
	R.Floor("R01.10:v6-pair-builders", n, 1)
}
