package rules

import (
	"fmt"
	"go/token"
	"go/types"
	"reflect"
	"sort"
	"strings"

	"golang.org/x/tools/go/ssa"

	"verif/tool/internal/core"
)

func init() {
	register("C16", "Decides only the structural clauses of the result document: (R16.1) the published JSON contract read from the struct tags of the type-checked program: every key of the frozen list is still produced by a field at the same place in the document with the same tag options and JSON kind, internal fields stay tagged '-'; additional keys are reported for information only; (R16.2) TestRunID and every RunID are assigned from a call of the UUID helper that sits inside the per-document / per-run loop body, the helper's value originates from uuid.New(), and Normalize calls all five passes on every path; (R16.3) the only store of true into TracerouteHop.Reachable is control-dependent on that hop's own IPAddress being non-empty; (R16.4–R16.6) provenance of the end-to-end statistics: packets sent is len(samples), packets received is the counter that grows with the positive-sample slice under the same `> 0` guard, and min/avg/max/jitter are functions of that slice alone (backward dataflow slice of each stored value) that pass through the same scalar post-processing steps, so that a rounding / clamping of only some of them is reported. The numeric clauses (min <= avg <= max, loss ratio, jitter bounds, JSON round-trip equality of values) are NOT decided by this family: they quantify over arithmetic on runtime values. (R16.7) The per-run hop count entering the hop-count statistics is the run's length or the position of one of its hops on every path (also when computed by a helper), never a constant. No trip through the loop over the runs gets around every append of a per-run hop count. R05.4 (the hops' provenance in ToHops, including address = AsSlice of the probe's address) is shared with C05.", runC16)
}

// jsonContract: type → field → (key, omitempty, kind). Frozen from the published documentation of the result document.
type jsonField struct {
	key       string
	omitempty bool
	kind      string
}

var jsonContract = map[string]map[string]jsonField{
	"Results":               {"TestRunID": {"test_run_id", false, "string"}, "Protocol": {"protocol", false, "string"}, "Source": {"source", false, "object"}, "Destination": {"destination", false, "object"}, "Traceroute": {"traceroute", false, "object"}, "E2eProbe": {"e2e_probe", false, "object"}},
	"E2eProbe":              {"RTTs": {"rtts", false, "array"}, "PacketsSent": {"packets_sent", false, "number"}, "PacketsReceived": {"packets_received", false, "number"}, "PacketLossPercentage": {"packet_loss_percentage", false, "number"}, "Jitter": {"jitter", false, "number"}, "RTT": {"rtt", false, "object"}},
	"E2eProbeRTT":           {"Avg": {"avg", false, "number"}, "Min": {"min", false, "number"}, "Max": {"max", false, "number"}},
	"HopCountStats":         {"Avg": {"avg", false, "number"}, "Min": {"min", false, "number"}, "Max": {"max", false, "number"}},
	"Traceroute":            {"Runs": {"runs", false, "array"}, "HopCount": {"hop_count", false, "object"}},
	"TracerouteRun":         {"RunID": {"run_id", false, "string"}, "Source": {"source", false, "object"}, "Destination": {"destination", false, "object"}, "Hops": {"hops", false, "array"}},
	"TracerouteHop":         {"TTL": {"ttl", false, "number"}, "IPAddress": {"ip_address", false, "string"}, "RTT": {"rtt", false, "number"}, "Reachable": {"reachable", false, "bool"}, "ReverseDns": {"reverse_dns", true, "array"}, "IsDest": {"-", false, ""}, "Port": {"-", false, ""}, "ICMPType": {"-", false, ""}, "ICMPCode": {"-", false, ""}},
	"TracerouteSource":      {"IPAddress": {"ip_address", false, "string"}, "Port": {"port", false, "number"}},
	"TracerouteDestination": {"IPAddress": {"ip_address", false, "string"}, "Port": {"port", false, "number"}, "ReverseDns": {"reverse_dns", true, "array"}},
	"Destination":           {"Hostname": {"hostname", false, "string"}, "Port": {"port", false, "number"}},
	"Source":                {"PublicIP": {"public_ip", false, "string"}},
}

func jsonKind(t types.Type) string {
	if t.String() == "net.IP" {
		return "string" // encoding/json renders net.IP through MarshalText
	}
	switch u := t.Underlying().(type) {
	case *types.Basic:
		switch {
		case u.Info()&types.IsString != 0:
			return "string"
		case u.Info()&types.IsBoolean != 0:
			return "bool"
		case u.Info()&types.IsNumeric != 0:
			return "number"
		}
	case *types.Slice, *types.Array:
		return "array"
	case *types.Struct, *types.Map:
		return "object"
	case *types.Pointer:
		return jsonKind(u.Elem())
	}
	return "?"
}

func runC16(c *Ctx) {
	R := c.R
	// where the document's hops come from (shared with C05 R05.4): every hop's address is the probe's address as bytes - the
	// value `reachable` is derived from and that has to serialise
	checkToHops(c)
	sp := c.P.SSAPkgs["result"]
	if sp == nil {
		R.Fail("R16.1", "result#package", 0, "", "package result not loaded")
		return
	}
	nkeys := 0
	var tnames []string
	for tn := range jsonContract {
		tnames = append(tnames, tn)
	}
	sort.Strings(tnames)
	for _, tn := range tnames {
		want := jsonContract[tn]
		obj := sp.Pkg.Scope().Lookup(tn)
		if obj == nil {
			R.Fail("R16.1", "result."+tn+"#type", 0, "result."+tn, "document type no longer exists")
			continue
		}
		st, ok := obj.Type().Underlying().(*types.Struct)
		if !ok {
			R.Fail("R16.1", "result."+tn+"#type", obj.Pos(), "result."+tn, "document type is no longer a struct")
			continue
		}
		got := map[string]bool{}
		for i := 0; i < st.NumFields(); i++ {
			f := st.Field(i)
			tag := reflect.StructTag(st.Tag(i)).Get("json")
			parts := strings.Split(tag, ",")
			key := parts[0]
			if key == "" {
				key = f.Name()
			}
			omit := false
			for _, p := range parts[1:] {
				if p == "omitempty" {
					omit = true
				}
			}
			w, known := want[f.Name()]
			ckey := fmt.Sprintf("result.%s#key[%s]", tn, f.Name())
			if !known {
				if key != "-" && f.Exported() {
					R.Info("R16.1", ckey, f.Pos(), "result."+tn, "additional key "+key+" (not part of the frozen contract)")
				}
				continue
			}
			got[f.Name()] = true
			nkeys++
			if w.key == "-" {
				R.Check(key == "-", "R16.1", ckey, f.Pos(), "result."+tn, "internal field stays hidden", "internal field "+f.Name()+" is now published as "+key)
				continue
			}
			kind := jsonKind(f.Type())
			ok := key == w.key && omit == w.omitempty && kind == w.kind
			R.Check(ok, "R16.1", ckey, f.Pos(), "result."+tn, fmt.Sprintf("%s → %q (%s, omitempty=%v)", f.Name(), key, kind, omit), fmt.Sprintf("published key changed: field %s is now %q (%s, omitempty=%v), contract says %q (%s, omitempty=%v)", f.Name(), key, kind, omit, w.key, w.kind, w.omitempty))
		}
		for fname, w := range want {
			if !got[fname] {
				R.Fail("R16.1", fmt.Sprintf("result.%s#key[%s]", tn, fname), obj.Pos(), "result."+tn, "field "+fname+" (key "+w.key+") no longer exists in the document")
			}
		}
	}
	R.Floor("R16.1:contract-fields", nkeys, 41)
	// the document nests the types at the contract's places
	checkNest := func(tn, field, wantType string) {
		obj := sp.Pkg.Scope().Lookup(tn)
		if obj == nil {
			return
		}
		st := obj.Type().Underlying().(*types.Struct)
		for i := 0; i < st.NumFields(); i++ {
			if st.Field(i).Name() == field {
				R.Check(strings.HasSuffix(st.Field(i).Type().String(), wantType), "R16.1", fmt.Sprintf("result.%s#nest[%s]", tn, field), st.Field(i).Pos(), "result."+tn, field+" holds "+wantType, field+" now holds "+st.Field(i).Type().String())
			}
		}
	}
	checkNest("Results", "Traceroute", "result.Traceroute")
	checkNest("Results", "E2eProbe", "result.E2eProbe")
	checkNest("Results", "Source", "result.Source")
	checkNest("Results", "Destination", "result.Destination")
	checkNest("Traceroute", "Runs", "[]"+core.ModulePath+"/result.TracerouteRun")
	checkNest("Traceroute", "HopCount", "result.HopCountStats")
	checkNest("TracerouteRun", "Hops", "[]*"+core.ModulePath+"/result.TracerouteHop")
	checkNest("TracerouteRun", "Source", "result.TracerouteSource")
	checkNest("TracerouteRun", "Destination", "result.TracerouteDestination")
	checkNest("E2eProbe", "RTT", "result.E2eProbeRTT")

	// R16.2 – by role, not by name: a fresh-id function is a parameterless string function of package result whose every
	// result derives from uuid.New(); the identifiers are written only inside Normalize's call tree, from such a call, the run id
	// inside the per-run loop; Normalize is straight-line and its call tree writes every derived field of the document.
	nz := c.P.Func("(*result.Results).Normalize")
	if nz == nil {
		R.Fail("R16.2", "result.Normalize#anchor", 0, "", "anchor (*result.Results).Normalize no longer resolves")
	} else {
		inPass := map[*ssa.Function]bool{}
		for _, g := range ModReach(c.P, nz) {
			inPass[g] = true
		}
		freshMemo := map[*ssa.Function]bool{}
		freshFn := func(h *ssa.Function) bool {
			if h == nil || !core.InModule(h) || len(h.Blocks) == 0 || len(h.Params) != 0 {
				return false
			}
			if v, ok := freshMemo[h]; ok {
				return v
			}
			ips := InlinedPaths(c.P, h, inlineOpts{pkg: core.FuncPkg(h)})
			ok := len(ips) > 0
			for _, ip := range ips {
				if len(ip.Results) != 1 || !strings.Contains(ip.Results[0].String(), "uuid.New()") {
					ok = false
				}
			}
			freshMemo[h] = ok
			return ok
		}
		nstore, nfresh := 0, 0
		written := map[string]bool{}
		for _, f := range c.P.ModFuncs {
			n := core.FuncName(f)
			if strings.Contains(n, "Mock") || strings.HasPrefix(n, "testutils") {
				continue
			}
			for _, b := range f.Blocks {
				for _, in := range b.Instrs {
					st, ok := in.(*ssa.Store)
					if !ok {
						continue
					}
					fa, ok := st.Addr.(*ssa.FieldAddr)
					if !ok || !isNamedStruct(fa.X.Type(), "result") {
						continue
					}
					fname := core.FieldName(fa)
					if inPass[f] {
						written[fname] = true
					}
					if fname != "TestRunID" && fname != "RunID" {
						continue
					}
					nstore++
					if !inPass[f] {
						R.Fail("R16.2", n+"#"+fname, st.Pos(), n, fname+" is also written outside the normalisation pass")
						continue
					}
					call, isCall := st.Val.(*ssa.Call)
					fresh := isCall && freshFn(call.Common().StaticCallee())
					if fresh {
						nfresh++
					}
					inLoopOK := true
					if fname == "RunID" {
						loop := innermostLoop(f, b)
						inLoopOK = loop != nil && isCall && loop[call.Block()]
						// the written run is the loop's own element (index expression on the loop variable, or a per-iteration pointer)
						if loop != nil {
							switch x := fa.X.(type) {
							case *ssa.IndexAddr:
								if _, isPhi := x.Index.(*ssa.Phi); !isPhi {
									if bo, ok := x.Index.(*ssa.BinOp); !ok || bo.Op.String() != "+" {
										inLoopOK = false
									}
								}
							default:
								if vi, ok := fa.X.(ssa.Instruction); !ok || !loop[vi.Block()] {
									inLoopOK = false
								}
							}
						}
					}
					R.Check(fresh && inLoopOK, "R16.2", fmt.Sprintf("%s#%s", n, fname), st.Pos(), n, fname+" is assigned a fresh identifier (uuid.New()) evaluated per document / per run", fname+" is not assigned from a uuid.New()-based helper call inside the per-run loop: identifiers would repeat")
				}
			}
		}
		R.Floor("R16.2:id-stores", nstore, 2)
		R.Floor("R16.2:fresh-id-calls", nfresh, 2)
		// every derived part of the document is written somewhere in Normalize's tree, and Normalize runs its passes unconditionally
		var missing []string
		for _, fld := range []string{"TestRunID", "RunID", "Reachable", "PacketsSent", "PacketsReceived", "Jitter"} {
			if !written[fld] {
				missing = append(missing, fld)
			}
		}
		if !(written["HopCount"] || (written["Avg"] && written["Min"] && written["Max"])) {
			missing = append(missing, "HopCount")
		}
		straight := len(nz.Blocks) == 1
		R.Check(len(missing) == 0 && straight, "R16.2", "result.Normalize#passes", nz.Pos(), core.FuncName(nz), "Normalize runs its passes unconditionally and they write every derived field", fmt.Sprintf("Normalize no longer derives %v (straight-line=%v)", missing, straight))
	}
	// R16.3
	nreach := 0
	for _, f := range c.P.ModFuncs {
		if strings.Contains(core.FuncName(f), "Mock") || strings.HasPrefix(core.FuncName(f), "testutils") {
			continue
		}
		for _, b := range f.Blocks {
			for _, in := range b.Instrs {
				st, ok := in.(*ssa.Store)
				if !ok {
					continue
				}
				fa, ok := st.Addr.(*ssa.FieldAddr)
				if !ok || !isNamed(fa.X.Type(), core.ModulePath+"/result", "TracerouteHop") {
					continue
				}
				fname := fa.X.Type().Underlying().(*types.Pointer).Elem().Underlying().(*types.Struct).Field(fa.Field).Name()
				if fname != "Reachable" {
					continue
				}
				if cst, ok := st.Val.(*ssa.Const); ok && cst.Value != nil && cst.Value.ExactString() == "false" {
					continue
				}
				nreach++
				fn := core.FuncName(f)
				okAll := true
				detail := ""
				paths, _ := core.EnumPaths(f, b, 2000)
				for _, pa := range paths {
					env := core.NewEnv(c.P, pa)
					atoms := env.Atoms()
					if !core.Feasible(atoms) {
						continue
					}
					target := env.Term(fa.X) // the hop written
					tested := false
					for _, a := range atoms {
						nn := a.Norm()
						// ¬ Equal(hop.IPAddress, net.IP{})  /  len(hop.IPAddress) > 0
						s := nn.Cond
						if s.Op == "call" && strings.HasSuffix(s.Name, "(net.IP).Equal") && !nn.Sign && len(s.Args) == 2 {
							ipt := s.Args[0]
							if ipt.Op == "field" && ipt.Name == "IPAddress" && sameHop(ipt.Args[0], target) {
								tested = true
							} else {
								detail = "tests " + ipt.String() + " but writes " + target.String()
							}
						}
					}
					if !tested {
						okAll = false
					}
				}
				R.Check(okAll, "R16.3", fn+"#reachable", st.Pos(), fn, "Reachable=true only under the hop's own address being non-empty", "Reachable is set without testing that hop's own IPAddress ("+detail+")")
			}
		}
	}
	checkE2eProvenance(c)
	checkHopCounts(c)
	checkNormalizeAlwaysRuns(c)
	R.Floor("R16.3:reachable-stores", nreach, 1)
	R.Check(nreach == 1, "R16.3", "module#reachable-store-census", 0, "", "exactly one site sets Reachable", fmt.Sprintf("%d sites set Reachable; the reviewed set has one", nreach))
}

// checkE2eProvenance: R16.4–R16.6, the provenance clauses of the end-to-end statistics: packets sent is the sample count, packets
// received counts exactly the samples that pass the same `> 0` guard that builds the positive-sample slice, and every statistic the
// property bounds by the positive samples (min, avg, max, jitter) is computed from that slice. The numeric relations themselves are not decided.
func checkE2eProvenance(c *Ctx) {
	R := c.R
	f := c.P.Func("(*result.Results).normalizeE2eProbe")
	if f == nil {
		R.Fail("R16.4", "result.normalizeE2eProbe#anchor", 0, "", "anchor (*result.Results).normalizeE2eProbe no longer resolves")
		return
	}
	fn := core.FuncName(f)
	isRTTs := func(v ssa.Value) bool {
		ld, ok := v.(*ssa.UnOp)
		if !ok {
			return false
		}
		fa, ok := ld.X.(*ssa.FieldAddr)
		return ok && core.FieldName(fa) == "RTTs"
	}
	// the positive-sample slice S and the counter that grows with it: built here, or by a filter helper applied to the samples
	var S ssa.Value
	Sphi, C := positiveFilter(f, isRTTs)
	if Sphi != nil {
		S = Sphi
	} else {
		for _, b := range f.Blocks {
			for _, in := range b.Instrs {
				call, ok := in.(*ssa.Call)
				if !ok || call.Common().StaticCallee() == nil || len(call.Common().Args) == 0 {
					continue
				}
				h := call.Common().StaticCallee()
				if !core.InModule(h) || len(h.Blocks) == 0 || len(h.Params) == 0 {
					continue
				}
				for ai, a := range call.Common().Args {
					if !isRTTs(a) || ai >= len(h.Params) {
						continue
					}
					prm := h.Params[ai]
					if hp, _ := positiveFilter(h, func(v ssa.Value) bool { return v == ssa.Value(prm) }); hp != nil {
						// the helper returns exactly that slice
						returnsIt := false
						for _, hb := range h.Blocks {
							if ret, ok := hb.Instrs[len(hb.Instrs)-1].(*ssa.Return); ok && len(ret.Results) == 1 && ret.Results[0] == ssa.Value(hp) {
								returnsIt = true
							}
						}
						if returnsIt {
							S = call
						}
					}
				}
			}
		}
	}
	if S == nil {
		R.Fail("R16.5", fn+"#positive-samples", f.Pos(), fn, "no slice is built from exactly the samples > 0: the positive-sample set the statistics are defined over is not identifiable (undecided)")
		return
	}
	for _, b := range f.Blocks {
		for _, in := range b.Instrs {
			switch x := in.(type) {
			case *ssa.Store:
				fa, ok := x.Addr.(*ssa.FieldAddr)
				if !ok {
					continue
				}
				switch core.FieldName(fa) {
				case "PacketsSent":
					ok := false
					if call, isCall := x.Val.(*ssa.Call); isCall {
						if bi, isB := call.Common().Value.(*ssa.Builtin); isB && bi.Name() == "len" && isRTTs(call.Common().Args[0]) {
							ok = true
						}
					}
					R.Check(ok, "R16.4", fn+"#packets-sent", x.Pos(), fn, "PacketsSent = len(RTTs)", "PacketsSent is not the number of RTT samples")
				case "PacketsReceived":
					okc := C != nil && x.Val == ssa.Value(C)
					if call, isCall := x.Val.(*ssa.Call); isCall {
						if bi, isB := call.Common().Value.(*ssa.Builtin); isB && bi.Name() == "len" && call.Common().Args[0] == ssa.Value(S) {
							okc = true
						}
					}
					R.Check(okc, "R16.5", fn+"#packets-received", x.Pos(), fn, "PacketsReceived counts exactly the samples that enter the positive-sample slice", "PacketsReceived is not the counter that grows together with the positive-sample slice (samples > 0)")
				}
			}
		}
	}
	// R16.6: every statistic is a function of the positive-sample slice alone. Backward slice of each stored value through
	// arithmetic, phis, conversions, element loads and call arguments; it must reach S and must not reach the raw sample list.
	nstat := 0
	postOf, postPos := map[string]string{}, map[string]token.Pos{}
	for _, b := range f.Blocks {
		for _, in := range b.Instrs {
			st, ok := in.(*ssa.Store)
			if !ok {
				continue
			}
			fa, ok := st.Addr.(*ssa.FieldAddr)
			if !ok {
				continue
			}
			name := core.FieldName(fa)
			whole := false
			if name == "RTT" {
				// min / avg / max assigned in one go as a struct value (a helper that summarises the samples)
				if pt, ok := fa.Type().Underlying().(*types.Pointer); ok {
					if _, isStruct := pt.Elem().Underlying().(*types.Struct); isStruct {
						whole = true
					}
				}
			}
			if name != "Min" && name != "Max" && name != "Avg" && name != "Jitter" && !whole {
				continue
			}
			nstat++
			if whole {
				nstat += 2
			}
			seenS, seenRaw := false, false
			post := map[string]bool{}
			seen := map[ssa.Value]bool{}
			var walk func(v ssa.Value, d int)
			walk = func(v ssa.Value, d int) {
				if v == nil || seen[v] || d > 40 {
					return
				}
				seen[v] = true
				if v == ssa.Value(S) {
					seenS = true
					return
				}
				if isRTTs(v) {
					seenRaw = true
					return
				}
				switch y := v.(type) {
				case *ssa.BinOp:
					walk(y.X, d+1)
					walk(y.Y, d+1)
				case *ssa.UnOp:
					walk(y.X, d+1)
				case *ssa.Convert:
					walk(y.X, d+1)
				case *ssa.ChangeType:
					walk(y.X, d+1)
				case *ssa.Phi:
					for _, e := range y.Edges {
						walk(e, d+1)
					}
				case *ssa.IndexAddr:
					walk(y.X, d+1)
				case *ssa.Slice:
					walk(y.X, d+1)
				case *ssa.Extract:
					walk(y.Tuple, d+1)
				case *ssa.Call:
					takesS := false
					for _, a := range y.Common().Args {
						if a == ssa.Value(S) {
							takesS = true
						}
						walk(a, d+1)
					}
					if _, isB := y.Common().Value.(*ssa.Builtin); !takesS && !isB {
						post[core.CalleeName(y.Common())] = true
					}
				case *ssa.Alloc:
					for _, r := range *y.Referrers() {
						if s2, ok := r.(*ssa.Store); ok && s2.Addr == ssa.Value(y) {
							walk(s2.Val, d+1)
						}
					}
				}
			}
			walk(st.Val, 0)
			key := fn + "#stat-input[" + name + "]"
			switch {
			case seenRaw:
				R.Fail("R16.6", key, st.Pos(), fn, "the statistic "+name+" is computed from the raw sample list: lost probes (RTT 0) enter it, so it is no longer bounded by the positive samples")
			case !seenS:
				R.Fail("R16.6", key, st.Pos(), fn, "the statistic "+name+" does not depend on the positive-sample slice")
			default:
				R.OK("R16.6", key, st.Pos(), fn, name+" is a function of the positive samples only")
			}
			var pl []string
			for k := range post {
				pl = append(pl, k)
			}
			sort.Strings(pl)
			if whole {
				for _, nm := range []string{"Min", "Max", "Avg"} {
					postOf[nm] = strings.Join(pl, ",")
					postPos[nm] = st.Pos()
				}
			} else {
				postOf[name] = strings.Join(pl, ",")
				postPos[name] = st.Pos()
			}
		}
	}
	// the property orders these statistics against each other (min <= avg <= max, jitter <= max-min): a scalar post-processing
	// step (rounding, clamping, unit change) applied to some of them and not to the others does not preserve those relations
	ref, refSet := "", false
	for _, name := range []string{"Min", "Max", "Avg", "Jitter"} {
		p, ok := postOf[name]
		if !ok {
			continue
		}
		if !refSet {
			ref, refSet = p, true
			continue
		}
		if p != ref {
			R.Fail("R16.6", fn+"#uniform-post-processing["+name+"]", postPos[name], fn, "the statistic "+name+" passes through ["+p+"] after aggregation while Min passes through ["+ref+"]: a scalar step applied to only some of the statistics (rounding, clamping) breaks min <= avg <= max / jitter <= max-min for samples off its grid")
		}
	}
	R.Floor("R16.6:statistics", nstat, 4)
}

func isNamedStruct(t types.Type, pkg string) bool {
	if p, ok := t.(*types.Pointer); ok {
		t = p.Elem()
	}
	n, ok := t.(*types.Named)
	return ok && n.Obj().Pkg() != nil && n.Obj().Pkg().Path() == core.ModulePath+"/"+pkg
}

// sameHop: both terms denote Runs[i].Hops[j] of the receiver for the same i and j.
func sameHop(a, b *core.Term) bool {
	ia, ja := hopIndex(a)
	ib, jb := hopIndex(b)
	return ia != "" && ia == ib && ja == jb
}

// hopIndex extracts the (run index, hop index) keys of a term shaped …Runs[i]….Hops[j] (through range copies).
func hopIndex(t *core.Term) (string, string) {
	var idx []string
	t.Walk(func(x *core.Term) bool {
		if x.Op == "index" && len(x.Args) == 2 {
			idx = append(idx, x.Args[1].Key())
		}
		return true
	})
	if len(idx) < 2 {
		return "", ""
	}
	// outermost index first in walk order: Hops[j] then Runs[i]
	return idx[len(idx)-1], idx[0]
}

func loopOfHeaderOrNil(h *ssa.BasicBlock) map[*ssa.BasicBlock]bool {
	if h == nil {
		return nil
	}
	return loopOfHeader(h)
}

// positiveFilter finds, in g, the slice that collects exactly the raw samples x with x > 0 (a loop-carried phi that grows by
// append(phi, x) in the true branch of `x > 0`, x an element of the raw list) and the counter incremented in the same branch.
func positiveFilter(g *ssa.Function, isRaw func(ssa.Value) bool) (S, C *ssa.Phi) {
	for _, b := range g.Blocks {
		for _, in := range b.Instrs {
			phi, ok := in.(*ssa.Phi)
			if !ok {
				continue
			}
			for _, e := range phi.Edges {
				call, ok := e.(*ssa.Call)
				if !ok {
					continue
				}
				bi, ok := call.Common().Value.(*ssa.Builtin)
				if !ok || bi.Name() != "append" || call.Common().Args[0] != ssa.Value(phi) {
					continue
				}
				ab := call.Block()
				if len(ab.Preds) != 1 {
					continue
				}
				iff, ok := ab.Preds[0].Instrs[len(ab.Preds[0].Instrs)-1].(*ssa.If)
				if !ok || ab.Preds[0].Succs[0] != ab {
					continue
				}
				bo, ok := iff.Cond.(*ssa.BinOp)
				if !ok || bo.Op.String() != ">" {
					continue
				}
				if cst, ok := bo.Y.(*ssa.Const); !ok || cst.Value == nil || cst.Float64() != 0 {
					continue
				}
				el, ok := bo.X.(*ssa.UnOp)
				if !ok {
					continue
				}
				ia, ok := el.X.(*ssa.IndexAddr)
				if !ok || !isRaw(ia.X) {
					continue
				}
				S = phi
				for _, in2 := range phi.Block().Instrs {
					p2, ok := in2.(*ssa.Phi)
					if !ok || p2 == phi {
						continue
					}
					for _, e2 := range p2.Edges {
						if inc, ok := e2.(*ssa.BinOp); ok && inc.Op.String() == "+" && inc.X == ssa.Value(p2) && inc.Block() == ab {
							if cst, ok := inc.Y.(*ssa.Const); ok && cst.Int64() == 1 {
								C = p2
							}
						}
					}
				}
			}
		}
	}
	return S, C
}

// checkHopCounts is R16.7: the per-run hop count that enters the hop-count statistics lies within the run's length: on every path
// through the per-run computation the value appended to the list of counts is len(run.Hops) or (index of one of its hops)+1 –
// never a constant (a run whose hops are all unanswered would count 0 hops, outside [1, len], and collide with the minimum's
// "unset" sentinel).
func checkHopCounts(c *Ctx) {
	R := c.R
	sp := c.P.SSAPkgs["result"]
	var f *ssa.Function
	// by role: the function of the package that stores the Min of the hop-count statistics
	for _, g := range c.P.ModFuncs {
		if sp == nil || core.FuncPkg(g) != sp.Pkg {
			continue
		}
		for _, b := range g.Blocks {
			for _, in := range b.Instrs {
				if st, ok := in.(*ssa.Store); ok {
					if fa, ok := st.Addr.(*ssa.FieldAddr); ok && core.FieldName(fa) == "Min" && isNamed(fa.X.Type(), core.ModulePath+"/result", "HopCountStats") && g.Signature.Recv() != nil {
						f = g
					}
					// or the statistics as a whole (computed by a helper)
					if isNamed(st.Val.Type(), core.ModulePath+"/result", "HopCountStats") && g.Signature.Recv() != nil {
						if _, isConst := st.Val.(*ssa.Const); !isConst {
							f = g
						}
					}
				}
			}
		}
	}
	if f == nil {
		R.Fail("R16.7", "result#hop-count-stats", 0, "", "no function stores HopCountStats.Min: anchor lost")
		return
	}
	fn := core.FuncName(f)
	n := 0
	appendBlocks := map[*ssa.BasicBlock]bool{}
	var appendCalls []*ssa.Call
	defer func() {
		// every run contributes a count: no trip through the loop over the runs gets around every append of a count (a
		// `continue` in front of it). Leaving runs out makes the list shorter than the runs and, when all are left out, empty:
		// the average becomes 0/0 and the document no longer serialises. (Counts may be sorted into several lists.)
		done := map[*ssa.BasicBlock]bool{}
		for _, call := range appendCalls {
			loop := innermostLoop(f, call.Block())
			if loop == nil {
				continue
			}
			var header *ssa.BasicBlock
			for h := range loop {
				all := true
				for x := range loop {
					if !h.Dominates(x) {
						all = false
					}
				}
				if all {
					header = h
				}
			}
			if header == nil || done[header] {
				continue
			}
			done[header] = true
			// a trip: from the header through the loop back to the header; can it avoid every append block?
			skip := false
			seen := map[*ssa.BasicBlock]bool{}
			var walk func(x *ssa.BasicBlock)
			walk = func(x *ssa.BasicBlock) {
				if seen[x] || !loop[x] || appendBlocks[x] || skip {
					return
				}
				seen[x] = true
				for _, sc := range x.Succs {
					if sc == header {
						skip = true
						return
					}
					walk(sc)
				}
			}
			if !appendBlocks[header] {
				seen[header] = true
				for _, sc := range header.Succs {
					if loop[sc] {
						walk(sc)
					}
				}
			}
			R.Check(!skip, "R16.7", fn+"#every-run-counted", call.Pos(), fn, "every trip through the loop over the runs appends that run's hop count", "some trips through the loop over the runs skip the append of the hop count: the statistics are computed over fewer values than there are runs, and over none when every run is skipped (average 0/0 = NaN, minimum and maximum 0, and the document no longer serialises)")
		}
	}()
	for _, b := range f.Blocks {
		for _, in := range b.Instrs {
			call, ok := in.(*ssa.Call)
			if !ok {
				continue
			}
			bi, ok := call.Common().Value.(*ssa.Builtin)
			if !ok || bi.Name() != "append" {
				continue
			}
			sl, ok := call.Type().Underlying().(*types.Slice)
			if !ok {
				continue
			}
			if bt, ok := sl.Elem().Underlying().(*types.Basic); !ok || bt.Kind() != types.Int {
				continue
			}
			appendBlocks[b] = true
			appendCalls = append(appendCalls, call)
			for _, ip := range InlinedPathsTo(c.P, f, b, inlineOpts{pkg: core.FuncPkg(f), stop: hasLoop}) {
				for _, ev := range ip.Events {
					if ev.Kind != "append" || ev.Instr != ssa.Instruction(call) && !stores(ev.Instr, call) || len(ev.Elems) != 1 {
						continue
					}
					n++
					v := ev.Elems[0]
					within := func(v *core.Term) bool {
						return v.Op == "len" || v.Op != "const" && v.Has(func(x *core.Term) bool { return x.Op == "loopphi" })
					}
					okv := within(v)
					// computed by a helper that scans the run's hops: every value it can return is judged
					if !okv && v.Op == "call" {
						if site, isCall := v.Val.(*ssa.Call); isCall {
							if h := site.Common().StaticCallee(); h != nil && core.FuncPkg(h) == core.FuncPkg(f) && len(h.Blocks) > 0 {
								rps, complete := core.ReturnPaths(c.P, h, 2000)
								okv = complete && len(rps) > 0
								for _, rp := range rps {
									if rp.Ret.Block().Comment != "recover" && !within(rp.Results[0]) {
										okv = false
										v = rp.Results[0]
									}
								}
							}
						}
					}
					if okv {
						R.OK("R16.7", fn+"#per-run-count", call.Pos(), fn, "per-run hop count "+v.String()+" lies within the run")
					} else {
						R.FailPath("R16.7", fn+"#per-run-count", call.Pos(), fn, "a per-run hop count of "+v.String()+" enters the statistics: it is neither the run's length nor the position of one of its hops, so hop-count min/avg/max can leave the run lengths (a run with no answered hop counts "+v.String()+")", ip.Desc)
					}
				}
			}
		}
	}
	if n == 0 && len(appendCalls) == 0 {
		// the counts are folded into min / max / sum as they are produced (no list of counts): the value that enters the fold is
		// the result of the per-run computation; judged when it is a helper's result, reported as not decided otherwise
		folded := 0
		for _, b := range f.Blocks {
			for _, in := range b.Instrs {
				call, ok := in.(*ssa.Call)
				if !ok || call.Common().StaticCallee() == nil || core.FuncPkg(call.Common().StaticCallee()) != core.FuncPkg(f) || innermostLoop(f, b) == nil {
					continue
				}
				h := call.Common().StaticCallee()
				if bt, ok := call.Type().Underlying().(*types.Basic); !ok || bt.Kind() != types.Int || len(h.Blocks) == 0 {
					continue
				}
				rps, complete := core.ReturnPaths(c.P, h, 2000)
				if !complete || len(rps) == 0 {
					continue
				}
				folded++
				okv := true
				var bad *core.Term
				for _, rp := range rps {
					v := rp.Results[0]
					within := v.Op == "len" || v.Op != "const" && v.Has(func(x *core.Term) bool { return x.Op == "loopphi" })
					if rp.Ret.Block().Comment != "recover" && !within {
						okv, bad = false, v
					}
				}
				if okv {
					R.OK("R16.7", fn+"#per-run-count", call.Pos(), fn, "per-run hop count (folded directly) is the run's length or the position of one of its hops")
				} else {
					R.Fail("R16.7", fn+"#per-run-count", call.Pos(), fn, "a per-run hop count of "+bad.String()+" enters the statistics: it is neither the run's length nor the position of one of its hops")
				}
			}
		}
		if folded == 0 {
			R.Info("R16.7", fn+"#per-run-count", f.Pos(), fn, "the hop counts are folded without a list and without a per-run helper: the value range of the per-run count is not decided here")
		}
		return
	}
	R.Floor("R16.7:per-run-counts", n, 1)
}

// stores: in is the store that writes the result of call (an append whose result goes to an addressed variable).
func stores(in ssa.Instruction, call *ssa.Call) bool {
	st, ok := in.(*ssa.Store)
	return ok && st.Val == ssa.Value(call)
}

// checkNormalizeAlwaysRuns is R16.8: the derived fields (identifiers, reachability, hop-count and end-to-end statistics) exist only
// after Normalize(); every success path of RunTraceroute (helpers of the package opened) passes through it on the returned document –
// whatever the request's mix of runs and end-to-end probes.
func checkNormalizeAlwaysRuns(c *Ctx) {
	R := c.R
	f := c.P.Func("(traceroute.Traceroute).RunTraceroute")
	if f == nil {
		R.Fail("R16.8", "traceroute.RunTraceroute#anchor", 0, "", "anchor (traceroute.Traceroute).RunTraceroute no longer resolves")
		return
	}
	fn := core.FuncName(f)
	n := 0
	for _, ip := range InlinedPaths(c.P, f, inlineOpts{pkg: core.FuncPkg(f), stop: hasLoop}) {
		if len(ip.Results) != 2 || !ip.Results[1].IsConst("nil") || ip.Results[0].IsConst("nil") {
			continue
		}
		n++
		norm := false
		for _, ev := range ip.Events {
			if ev.Kind == "call" && strings.HasSuffix(ev.Callee, ".Normalize") && strings.Contains(ev.Callee, "result.Results") {
				norm = true
			}
		}
		if norm {
			R.OK("R16.8", fn+"#normalize-on-success", ip.Ret.Pos(), fn, "the returned document was normalised on this path")
		} else {
			R.FailPath("R16.8", fn+"#normalize-on-success", ip.Ret.Pos(), fn, "a success path of RunTraceroute returns the document without calling Normalize(): packets sent / received / loss, RTT statistics, reachability and the run identifiers stay at their zero values although samples are present", ip.Desc)
		}
	}
	R.Floor("R16.8:success-paths", n, 1)
}
