package rules

import (
	"fmt"
	"go/token"
	"go/types"
	"sort"
	"strings"

	"golang.org/x/tools/go/ssa"

	"verif/tool/internal/core"
)

func init() {
	register("C01", "Decides, for every CFG path of every driver's matcher that ends in a returned ProbeResponse (the decision table built by path enumeration over go/ssa with path-relative origins): the quoted destination (and port) was compared with the run's target (R01.1); the quoted INNER source was compared with the run's own source unless the relaxed switch is on (R01.2); a direct reply was compared on outer pair, ports, flags / echo id (R01.3); a sent-probe lookup keyed by the quoted identifier succeeded and the reported TTL comes from that lookup (R01.4); no packet-derived identifier is narrowed before its range check (R01.5); the SYN driver credits only the last stored probe and checks ack-1 when ACK is set (R01.6); every non-accept return yields a nil response (R01.7). These are necessary conditions of attribution soundness for all inbound packets at once; they do not decide that gopacket decodes bytes into those fields correctly, nor arrival-order effects. (R01.8) The SACK handshake matcher accepts a SYN-ACK only after comparing addresses, ports and the acknowledgement number with the run's own; (R01.9) entries of the sent-probe tables are created only in functions reached from SendProbe and from nowhere else (constructors may install an empty table), because the matchers read an entry as 'this probe was emitted'. Accept paths are the inlined return paths of ReceiveProbe (helpers of the driver's package opened whatever their signature; sent-probe lookups, decoders and looping helpers stay opaque); the sent-probe tables are identified by owner type and field, wherever they are kept. (R01.4c) A successful lookup means 'this probe was emitted': where the table's slots exist before their probes are sent (a map, a pre-sized slice) every success path of the lookup, or the matcher itself, tests that the slot read was filled. (R01.10) The address pair the frame parser builds from an IPv6 header keeps IPv6 addresses (no Unmap), so a v4-mapped IPv6 packet never compares equal to an IPv4 flow; (R01.11) the per-probe identifier taken from a quoted header is that header's own Id / Length field or zero, never the size of what was quoted.", runC01)
	darwinRules["C01"] = runC01
}

type matcherCtx struct {
	c     *Ctx
	d     Driver
	roles Roles
	sites []AcceptSite
}

func siteKey(p *core.Prog, d Driver, s AcceptSite, idx int, cls pathClass) string {
	return fmt.Sprintf("%s#accept[%d:%s/%s]", core.FuncName(s.Fn), idx, cls.Form, cls.Family)
}

// forEachMatcher resolves drivers, roles and accept sites with the floors of §2.2.
func forEachMatcher(c *Ctx, rule string, fn func(m *matcherCtx)) {
	ds := Drivers(c.P)
	c.R.Floor(rule+":drivers", len(ds), 4)
	total := 0
	for _, d := range ds {
		roles, ok := roleTable[d.Name]
		if !ok {
			c.R.Fail(rule, d.Name+"#roles", d.ReceiveProbe.Pos(), d.Name, "driver type implements TracerouteDriver but has no entry in the role table; re-confirm the table")
			continue
		}
		sites := AcceptSites(c.P, d)
		for _, s := range sites {
			if s.Ret == nil {
				c.R.Fail(rule, core.FuncName(s.Fn)+"#accept-unreturned", s.Alloc.Pos(), core.FuncName(s.Fn), "a ProbeResponse is allocated but not returned directly; decision table cannot be built (undecided)")
			}
		}
		// counted per accept PATH: merging two duplicated accept sites into one helper keeps every path
		for _, s := range sites {
			total += len(s.Paths)
		}
		fn(&matcherCtx{c: c, d: d, roles: roles, sites: sites})
	}
	c.R.Floor(rule+":accept-paths", total, 8)
}

func atomsString(atoms []core.Atom) []string {
	var s []string
	for _, a := range atoms {
		s = append(s, a.String())
	}
	return s
}

func runC01(c *Ctx) {
	checkFamilySeparation(c)
	checkQuoteIdentifier(c)
	npaths := 0
	forEachMatcher(c, "R01", func(m *matcherCtx) {
		p, d, R := c.P, m.d, c.R
		for si, s := range m.sites {
			if s.Ret == nil {
				continue
			}
			if len(s.Paths) == 0 {
				R.Fail("R01", core.FuncName(s.Fn)+fmt.Sprintf("#accept[%d]", si), s.Alloc.Pos(), core.FuncName(s.Fn), "accept site has no feasible path (decision table empty: undecided)")
			}
			for _, pi := range s.Paths {
				npaths++
				cls := classify(pi)
				key := siteKey(p, d, s, si, cls)
				fn := core.FuncName(s.Fn)
				pos := s.Alloc.Pos()
				eqs := pathEqs(pi.Atoms)
				pstr := pi.Desc
				if npaths <= 3 {
					R.Sample(map[string]any{"function": fn, "site": p.PosStr(pos), "class": cls, "path": pstr, "atoms": atomsString(pi.Atoms),
						"TTL": pi.Fields["TTL"].String(), "IsDest": pi.Fields["IsDest"].String()})
				}
				relaxed := false
				if m.roles.Relaxed != "" {
					f, sgn := atomTrue(pi.Atoms, func(t *core.Term) bool { return t.String() == m.roles.Relaxed })
					relaxed = f && sgn
				}
				switch cls.Form {
				case "icmp-quote":
					// R01.1
					if findEq(eqs, isInnerDstAddr, m.roles.TargetAddr) == nil {
						R.FailPath("R01.1", key, pos, fn, "no accepting comparison of the quoted inner destination address with the run's target ("+m.roles.TargetAddr+") on this path", pstr)
					} else {
						R.OK("R01.1", key, pos, fn, "quoted inner DstAddr == "+m.roles.TargetAddr)
					}
					if m.roles.TargetPort != "" {
						if findEq(eqs, isQuotedDstPort, m.roles.TargetPort) == nil {
							R.FailPath("R01.1", key+"/port", pos, fn, "no accepting comparison of the quoted destination port with "+m.roles.TargetPort, pstr)
						} else {
							R.OK("R01.1", key+"/port", pos, fn, "quoted DstPort == "+m.roles.TargetPort)
						}
					}
					// R01.2
					if relaxed {
						R.OK("R01.2", key+"/relaxed", pos, fn, "relaxed switch "+m.roles.Relaxed+" is on: quoted source deliberately unchecked")
					} else {
						strictKey := key + "/strict"
						if findEq(eqs, isInnerSrcAddr, m.roles.LocalAddr) == nil {
							det := "strict path lacks a comparison of the quoted INNER source address (ICMPInfo.ICMPPair.SrcAddr) with " + m.roles.LocalAddr
							if findEq(eqs, isOuterSrcViaICMPInfo, m.roles.LocalAddr) != nil {
								det += "; it compares the OUTER source (ICMPInfo.IPPair.SrcAddr, the router's address) instead"
							}
							R.FailPath("R01.2", strictKey, pos, fn, det, pstr)
						} else {
							R.OK("R01.2", strictKey, pos, fn, "quoted inner SrcAddr == "+m.roles.LocalAddr)
						}
						if m.roles.LocalPort != "" {
							if findEq(eqs, isQuotedSrcPort, m.roles.LocalPort) == nil {
								R.FailPath("R01.2", strictKey+"/port", pos, fn, "strict path lacks a comparison of the quoted source port with "+m.roles.LocalPort, pstr)
							} else {
								R.OK("R01.2", strictKey+"/port", pos, fn, "quoted SrcPort == "+m.roles.LocalPort)
							}
						}
					}
					if m.roles.RunID != "" {
						if findEq(eqs, isEchoID, m.roles.RunID) == nil {
							R.FailPath("R01.3", key+"/echo-id", pos, fn, "quoted echo identifier is not compared with the run's "+m.roles.RunID, pstr)
						} else {
							R.OK("R01.3", key+"/echo-id", pos, fn, "quoted echo id == "+m.roles.RunID)
						}
					}
				case "tcp-direct":
					chk := func(sub string, pk func(*core.Term) bool, role string) {
						if findEq(eqs, pk, role) == nil {
							R.FailPath("R01.3", key+"/"+sub, pos, fn, "direct reply accepted without comparing "+sub+" with "+role, pstr)
						} else {
							R.OK("R01.3", key+"/"+sub, pos, fn, sub+" == "+role)
						}
					}
					chk("outer-src", isOuterSrcAddr, m.roles.TargetAddr)
					chk("outer-dst", isOuterDstAddr, m.roles.LocalAddr)
					chk("tcp-sport", isTCPSrcPort, m.roles.TargetPort)
					chk("tcp-dport", isTCPDstPort, m.roles.LocalPort)
					as := flagAssignments(pi.Atoms)
					bad := ""
					for _, a := range as {
						switch m.roles.Variant {
						case "syn":
							if !((a["SYN"] && a["ACK"]) || a["RST"]) {
								bad = fmt.Sprint(a)
							}
						case "sack":
							if a["SYN"] || a["FIN"] || a["RST"] {
								bad = fmt.Sprint(a)
							}
						}
					}
					if bad != "" || len(as) == 0 {
						R.FailPath("R01.3", key+"/flags", pos, fn, "path admits TCP flag combination "+bad+" outside the variant's reply form", pstr)
					} else {
						R.OK("R01.3", key+"/flags", pos, fn, fmt.Sprintf("%d consistent flag assignments, all inside the %s reply form", len(as), m.roles.Variant))
					}
				case "echo-reply":
					if findEq(eqs, isEchoID, m.roles.RunID) == nil {
						R.FailPath("R01.3", key+"/echo-id", pos, fn, "echo reply accepted without comparing its identifier with "+m.roles.RunID, pstr)
					} else {
						R.OK("R01.3", key+"/echo-id", pos, fn, "echo id == "+m.roles.RunID)
					}
				default:
					R.FailPath("R01.3", key, pos, fn, "accept path of unrecognised reply form (neither ICMP quote, direct TCP nor echo reply): undecided", pstr)
				}
				// R01.4 lookup + TTL provenance
				lks := findLookups(c.P, d, pi.Atoms)
				ttl := pi.Fields["TTL"]
				okLookup := false
				var used *lookupInfo
				for i := range lks {
					l := &lks[i]
					keyArgs := l.Call.Args[1:]
					fromCall := strings.Contains(ttl.Key(), l.Call.Key())
					fromKey := false
					for _, ka := range keyArgs {
						if ttl.StripConv().Key() == ka.StripConv().Key() {
							fromKey = true
						}
					}
					if fromCall || fromKey {
						// key must be packet-derived (quoted identifier); only a direct reply may use the keyless last-probe accessor
						kd := len(keyArgs) == 0 && cls.Form == "tcp-direct"
						for _, ka := range keyArgs {
							if packetDerived(ka) {
								kd = true
							}
						}
						if kd {
							okLookup = true
							used = l
						}
					}
				}
				if !okLookup {
					R.FailPath("R01.4", key+"/lookup", pos, fn, "no successful sent-probe lookup keyed by the quoted identifier governs this accept path, or the reported TTL ("+ttl.String()+") does not come from it", pstr)
				} else {
					R.OK("R01.4", key+"/lookup", pos, fn, "lookup "+used.Call.Name+" succeeded; TTL = "+ttl.String())
				}
				// R01.4c: a successful lookup means "this probe was emitted", not merely "the key is inside the table"
				if used != nil {
					if ok, why := entryPresence(c, d, used.Call, pi.Atoms); ok {
						R.OK("R01.4", key+"/entry-present", pos, fn, why)
					} else {
						R.FailPath("R01.4", key+"/entry-present", pos, fn, why, pstr)
					}
				}
				// R01.5 narrowing before the range check
				if used != nil {
					for _, ka := range used.Call.Args[1:] {
						ka.Walk(func(x *core.Term) bool {
							if x.Narrowing() && packetDerived(x.Args[0]) && !allowedNarrowing(x) {
								R.FailPath("R01.5", key+"/narrow", pos, fn, "packet-derived identifier is narrowed ("+x.String()+") BEFORE the lookup's range check: values that agree only modulo 2^"+fmt.Sprint(bitsOf(x.Typ))+" are credited", pstr)
								return false
							}
							return true
						})
					}
					if ttl.Narrowing() || ttl.Op == "conv" {
						// TTL = conv(key): the accessor must range-check its un-narrowed parameter
						if inner := ttl.StripConv(); ttl.Has(func(x *core.Term) bool { return x.Narrowing() }) && packetDerived(inner) {
							if !accessorRangeChecks(c, used.Call, inner) {
								R.FailPath("R01.5", key+"/narrow-ttl", pos, fn, "reported TTL narrows "+inner.String()+" and the lookup does not range-check that un-narrowed value", pstr)
							} else {
								R.OK("R01.5", key+"/narrow-ttl", pos, fn, "TTL narrowing is dominated by the accessor's range check on the un-narrowed value")
							}
						}
					}
				}
				// echo-id comparisons that narrow
				for _, e := range eqs {
					for _, side := range []*core.Term{e.A, e.B} {
						if side.Op == "conv" && side.Narrowing() && packetDerived(side) && !allowedNarrowing(side) {
							R.FailPath("R01.5", key+"/narrow-cmp", pos, fn, "comparison on a narrowed packet field "+side.String(), pstr)
						}
					}
				}
				// R01.6
				if m.roles.Variant == "syn" && cls.Form == "tcp-direct" {
					if used == nil || !strings.HasSuffix(used.Call.Name, ".getLastSentProbe") {
						R.FailPath("R01.6", key+"/last-probe", pos, fn, "direct SYN-ACK/RST reply is not credited to the last stored probe", pstr)
					} else {
						R.OK("R01.6", key+"/last-probe", pos, fn, "credited probe = "+used.Call.Name)
					}
					needSeq := false
					for _, a := range flagAssignments(pi.Atoms) {
						if a["ACK"] {
							needSeq = true
						}
					}
					hasSeq := false
					for _, e := range eqs {
						for _, pr := range [][2]*core.Term{{e.A, e.B}, {e.B, e.A}} {
							if used != nil && strings.Contains(pr[0].Key(), used.Call.Key()) && strings.HasSuffix(pr[0].String(), ".seqNum") &&
								pr[1].Op == "binop" && pr[1].Name == "-" && parserField(pr[1].Args[0], "TCP", "Ack") && pr[1].Args[1].IsConst("1") {
								hasSeq = true
							}
						}
					}
					if needSeq && !hasSeq {
						R.FailPath("R01.6", key+"/ack-seq", pos, fn, "path admits ACK set but does not compare lastProbe.seqNum with TCP.Ack-1", pstr)
					} else {
						R.OK("R01.6", key+"/ack-seq", pos, fn, fmt.Sprintf("ACK possible=%v, seq comparison present=%v", needSeq, hasSeq))
					}
				}
			}
		}
		// R01.6b getLastSentProbe really returns the last element
		if m.roles.Variant == "syn" {
			checkLastProbeAccessor(c, d)
		}
		// R01.4b accessor reads the table SendProbe writes
		common := []string{}
		for f := range SentTableKeys(p, d) {
			common = append(common, f)
		}
		sort.Strings(common)
		R.Check(len(common) > 0, "R01.4", d.Name+"#probe-table", d.ReceiveProbe.Pos(), d.Name, "sent-probe table shared between SendProbe (writer) and ReceiveProbe (reader): "+strings.Join(common, ","), "ReceiveProbe reads no field that SendProbe writes: lookups cannot refer to sent probes")
		// R01.7
		checkRejectSilent(c, d)
	})
	c.R.Analysed["accept_paths"] = npaths
	checkHandshakeMatcher(c)
	for _, d := range Drivers(c.P) {
		checkSentTableWriters(c, d)
	}
}

// checkHandshakeMatcher is R01.8: the SACK handshake state (initial sequence / ack numbers every later match is relative to)
// is only taken from a SYN-ACK on the probed flow: outer pair = (target, local), ports, SYN and ACK set, SACK-permitted seen.
func checkHandshakeMatcher(c *Ctx) {
	R := c.R
	f := c.P.Func("(*sack.sackDriver).handleHandshake")
	if f == nil {
		R.Fail("R01.8", "sack.handleHandshake#anchor", 0, "", "anchor (*sack.sackDriver).handleHandshake no longer resolves")
		return
	}
	fn := core.FuncName(f)
	roles := roleTable["sack.sackDriver"]
	n := 0
	// inlined paths: the flow / flag tests may sit in helpers of the driver's package, whatever their signature
	for _, ip := range InlinedPaths(c.P, f, inlineOpts{pkg: core.FuncPkg(f), stop: hasLoop, maxDepth: 4}) {
		sets := false
		var pos token.Pos
		for _, ev := range ip.Events {
			if st, ok := ev.Instr.(*ssa.Store); ok && ev.Kind == "store" {
				if fa, ok := st.Addr.(*ssa.FieldAddr); ok && core.FieldName(fa) == "state" && isNamed(fa.X.Type(), core.ModulePath+"/sack", "sackDriver") {
					sets = true
					pos = st.Pos()
				}
			}
		}
		if !sets {
			continue
		}
		n++
		{
			vatoms := ip.Atoms
			eqs := pathEqs(vatoms)
			var missing []string
			for name, chk := range map[string]struct {
				pk   func(*core.Term) bool
				role string
			}{"outer source = target": {isOuterSrcAddr, roles.TargetAddr}, "outer destination = local": {isOuterDstAddr, roles.LocalAddr},
				"TCP source port = target port": {isTCPSrcPort, roles.TargetPort}, "TCP destination port = local port": {isTCPDstPort, roles.LocalPort}} {
				if findEq(eqs, chk.pk, chk.role) == nil {
					missing = append(missing, name)
				}
			}
			as := flagAssignments(vatoms)
			for _, a := range as {
				if !(a["SYN"] && a["ACK"]) {
					missing = append(missing, "SYN and ACK set")
					break
				}
			}
			f1, s1 := atomTrue(vatoms, func(t *core.Term) bool { return isTransportEq(t, "LayerTypeTCP") })
			if !(f1 && s1) {
				missing = append(missing, "transport layer is TCP")
			}
			sort.Strings(missing)
			if len(missing) == 0 {
				R.OK("R01.8", fn+"#handshake-accept", pos, fn, "handshake state is taken only from a SYN-ACK on the probed flow")
			} else {
				R.FailPath("R01.8", fn+"#handshake-accept", pos, fn, "handshake state can be set from a packet without: "+strings.Join(missing, "; ")+" (every later SACK/ICMP match is relative to these sequence numbers)", ip.Desc)
			}
		}
	}
	R.Floor("R01.8:state-setting-paths", n, 1)
}

func bitsOf(t types.Type) int { b, _ := core.IntBits(t); return b }

// allowedNarrowing is the reviewed exception table of R01.5.
func allowedNarrowing(x *core.Term) bool {
	// uint16(echo.ID) on the quoted x/net icmp.Echo: an int the decoder fills from a 16-bit wire field.
	in := x.Args[0]
	names, base := fieldChain(in)
	if len(names) == 1 && names[0] == "ID" && base.Op == "extract" && base.Args[0].Op == "assert" && strings.Contains(base.Args[0].Name, "icmp.Echo") && x.Name == "uint16" {
		return true
	}
	// uint16(TCP.SrcPort/DstPort): layers.TCPPort is a uint16 newtype (not narrowing, but keep explicit)
	return false
}

// accessorRangeChecks verifies that the accessor's success paths all carry
// lower and upper bound comparisons on the un-narrowed key parameter.
func accessorRangeChecks(c *Ctx, call *core.Term, key *core.Term) bool {
	fnName := call.Name
	var f *ssa.Function
	for _, mf := range c.P.ModFuncs {
		if shortName(mf) == fnName {
			f = mf
		}
	}
	if f == nil || len(f.Params) < 2 {
		return false
	}
	// which parameter receives the key
	pi := -1
	for i, a := range call.Args {
		if a.StripConv().Key() == key.Key() {
			pi = i
		}
	}
	if pi < 0 {
		return false
	}
	param := f.Params[pi]
	// inlined paths: part of the range check may sit in the table type's own accessor (`k >= len(t.slots)`)
	rps := InlinedPaths(c.P, f, inlineOpts{pkg: core.FuncPkg(f), stop: hasLoop})
	n := 0
	for _, rp := range rps {
		last := rp.Results[len(rp.Results)-1]
		if !last.IsConst("nil") {
			continue
		}
		n++
		lo, hi := false, false
		for _, a := range rp.Atoms {
			nn := a.Norm()
			cnd := nn.Cond
			if cnd.Op != "binop" {
				continue
			}
			l, r := cnd.Args[0], cnd.Args[1]
			isP := func(t *core.Term) bool { return t.Op == "param" && t.Name == param.Name() }
			// the mirrored spelling (lo <= p): bring the key to the left
			if isP(r) && !isP(l) {
				if m, ok := map[string]string{"<": ">", ">": "<", "<=": ">=", ">=": "<="}[cnd.Name]; ok {
					cp := *cnd
					cp.Name = m
					cp.Args = []*core.Term{r, l}
					cnd = &cp
					l, r = r, l
				}
			}
			// ¬(p < lo) , ¬(p > hi)
			if !nn.Sign && cnd.Name == "<" && isP(l) && !isP(r) {
				lo = true
			}
			if !nn.Sign && cnd.Name == ">" && isP(l) && !isP(r) {
				hi = true
			}
			if !nn.Sign && cnd.Name == ">=" && isP(l) && !isP(r) || nn.Sign && cnd.Name == "<" && isP(l) && !isP(r) {
				hi = true
			}
			if nn.Sign && cnd.Name == ">=" && isP(l) {
				lo = true
			}
			if nn.Sign && cnd.Name == "<=" && isP(l) {
				hi = true
			}
		}
		if !lo || !hi {
			return false
		}
	}
	return n > 0
}

func shortName(f *ssa.Function) string {
	return core.CalleeName(&ssa.CallCommon{Value: f})
}

func checkLastProbeAccessor(c *Ctx, d Driver) {
	f := c.P.Func("(*" + d.Name + ").getLastSentProbe")
	if f == nil {
		c.R.Fail("R01.6", d.Name+"#getLastSentProbe", d.ReceiveProbe.Pos(), d.Name, "anchor getLastSentProbe no longer resolves; re-confirm the rule table")
		return
	}
	rps, _ := core.ReturnPaths(c.P, f, 2000)
	ok, n := true, 0
	detail := ""
	for _, rp := range rps {
		if !rp.Results[len(rp.Results)-1].IsConst("nil") {
			continue
		}
		n++
		r0 := rp.Results[0]
		s := r0.String()
		detail = s
		// recv.sentProbes[(len(recv.sentProbes) - 1)]
		if !(r0.Op == "index" && r0.Args[1].Op == "binop" && r0.Args[1].Name == "-" && r0.Args[1].Args[0].Op == "len" &&
			r0.Args[1].Args[0].Args[0].String() == r0.Args[0].String() && r0.Args[1].Args[1].IsConst("1")) {
			ok = false
		}
	}
	c.R.Check(ok && n > 0, "R01.6", core.FuncName(f)+"#returns-last", f.Pos(), core.FuncName(f), "success return is "+detail, "success return is not table[len(table)-1]: "+detail)
}

// checkRejectSilent: every return of the matcher tree that may carry an error has a nil response.
func checkRejectSilent(c *Ctx, d Driver) {
	n := 0
	for _, f := range ModReach(c.P, d.ReceiveProbe) {
		res := f.Signature.Results()
		if res.Len() != 2 || !isNamed(res.At(0).Type(), core.ModulePath+"/common", "ProbeResponse") {
			continue
		}
		for _, b := range f.Blocks {
			ret, ok := b.Instrs[len(b.Instrs)-1].(*ssa.Return)
			if !ok {
				continue
			}
			n++
			r0, r1 := ret.Results[0], ret.Results[1]
			c0, isC0 := r0.(*ssa.Const)
			c1, isC1 := r1.(*ssa.Const)
			nil0 := isC0 && c0.Value == nil
			nil1 := isC1 && c1.Value == nil
			key := fmt.Sprintf("%s#return[b%d]", core.FuncName(f), b.Index)
			switch {
			case nil0 || nil1:
				c.R.OK("R01.7", key, ret.Pos(), core.FuncName(f), "return has a nil response or a nil error")
			default:
				// tail call forwarding both results of another matcher function is fine
				if e0, ok := r0.(*ssa.Extract); ok {
					if e1, ok := r1.(*ssa.Extract); ok && e0.Tuple == e1.Tuple {
						c.R.OK("R01.7", key, ret.Pos(), core.FuncName(f), "forwards both results of one call")
						continue
					}
				}
				c.R.Fail("R01.7", key, ret.Pos(), core.FuncName(f), "return may carry both a response and an error")
			}
		}
	}
	c.R.Floor("R01.7:"+d.Name, n, 5)
}

// checkSentTableWriters is R01.9: "was this probe emitted" is what an entry of the sent-probe table means to the matcher, so an
// entry may only be created on the emission path. Every element write of the driver's sent-probe table (map update, indexed
// store, append) must sit in a function that is reached from SendProbe and from nowhere else; constructors may only install an
// empty table (make / nil).
func checkSentTableWriters(c *Ctx, d Driver) {
	R := c.R
	shared := sharedFields(c.P, d)
	tables := map[string]bool{}
	// of the shared storage, the containers (maps / slices): their entries are what the matcher reads as "sent"
	sp0 := c.P.SSAPkgs[d.Pkg]
	if sp0 == nil {
		return
	}
	for _, f := range c.P.ModFuncs {
		if core.FuncPkg(f) != sp0.Pkg {
			continue
		}
		for _, b := range f.Blocks {
			for _, in := range b.Instrs {
				if fa, ok := in.(*ssa.FieldAddr); ok {
					if k, _ := typedFieldKey(fa); shared[k] {
						switch fa.Type().Underlying().(*types.Pointer).Elem().Underlying().(type) {
						case *types.Map, *types.Slice:
							tables[k] = true
						}
					}
				}
			}
		}
	}
	R.Floor("R01.9:sent-table-fields:"+d.Name, len(tables), 1)
	isTableField := func(v ssa.Value) (string, bool) {
		fa, ok := v.(*ssa.FieldAddr)
		if !ok {
			return "", false
		}
		k, _ := typedFieldKey(fa)
		return k, tables[k]
	}
	loadOfTable := func(v ssa.Value) (string, bool) {
		if ld, ok := v.(*ssa.UnOp); ok {
			return isTableField(ld.X)
		}
		return "", false
	}
	type wsite struct {
		fn    *ssa.Function
		in    ssa.Instruction
		field string
	}
	var writers []wsite
	sp := c.P.SSAPkgs[d.Pkg]
	for _, f := range c.P.ModFuncs {
		if sp == nil || core.FuncPkg(f) != sp.Pkg {
			continue
		}
		for _, b := range f.Blocks {
			for _, in := range b.Instrs {
				switch x := in.(type) {
				case *ssa.MapUpdate:
					if _, zero := x.Value.(*ssa.Const); zero {
						continue // a zero-valued entry is what the matchers already read as "not sent"
					}
					if n, ok := loadOfTable(x.Map); ok {
						writers = append(writers, wsite{f, in, n})
					}
				case *ssa.Store:
					if ia, ok := x.Addr.(*ssa.IndexAddr); ok {
						if _, zero := x.Val.(*ssa.Const); zero {
							continue
						}
						if n, ok := loadOfTable(ia.X); ok {
							writers = append(writers, wsite{f, in, n})
						}
					}
					if n, ok := isTableField(x.Addr); ok {
						// installing an empty table is not an entry; append is
						if call, isCall := x.Val.(*ssa.Call); isCall {
							if bi, isB := call.Common().Value.(*ssa.Builtin); isB && bi.Name() == "append" {
								writers = append(writers, wsite{f, in, n})
							}
						}
					}
				}
			}
		}
	}
	R.Floor("R01.9:sent-table-writes:"+d.Name, len(writers), 1)
	cg := c.P.CallGraph()
	for i, w := range writers {
		key := fmt.Sprintf("%s#sent-table-write[%s/%d]", core.FuncName(w.fn), w.field, i)
		// backward closure over module callers, not expanding SendProbe
		seen := map[*ssa.Function]bool{}
		bad := ""
		var visit func(f *ssa.Function)
		visit = func(f *ssa.Function) {
			if f == nil || seen[f] || bad != "" {
				return
			}
			seen[f] = true
			if f == d.SendProbe {
				return
			}
			if f.Parent() != nil {
				visit(f.Parent())
				return
			}
			n := cg.Nodes[f]
			ncallers := 0
			if n != nil {
				for _, e := range n.In {
					if e.Caller.Func != nil && core.InModule(e.Caller.Func) {
						ncallers++
						visit(e.Caller.Func)
					}
				}
			}
			if ncallers == 0 {
				bad = core.FuncName(f)
			}
		}
		visit(w.fn)
		R.Check(bad == "", "R01.9", key, w.in.Pos(), core.FuncName(w.fn), "sent-probe table entry is created only on the SendProbe path", "an entry of the sent-probe table "+w.field+" is created on a path that does not come from SendProbe (reached from "+bad+"): the matcher treats every entry as an emitted probe, so a reply quoting a probe that was never sent can fill a hop")
	}
}

// tableKinds classifies the sent-probe tables of a driver: "map", "appended" (a slice that grows by append: every element was
// put there by SendProbe) or "presized" (a slice made with its final length: an element exists before its probe does).
func tableKinds(p *core.Prog, d Driver) map[string]string {
	out := map[string]string{}
	pkg := core.FuncPkg(d.ReceiveProbe)
	keys := SentTableKeys(p, d)
	for _, f := range p.ModFuncs {
		if core.FuncPkg(f) != pkg {
			continue
		}
		for _, b := range f.Blocks {
			for _, in := range b.Instrs {
				fa, ok := in.(*ssa.FieldAddr)
				if !ok {
					continue
				}
				k, _ := typedFieldKey(fa)
				if !keys[k] {
					continue
				}
				switch fa.Type().Underlying().(*types.Pointer).Elem().Underlying().(type) {
				case *types.Map:
					out[k] = "map"
				case *types.Slice:
					if out[k] == "" {
						out[k] = "presized"
					}
					for _, r := range *fa.Referrers() {
						if st, ok := r.(*ssa.Store); ok && st.Addr == ssa.Value(fa) {
							if call, ok := st.Val.(*ssa.Call); ok {
								if bi, ok := call.Common().Value.(*ssa.Builtin); ok && bi.Name() == "append" {
									out[k] = "appended"
								}
							}
						}
					}
				}
			}
		}
	}
	return out
}

// isPresenceAtom: the (normalised) condition says a value is not the zero value / a comma-ok lookup succeeded; it returns the
// term whose presence is established.
func presenceSubject(a core.Atom) *core.Term {
	n := a.Norm()
	t := n.Cond
	switch {
	case !n.Sign && t.Op == "call" && t.Name == "(time.Time).IsZero" && len(t.Args) == 1:
		return t.Args[0]
	case !n.Sign && t.Op == "binop" && t.Name == "==" && len(t.Args) == 2 && t.Args[1].Op == "zero":
		return t.Args[0]
	case !n.Sign && t.Op == "binop" && t.Name == "==" && len(t.Args) == 2 && t.Args[0].Op == "zero":
		return t.Args[1]
	case n.Sign && t.Op == "extract" && t.Name == "1" && len(t.Args) == 1 && t.Args[0].Op == "lookup":
		return t.Args[0]
	}
	return nil
}

// entryPresence decides R01.4c for the lookup `call` that governs an accept path with conditions atoms.
func entryPresence(c *Ctx, d Driver, call *core.Term, atoms []core.Atom) (bool, string) {
	site, ok := call.Val.(*ssa.Call)
	if !ok || site.Common().StaticCallee() == nil {
		return true, "lookup is not a static call: entry presence not examined"
	}
	L := site.Common().StaticCallee()
	pkg := core.FuncPkg(d.ReceiveProbe)
	kinds := tableKinds(c.P, d)
	// which tables the lookup reads
	needs := false
	fieldNames := map[string]bool{}
	for _, g := range ModReach(c.P, L) {
		if core.FuncPkg(g) != pkg {
			continue
		}
		for _, b := range g.Blocks {
			for _, in := range b.Instrs {
				if fa, ok := in.(*ssa.FieldAddr); ok {
					if k, _ := typedFieldKey(fa); kinds[k] != "" {
						fieldNames[core.FieldName(fa)] = true
						if kinds[k] != "appended" {
							needs = true
						}
					}
				}
			}
		}
	}
	if !needs {
		return true, "the table grows by append only: every element is a sent probe"
	}
	ck := call.Key()
	// matcher level: the looked-up value is tested against the zero value on this path
	for _, a := range atoms {
		if sub := presenceSubject(a); sub != nil && strings.Contains(sub.Key(), ck) {
			return true, "the matcher rejects the zero value of " + call.Name
		}
	}
	// accessor level: every success path of the lookup establishes presence of the element it read
	isTableAccess := func(t *core.Term) bool {
		return t.Has(func(x *core.Term) bool {
			if (x.Op == "index" || x.Op == "lookup") && len(x.Args) > 0 {
				names, _ := fieldChain(x.Args[0])
				return len(names) > 0 && fieldNames[names[0]]
			}
			return false
		})
	}
	res := L.Signature.Results()
	errIdx, boolIdx := -1, -1
	for i := 0; i < res.Len(); i++ {
		if isErrorType(res.At(i).Type()) {
			errIdx = i
		}
		if b, ok := res.At(i).Type().Underlying().(*types.Basic); ok && b.Kind() == types.Bool {
			boolIdx = i
		}
	}
	if errIdx < 0 && boolIdx < 0 {
		return false, "the lookup " + call.Name + " reads a table whose slots exist before their probes are sent and reports absence only through a zero value, which the matcher does not test: a reply quoting a TTL that was never probed is accepted"
	}
	ips := InlinedPaths(c.P, L, inlineOpts{pkg: pkg, stop: hasLoop})
	nsucc := 0
	for _, ip := range ips {
		switch {
		case errIdx >= 0:
			if !ip.Results[errIdx].IsConst("nil") {
				continue
			}
		case boolIdx >= 0:
			if ip.Results[boolIdx].IsConst("false") {
				continue
			}
		}
		nsucc++
		present := false
		if errIdx < 0 && boolIdx >= 0 {
			// the ok result is the comma-ok of the table lookup itself: the matcher's test of it is the presence test
			if r := ip.Results[boolIdx]; r.Op == "extract" && r.Name == "1" && len(r.Args) == 1 && r.Args[0].Op == "lookup" && isTableAccess(r.Args[0]) {
				present = true
			}
		}
		for _, a := range ip.Atoms {
			if sub := presenceSubject(a); sub != nil && isTableAccess(sub) {
				present = true
			}
		}
		if !present {
			return false, "a success path of the lookup " + call.Name + " (" + ip.Desc + ") does not test that the slot it read was filled (non-zero value / comma-ok): the table's slots exist before their probes are sent, so a reply quoting a TTL that was never probed is accepted"
		}
	}
	if nsucc == 0 {
		return false, "the lookup " + call.Name + " has no success path: undecided"
	}
	return true, fmt.Sprintf("every success path of %s (%d) tests that the slot it read was filled", call.Name, nsucc)
}
