package rules

import (
	"fmt"
	"go/types"
	"sort"
	"strings"

	"golang.org/x/tools/go/ssa"

	"verif/tool/internal/core"
)

func init() {
	register("C14", "Decides the lockset discipline that is a necessary condition of race freedom, for all interleavings at once: (R14.1) for every driver whose GetDriverInfo reports SupportsParallel, each receiver field (or sub-object) touched in both the SendProbe call tree and the ReceiveProbe call tree with at least one write is accessed everywhere under a common mutex or has a sync/atomic type, and the parallel engine refuses drivers that do not report SupportsParallel before it spawns; (R14.2) every variable captured by goroutine closures (go / errgroup.Go) that is written by one goroutine instance and accessed by another instance, another closure or the spawner is accessed under a common mutex, before the spawn, or after the Wait join; (R14.3) the identifier allocators are single atomic read-modify-write operations; (R14.4) each driver instance owns freshly allocated parser, buffer and probe table and the per-run configs are constructed inside the per-run function. Happens-before edges recognised: goroutine start, WaitGroup/errgroup Wait, mutexes, atomics. Races inside third-party code and through aliasing (no pointer analysis is available) are not decided. A type-keyed complement covers fields of module structs reached through pointers (two access paths that may name one object), and an access in the spawning loop's body counts as 'before the spawn' only for variables allocated afresh in that iteration. Spawn sites include sync.WaitGroup.Go; a spawner's access is ordered only against the goroutines that touch the same object. (R14.5) What cache.GetWithExpiration hands back is shared by all callers and is only read, never assigned through (shared with C18).", runC14)
	darwinRules["C14"] = runC14
}

func supportsParallel(c *Ctx, d Driver) (bool, bool) {
	rps, _ := core.ReturnPaths(c.P, d.GetDriverInfo, 100)
	val, known := false, len(rps) > 0
	for _, rp := range rps {
		r := rp.Results[0]
		got := false
		r.Walk(func(x *core.Term) bool {
			if x.Op == "kv" && x.Name == "SupportsParallel" {
				got = true
				switch {
				case x.Args[0].IsConst("true"):
					val = true
				case x.Args[0].IsConst("false") || x.Args[0].Op == "zero":
				default:
					known = false
				}
			}
			return true
		})
		if !got {
			known = false
		}
	}
	return val, known
}

type objUse struct {
	send, recv []core.Access
}

func runC14(c *Ctx) {
	// what the cache hands out is shared by every caller: read-only (shared with C18)
	checkCachedValueUntouched(c, "R14.5")
	R := c.R
	// shared with C11 (R11.3): concurrent runs execute the same code – a package-level variable that the run path writes, or
	// hands out by reference (a buffer, a pool, a cache), is accessed by several runs' goroutines with no synchronisation of its own
	checkGlobals(c)
	ds := Drivers(c.P)
	R.Floor("R14.1:drivers", len(ds), 4)
	npar := 0
	for _, d := range ds {
		par, known := supportsParallel(c, d)
		if !known {
			R.Fail("R14.1", d.Name+"#GetDriverInfo", d.GetDriverInfo.Pos(), d.Name, "SupportsParallel is not a constant in GetDriverInfo: undecided")
			continue
		}
		if !par {
			R.Info("R14.1", d.Name+"#serial", d.GetDriverInfo.Pos(), d.Name, "driver reports SupportsParallel=false: SendProbe and ReceiveProbe run on one goroutine (engine gate checked below)")
			continue
		}
		npar++
		la1 := core.NewLockAnalysis(c.P)
		la1.Collect(d.SendProbe, "recv", nil)
		la2 := core.NewLockAnalysis(c.P)
		la2.Collect(d.ReceiveProbe, "recv", nil)
		// objects (receiver field paths) touched by each side; overlap = same path or one inside the other
		var sendAcc, recvAcc []core.Access
		for _, a := range la1.Accesses {
			if strings.HasPrefix(a.Obj, "recv.") {
				sendAcc = append(sendAcc, a)
			}
		}
		for _, a := range la2.Accesses {
			if strings.HasPrefix(a.Obj, "recv.") {
				recvAcc = append(recvAcc, a)
			}
		}
		nameSet := map[string]bool{}
		for _, a := range sendAcc {
			nameSet[a.Obj] = true
		}
		for _, a := range recvAcc {
			nameSet[a.Obj] = true
		}
		var names []string
		for k := range nameSet {
			names = append(names, k)
		}
		sort.Strings(names)
		nshared := 0
		for _, obj := range names {
			u := &objUse{}
			for _, a := range sendAcc {
				if core.Related(a.Obj, obj) {
					u.send = append(u.send, a)
				}
			}
			for _, a := range recvAcc {
				if core.Related(a.Obj, obj) {
					u.recv = append(u.recv, a)
				}
			}
			if len(u.send) == 0 || len(u.recv) == 0 {
				continue
			}
			// only accesses OF this object or of something inside it count as writes to it; reads of an enclosing object count too
			all := append(append([]core.Access{}, u.send...), u.recv...)
			write, atomic, syncT := false, true, false
			for _, a := range all {
				if a.Write && (a.Obj == obj || strings.HasPrefix(a.Obj, obj+".") || strings.HasPrefix(obj, a.Obj+".")) {
					write = true
				}
				if !a.Atomic {
					atomic = false
				}
				if core.IsSyncType(a.Typ) {
					syncT = true
				}
			}
			// report each conflict once, under the most specific written name
			specific := true
			for _, a := range all {
				if a.Write && strings.HasPrefix(a.Obj, obj+".") {
					specific = false
				}
			}
			key := fmt.Sprintf("%s#field[%s]", d.Name, obj)
			if !write {
				R.OK("R14.1", key, all[0].Instr.Pos(), d.Name, "touched by sender and receiver, never written by either (written only before the engine starts)")
				continue
			}
			if !specific {
				continue
			}
			nshared++
			if atomic || syncT {
				R.OK("R14.1", key, all[0].Instr.Pos(), d.Name, "shared and written, but of an atomic / synchronisation type")
				continue
			}
			common := map[string]bool{}
			for i, a := range all {
				ls := map[string]bool{}
				for _, l := range a.Locks {
					ls[l] = true
				}
				if i == 0 {
					common = ls
				} else {
					for k := range common {
						if !ls[k] {
							delete(common, k)
						}
					}
				}
			}
			if len(common) > 0 {
				var cl []string
				for k := range common {
					cl = append(cl, k)
				}
				R.OK("R14.1", key, all[0].Instr.Pos(), d.Name, fmt.Sprintf("%d accesses (sender %d, receiver %d), all under %s", len(all), len(u.send), len(u.recv), strings.Join(cl, ",")))
			} else {
				// name one unguarded writer and one unguarded access from the OTHER side
				var w, o *core.Access
				wSend := false
				for i := range all {
					if all[i].Write && w == nil {
						w = &all[i]
						wSend = i < len(u.send)
					}
				}
				other := u.recv
				if !wSend {
					other = u.send
				}
				for i := range other {
					if o == nil || len(other[i].Locks) == 0 {
						o = &other[i]
					}
				}
				det := fmt.Sprintf("%s is written at %s (%s, locks %v)", obj, c.P.PosStr(w.Instr.Pos()), core.FuncName(w.Fn), w.Locks)
				if o != nil {
					det += fmt.Sprintf(" and %s is accessed at %s (%s, locks %v)", o.Obj, c.P.PosStr(o.Instr.Pos()), core.FuncName(o.Fn), o.Locks)
				}
				det += " from the concurrently running SendProbe / ReceiveProbe trees with no common mutex"
				R.Fail("R14.1", key, w.Instr.Pos(), d.Name, det)
			}
		}
		R.Floor("R14.1:shared-written-fields:"+d.Name, nshared, 1)
		checkPointeeFields(c, d, la1.Accesses, la2.Accesses)
	}
	R.Floor("R14.1:parallel-drivers", npar, 3)
	checkParallelGate(c)
	checkClosures(c)
	checkAllocators(c, "R14.3")
	checkDriverFreshness(c, "R14.4")
}

// checkParallelGate: TracerouteParallel refuses non-parallel drivers before spawning.
func checkParallelGate(c *Ctx) {
	R := c.R
	f := c.P.Func("common.TracerouteParallel")
	if f == nil {
		R.Fail("R14.1", "common.TracerouteParallel#anchor", 0, "", "anchor common.TracerouteParallel no longer resolves")
		return
	}
	spawns := spawnSites(f)
	R.Floor("R14.1:parallel-spawns", len(spawns), 2)
	for i, sp := range spawns {
		paths, _ := core.EnumPaths(f, sp.Block(), 2000)
		ok := len(paths) > 0
		for _, pa := range paths {
			env := core.NewEnv(c.P, pa)
			found, sign := atomTrue(env.Atoms(), func(t *core.Term) bool {
				return strings.HasSuffix(t.String(), ".SupportsParallel") && strings.Contains(t.String(), "GetDriverInfo")
			})
			if !(found && sign) {
				ok = false
			}
		}
		R.Check(ok, "R14.1", fmt.Sprintf("common.TracerouteParallel#gate[%d]", i), sp.Pos(), core.FuncName(f), "spawn is reached only when GetDriverInfo().SupportsParallel is true", "a goroutine is spawned without testing the driver's SupportsParallel")
	}
}

// spawnSites lists go statements and errgroup.Go calls of a function.
func spawnSites(f *ssa.Function) []ssa.Instruction {
	var out []ssa.Instruction
	for _, b := range f.Blocks {
		for _, in := range b.Instrs {
			switch x := in.(type) {
			case *ssa.Go:
				out = append(out, in)
			case *ssa.Call:
				if cal := x.Common().StaticCallee(); cal != nil && cal.Pkg != nil && cal.Name() == "Go" && (cal.Pkg.Pkg.Path() == "golang.org/x/sync/errgroup" || cal.Pkg.Pkg.Path() == "sync") {
					out = append(out, in)
				}
			}
		}
	}
	return out
}

func spawnedClosure(p *core.Prog, in ssa.Instruction) *ssa.Function {
	switch x := in.(type) {
	case *ssa.Go:
		if mc, ok := x.Call.Value.(*ssa.MakeClosure); ok {
			return mc.Fn.(*ssa.Function)
		}
		if f := x.Call.StaticCallee(); f != nil {
			return f
		}
	case *ssa.Call:
		if len(x.Call.Args) >= 2 {
			if mc, ok := p.Def(x.Call.Args[1]).(*ssa.MakeClosure); ok {
				return mc.Fn.(*ssa.Function)
			}
		}
	}
	return nil
}

func inLoop(b *ssa.BasicBlock) bool {
	// b reaches itself
	seen := map[*ssa.BasicBlock]bool{}
	work := append([]*ssa.BasicBlock{}, b.Succs...)
	for len(work) > 0 {
		x := work[len(work)-1]
		work = work[:len(work)-1]
		if x == b {
			return true
		}
		if seen[x] {
			continue
		}
		seen[x] = true
		work = append(work, x.Succs...)
	}
	return false
}

func isWaitCall(in ssa.Instruction) bool {
	ci, ok := in.(ssa.CallInstruction)
	if !ok {
		return false
	}
	cal := ci.Common().StaticCallee()
	if cal == nil || cal.Pkg == nil || cal.Name() != "Wait" {
		return false
	}
	pp := cal.Pkg.Pkg.Path()
	return pp == "sync" || pp == "golang.org/x/sync/errgroup"
}

// checkClosures is R14.2.
func checkClosures(c *Ctx) {
	R := c.R
	nspawn := 0
	for _, f := range c.P.ModFuncs {
		spawns := spawnSites(f)
		if len(spawns) == 0 {
			continue
		}
		if strings.Contains(core.FuncName(f), "Mock") {
			continue
		}
		fn := core.FuncName(f)
		type ctxAcc struct {
			name  string
			multi bool
			acc   []core.Access
			spawn ssa.Instruction
		}
		var ctxs []ctxAcc
		for i, sp := range spawns {
			cl := spawnedClosure(c.P, sp)
			if cl == nil {
				R.Fail("R14.2", fmt.Sprintf("%s#spawn[%d]", fn, i), sp.Pos(), fn, "spawned function cannot be resolved: undecided")
				continue
			}
			nspawn++
			la := core.NewLockAnalysis(c.P)
			la.Collect(cl, "", nil)
			ctxs = append(ctxs, ctxAcc{name: fmt.Sprintf("goroutine[%d]", i), multi: inLoop(sp.Block()), acc: la.Accesses, spawn: sp})
		}
		// spawner's own accesses
		lp := core.NewLockAnalysis(c.P)
		recvObj := ""
		if f.Signature.Recv() != nil {
			recvObj = "recv"
		}
		lp.Collect(f, recvObj, nil)
		var waits []ssa.Instruction
		for _, b := range f.Blocks {
			for _, in := range b.Instrs {
				if isWaitCall(in) {
					waits = append(waits, in)
				}
			}
		}
		// orderedWith: the spawner's access a is ordered with every goroutine that touches obj (it happens before their go statement
		// on every path and never again afterwards, or after the join) – goroutines that never touch obj do not matter
		orderedWith := func(a core.Access, obj string) bool {
			at := a.Site
			if at == nil || at.Parent() != f {
				return false
			}
			for _, w := range waits {
				if core.InstrDominates(w, at) {
					return true
				}
			}
			for _, cx := range ctxs {
				if cx.spawn == nil {
					continue
				}
				touches := false
				for _, ca := range cx.acc {
					if ca.Obj == obj || strings.HasPrefix(ca.Obj, obj+".") || strings.HasPrefix(obj, ca.Obj+".") {
						touches = true
						break
					}
				}
				if !touches {
					continue
				}
				sp := cx.spawn
				// an access in the spawning loop's body dominates the go statement of its own iteration but follows the one of the
				// previous iteration
				if !core.InstrDominates(at, sp) || instrReaches(sp, at) && !freshPerIteration(a.Instr, at, sp) {
					return false
				}
			}
			return true
		}
		parentAcc := lp.Accesses
		ctxs = append(ctxs, ctxAcc{name: "spawner", acc: parentAcc})
		// group by object
		objs := map[string]bool{}
		for _, cx := range ctxs {
			for _, a := range cx.acc {
				if strings.HasPrefix(a.Obj, "var:"+fn+".") || strings.HasPrefix(a.Obj, "recv") || strings.HasPrefix(a.Obj, "global:") {
					objs[a.Obj] = true
				}
			}
		}
		var names []string
		for k := range objs {
			names = append(names, k)
		}
		sort.Strings(names)
		for _, obj := range names {
			var all []core.Access
			nctx := 0
			write := false
			skip := false
			for _, cx := range ctxs {
				n := 0
				for _, a := range cx.acc {
					if a.Obj == obj || strings.HasPrefix(a.Obj, obj+".") || strings.HasPrefix(obj, a.Obj+".") {
						if a.Obj != obj {
							continue // sub-objects are decided under their own name
						}
						if cx.spawn == nil && orderedWith(a, obj) {
							continue
						}
						if a.Typ != nil && core.IsSyncType(a.Typ) || a.Atomic {
							skip = true
						}
						if a.Typ != nil {
							if _, isFn := a.Typ.Underlying().(*types.Signature); isFn {
								skip = true
							}
						}
						all = append(all, a)
						n++
						if a.Write {
							write = true
						}
					}
				}
				if n > 0 {
					nctx++
					if cx.multi {
						nctx++
					}
				}
			}
			if skip || !write || nctx < 2 {
				continue
			}
			common := map[string]bool{}
			for i, a := range all {
				ls := map[string]bool{}
				for _, l := range a.Locks {
					ls[l] = true
				}
				if i == 0 {
					common = ls
				} else {
					for k := range common {
						if !ls[k] {
							delete(common, k)
						}
					}
				}
			}
			key := fmt.Sprintf("%s#shared[%s]", fn, strings.TrimPrefix(obj, "var:"+fn+"."))
			if len(common) > 0 {
				var cl []string
				for k := range common {
					cl = append(cl, strings.TrimPrefix(k, "var:"+fn+"."))
				}
				R.OK("R14.2", key, all[0].Instr.Pos(), fn, fmt.Sprintf("%d concurrent accesses, all under %s", len(all), strings.Join(cl, ",")))
			} else {
				var bad *core.Access
				for i := range all {
					if len(all[i].Locks) == 0 {
						bad = &all[i]
						if all[i].Write {
							break
						}
					}
				}
				if bad == nil {
					bad = &all[0]
				}
				R.Fail("R14.2", key, bad.Instr.Pos(), fn, fmt.Sprintf("variable %s is written and accessed by concurrently running goroutines with no common mutex (e.g. %s in %s, locks %v)", obj, c.P.PosStr(bad.Instr.Pos()), core.FuncName(bad.Fn), bad.Locks))
			}
		}
	}
	R.Floor("R14.2:spawn-sites", nspawn, 3)
}

// checkPointeeFields is the type-keyed complement of R14.1. Access-path names cannot see that two paths lead to one object
// (a pointer copied into a generator struct, a helper returning the state pointer), so fields of module struct types that are
// reached through a pointer are additionally keyed by (type, field): if the sender's and the receiver's call trees both touch
// such a field and one of them writes it, all those accesses must share a mutex. Freshly allocated / local structs are exempt,
// the driver type itself is decided by the access-path rule above.
func checkPointeeFields(c *Ctx, d Driver, send, recv []core.Access) {
	R := c.R
	fieldKey := func(in ssa.Instruction) string {
		var addr ssa.Value
		switch x := in.(type) {
		case *ssa.Store:
			addr = x.Addr
		case *ssa.UnOp:
			addr = x.X
		default:
			return ""
		}
		fa, ok := addr.(*ssa.FieldAddr)
		if !ok {
			return ""
		}
		if _, fresh := fa.X.(*ssa.Alloc); fresh {
			return ""
		}
		pt, ok := fa.X.Type().Underlying().(*types.Pointer)
		if !ok {
			return ""
		}
		nt, ok := pt.Elem().(*types.Named)
		if !ok || nt.Obj().Pkg() == nil || !strings.HasPrefix(nt.Obj().Pkg().Path(), core.ModulePath) || types.Identical(nt, d.Named) {
			return ""
		}
		return nt.Obj().Pkg().Name() + "." + nt.Obj().Name() + "." + core.FieldName(fa)
	}
	type use struct{ send, recv []core.Access }
	uses := map[string]*use{}
	for _, a := range send {
		if k := fieldKey(a.Instr); k != "" {
			if uses[k] == nil {
				uses[k] = &use{}
			}
			uses[k].send = append(uses[k].send, a)
		}
	}
	for _, a := range recv {
		if k := fieldKey(a.Instr); k != "" {
			if uses[k] == nil {
				uses[k] = &use{}
			}
			uses[k].recv = append(uses[k].recv, a)
		}
	}
	var keys []string
	for k := range uses {
		keys = append(keys, k)
	}
	sort.Strings(keys)
	for _, k := range keys {
		u := uses[k]
		if len(u.send) == 0 || len(u.recv) == 0 {
			continue
		}
		all := append(append([]core.Access{}, u.send...), u.recv...)
		var w *core.Access
		skip := false
		for i := range all {
			if all[i].Write && w == nil {
				w = &all[i]
			}
			if all[i].Atomic || core.IsSyncType(all[i].Typ) {
				skip = true
			}
		}
		key := fmt.Sprintf("%s#pointee[%s]", d.Name, k)
		if w == nil || skip {
			R.OK("R14.1", key, all[0].Instr.Pos(), d.Name, "reached through a pointer by sender and receiver, never written by either (or of an atomic type)")
			continue
		}
		var common map[string]bool
		for _, a := range all {
			ls := map[string]bool{}
			for _, l := range a.Locks {
				ls[l] = true
			}
			if common == nil {
				common = ls
				continue
			}
			for l := range common {
				if !ls[l] {
					delete(common, l)
				}
			}
		}
		if len(common) > 0 {
			R.OK("R14.1", key, w.Instr.Pos(), d.Name, fmt.Sprintf("%d accesses through pointers, all under a common mutex", len(all)))
			continue
		}
		var o *core.Access
		for i := range all {
			if &all[i] != w && (o == nil || len(all[i].Locks) == 0) {
				o = &all[i]
			}
		}
		det := fmt.Sprintf("field %s is written at %s (%s, locks %v)", k, c.P.PosStr(w.Instr.Pos()), core.FuncName(w.Fn), w.Locks)
		if o != nil {
			det += fmt.Sprintf(" and accessed at %s (%s, locks %v)", c.P.PosStr(o.Instr.Pos()), core.FuncName(o.Fn), o.Locks)
		}
		det += " through pointers from the concurrently running SendProbe / ReceiveProbe trees with no common mutex (the two access paths may name one object)"
		R.Fail("R14.1", key, w.Instr.Pos(), d.Name, det)
	}
}

// instrReaches: control can flow from instruction a to instruction b (a executed first).
func instrReaches(a, b ssa.Instruction) bool {
	ab, bb := a.Block(), b.Block()
	if ab == bb {
		ia, ib := -1, -1
		for i, in := range ab.Instrs {
			if in == a {
				ia = i
			}
			if in == b {
				ib = i
			}
		}
		if ia < ib {
			return true
		}
	}
	seen := map[*ssa.BasicBlock]bool{}
	work := append([]*ssa.BasicBlock{}, ab.Succs...)
	for len(work) > 0 {
		x := work[len(work)-1]
		work = work[:len(work)-1]
		if x == bb {
			return true
		}
		if seen[x] {
			continue
		}
		seen[x] = true
		work = append(work, x.Succs...)
	}
	return false
}

// freshPerIteration: the accessed variable is allocated inside the spawning loop, after the previous iteration's spawn and
// before this access, so the instance touched here did not exist when the earlier goroutines were started.
func freshPerIteration(acc ssa.Instruction, at, sp ssa.Instruction) bool {
	var addr ssa.Value
	switch x := acc.(type) {
	case *ssa.Store:
		addr = x.Addr
	case *ssa.UnOp:
		addr = x.X
	}
	al, ok := addr.(*ssa.Alloc)
	if !ok || al.Parent() != sp.Parent() {
		return false
	}
	return instrReaches(sp, al) && core.InstrDominates(al, at)
}
