// Package rules holds one file per property; each registers the rules that
// decide that property's static clauses.
package rules

import (
	"fmt"
	"runtime/debug"
	"sort"

	"verif/tool/internal/core"
)

// Ctx is what a property's rule set gets.
type Ctx struct {
	R    *core.Report
	P    *core.Prog // linux/amd64 build
	Tier string
	Seed int
}

type propFn func(c *Ctx)

var registry = map[string]propFn{}
var explanations = map[string]string{}

func register(id string, explanation string, fn propFn) {
	registry[id] = fn
	explanations[id] = explanation
}

// IDs lists the registered properties.
func IDs() []string {
	var s []string
	for k := range registry {
		s = append(s, k)
	}
	sort.Strings(s)
	return s
}

// Run decides one property and returns the exit code.
func Run(id, tier string, seed int, replay string) (code int) {
	if id == "dump" {
		return dump()
	}
	fn, ok := registry[id]
	if !ok {
		fmt.Printf("unknown property %q; have %v\n", id, IDs())
		return 2
	}
	r := core.NewReport(id, tier, seed)
	r.Explanation = explanations[id]
	defer func() {
		if e := recover(); e != nil {
			fmt.Printf("checker panic: %v\n%s\n", e, debug.Stack())
			fmt.Printf("VIOLATION property=%s replay=%s/evidence/replay/%s-panic.json\n", id, core.VerifDir(), id)
			code = 1
		}
	}()
	p, err := core.Load("linux", overlayFromEnv())
	if err != nil {
		fmt.Printf("%s: cannot load /repo: %v\n", id, err)
		fmt.Printf("VIOLATION property=%s replay=%s/evidence/replay/%s-load.json\n", id, core.VerifDir(), id)
		return 1
	}
	r.SetProg(p)
	r.Analysed["targets"] = []string{"linux/amd64"}
	r.Analysed["module_packages"] = len(p.Pkgs)
	r.Analysed["packages_total"] = p.AllPkgs
	r.Analysed["module_functions"] = len(p.ModFuncs)
	r.Analysed["ssa_functions"] = len(p.AllFuncs)
	if len(p.Pkgs) < 19 {
		r.Fail("R00", "loader#packages", 0, "", fmt.Sprintf("only %d module packages loaded, expected >= 19", len(p.Pkgs)))
	}
	c := &Ctx{R: r, P: p, Tier: tier, Seed: seed}
	fn(c)
	if tier == "thorough" {
		runSelfTest(c, id)
		if dfn, ok := darwinRules[id]; ok {
			dp, err := core.Load("darwin", nil)
			if err != nil {
				r.Fail("R00", "loader#darwin", 0, "", err.Error())
			} else {
				r.SetProg(dp)
				r.Analysed["targets"] = []string{"linux/amd64", "darwin/amd64"}
				dfn(&Ctx{R: r, P: dp, Tier: tier, Seed: seed})
				r.SetProg(p)
			}
		}
	}
	return r.Finish(replay)
}

// darwinRules are the platform-independent rule sets re-run on the darwin build in the thorough tier.
var darwinRules = map[string]propFn{}
