package rules

import (
	"encoding/json"
	"fmt"
	"go/ast"
	"go/token"
	"go/types"
	"os"
	"os/exec"
	"regexp"
	"sort"
	"strconv"
	"strings"

	"golang.org/x/tools/go/ssa"

	"verif/tool/internal/core"
)

func init() {
	register("C09", "Decides, for every byte string at once, the error-class and crash-site clauses: (R09.1) error-class summaries computed as a fixpoint over the call graph show that every error ReceiveProbe / ReadHandshake / a module Source.Read can return is nil, carries one of the two retryable wrapper types, is an I/O failure of the capture handle, depends on driver state only, or is one of the two SACK capability verdicts; an error whose cause is the CONTENT of the buffer (a gopacket/x-net decode error, or an error created under a branch on packet-derived data) that reaches an engine without a retryable wrapper is reported with the chain that introduced it, and a Source.Read that can return a zero count on success for content reasons is reported; (R09.2) in both engines and in ReadHandshake the CheckProbeRetryable-true edge leads back to the read with no write to run state, and CheckProbeRetryable recognises exactly the two retryable types through errors.As; (R09.3) no panic, Must* or log.Fatal* call is reachable from ReceiveProbe/ReadHandshake inside the module, the SACK matcher dereferences its handshake state only behind IsHandshakeFinished, and (thorough tier) the bounds checks the Go compiler cannot eliminate in functions on the inbound path are exactly the reviewed table. Panics inside gopacket's DecodeFromBytes when called outside DecodeLayers' recover, and inside x/net's icmp.ParseMessage, are third-party and not decided. (R09.3d) Every direct gopacket layer decode reachable from the inbound roots passes a non-nil DecodeFeedback (the decoders call df.SetTruncated() on short input). Premises are read from inlined paths: Parse is given buffer[:n] with n the count of the read into that buffer; an error created exactly when Source.Read returned a zero count is a handle fault, not content. The bounds prover also uses the Read contract (buf[:n]), minimum lengths established at every call site of a helper, constants passed for an index parameter, and len converted to an unsigned type. R01.10 (address family kept by the IPv6 pair builder) and the deadline-sentinel-identity premise are part of this check.", runC09)
	darwinRules["C09"] = runC09Darwin
}

// contentExceptions: reviewed functions that create a content-dependent non-retryable error, with the number of such creation
// sites confirmed by reading and the reason. The key is the creating function, not the message text (rewording a message does
// not change behaviour); an additional site in the same function raises the count and is reported.
var contentExceptions = map[string]struct {
	n   int
	why string
}{
	"(*packets.FrameParser).getParser": {1, "empty buffer: infeasible, ReadAndParse returns on n == 0 before parsing (premise verified by dominance on every run)"},
	"(*packets.FrameParser).GetIPPair": {1, "unexpected IP layer: infeasible after Parse succeeded, checkLayers admits exactly the IP layer types GetIPPair handles (premise verified on every run)"},
}

func inboundRoots(c *Ctx) (roots []*ssa.Function, names []string) {
	for _, d := range Drivers(c.P) {
		roots = append(roots, d.ReceiveProbe)
		names = append(names, core.FuncName(d.ReceiveProbe))
	}
	if f := c.P.Func("(*sack.sackDriver).ReadHandshake"); f != nil {
		roots = append(roots, f)
		names = append(names, core.FuncName(f))
	}
	return
}

func sourceImpls(c *Ctx) []*ssa.Function {
	it := lookupType(c.P, "packets", "Source")
	if it == nil {
		return nil
	}
	iface := it.Underlying().(*types.Interface)
	var out []*ssa.Function
	for _, sp := range c.P.SSAPkgs {
		for _, m := range sp.Members {
			tn, ok := m.(*ssa.Type)
			if !ok {
				continue
			}
			named, ok := tn.Type().(*types.Named)
			if !ok || strings.Contains(named.Obj().Name(), "Mock") {
				continue
			}
			if _, isI := named.Underlying().(*types.Interface); isI {
				continue
			}
			ptr := types.NewPointer(named)
			if !types.Implements(ptr, iface) {
				continue
			}
			ms := c.P.SSA.MethodSets.MethodSet(ptr)
			for i := 0; i < ms.Len(); i++ {
				if ms.At(i).Obj().Name() == "Read" {
					out = append(out, c.P.SSA.MethodValue(ms.At(i)))
				}
			}
		}
	}
	sort.Slice(out, func(i, j int) bool { return core.FuncName(out[i]) < core.FuncName(out[j]) })
	return out
}

func runC09(c *Ctx)       { runC09on(c, true) }
func runC09Darwin(c *Ctx) { runC09on(c, false) }

func runC09on(c *Ctx, linux bool) {
	R := c.R
	checkFamilySeparation(c)
	ea := NewErrAnalysis(c)
	roots, _ := inboundRoots(c)
	R.Floor("R09.1:inbound-roots", len(roots), 5)
	impls := sourceImpls(c)
	if !linux {
		impls = nil // the secondary build's capture layer is outside the claim
	}
	if linux {
		R.Floor("R09.1:source-implementations", len(impls), 1)
	}
	checkErrClasses(c, ea, append(append([]*ssa.Function{}, roots...), impls...), "R09.1")
	for _, rf := range impls {
		checkReadCount(c, rf)
	}
	checkPremises(c)
	checkRetryableSkipped(c)
	checkRetryablePredicate(c)
	checkNoPanic(c, roots)
	checkDecodeFeedback(c, roots)
	checkFixedWidthReads(c, roots)
	checkStateDeref(c)
	if linux {
		checkBCE(c, roots)
	}
}

func checkErrClasses(c *Ctx, ea *ErrAnalysis, rfs []*ssa.Function, rule string) {
	R := c.R
	type agg struct {
		e     ErrClass
		roots []string
	}
	byOrigin := map[string]*agg{}
	excSeen := map[string]map[string]bool{}
	for _, rf := range rfs {
		fn := core.FuncName(rf)
		classes := ea.Summary(rf).sorted()
		if len(classes) == 0 {
			R.Fail(rule, fn+"#classes", rf.Pos(), fn, "no error class computed: undecided")
			continue
		}
		for _, e := range classes {
			k := e.key()
			if byOrigin[k] == nil {
				byOrigin[k] = &agg{e: e}
			}
			byOrigin[k].roots = append(byOrigin[k].roots, fn)
		}
	}
	var keys []string
	for k := range byOrigin {
		keys = append(keys, k)
	}
	sort.Strings(keys)
	for _, k := range keys {
		a := byOrigin[k]
		e := a.e
		key := fmt.Sprintf("inbound#class[%s]", e.Origin)
		if e.Tags != "" {
			key = fmt.Sprintf("inbound#class[%s/%s]", e.Origin, e.Tags)
		}
		ofn := ""
		if e.Fn != nil {
			ofn = core.FuncName(e.Fn)
		}
		reach := "reaches " + strings.Join(a.roots, ", ")
		switch {
		case e.Cause == "nil":
			continue
		case strings.Contains(e.Tags, "NotSupported"):
			if e.SiteFn != nil {
				ofn = core.FuncName(e.SiteFn)
				key = fmt.Sprintf("inbound#class[%s]", e.Site)
			}
			// the two capability verdicts the property / C20 allow to end a SACK run: created under a guard on the reply in the
			// ReceiveProbe or ReadHandshake tree of the SACK driver (census shared with C20 R20.2, keyed by region, not by name)
			allowed, why := false, ""
			if e.SiteFn != nil {
				sites, _, _ := notSupportedCensus(c)
				for _, st := range sites {
					if st.fn == e.SiteFn && st.ok && (st.region == "recv" || st.region == "handshake") {
						allowed, why = true, st.why
					}
				}
			}
			if allowed {
				R.OK(rule, key, e.Pos, ofn, "capability verdict: "+why)
			} else {
				R.Fail(rule, key, e.Pos, ofn, "a NotSupportedError from "+e.Origin+" can end the run on the inbound path ("+reach+"); only the two reviewed capability verdicts may")
			}
		case e.Retryable():
			R.OK(rule, key, e.Pos, ofn, "retryable ("+e.Tags+"), cause "+e.Cause+"; "+reach)
		case e.Cause == "io":
			R.OK(rule, key, e.Pos, ofn, "failure or deadline of the capture/send handle itself (fatal by design, C10); "+reach)
		case e.Cause == "state":
			R.Info(rule, key, e.Pos, ofn, "depends on driver state only; no byte string influences it; "+reach)
		case e.Cause == "content" || e.Cause == "guard":
			if ex, ok := contentExceptions[ofn]; ok {
				if excSeen[ofn] == nil {
					excSeen[ofn] = map[string]bool{}
				}
				excSeen[ofn][e.Origin] = true
				if len(excSeen[ofn]) <= ex.n {
					R.OK(rule, key, e.Pos, ofn, "reviewed exception: "+ex.why)
					continue
				}
			}
			kind := "a decoder error on the packet's bytes"
			if e.Cause == "guard" {
				kind = "an error created under a branch on packet-derived data"
			}
			R.Fail(rule, key, e.Pos, ofn, fmt.Sprintf("%s (%s) %s without a retryable wrapper (BadPacketError / ReceiveProbeNoPktError): one malformed packet aborts the run", kind, e.Origin, reach))
		default:
			R.Fail(rule, key, e.Pos, ofn, "error of unknown provenance ("+e.Origin+", cause "+e.Cause+") on the inbound path ("+reach+"): undecided")
		}
	}
}

// checkReadCount is R09.1c: a Source.Read must not report success with a zero count for content reasons.
func checkReadCount(c *Ctx, f *ssa.Function) {
	R := c.R
	fn := core.FuncName(f)
	rps, _ := core.ReturnPaths(c.P, f, 3000)
	n := 0
	for _, rp := range rps {
		if len(rp.Results) != 2 || !rp.Results[1].IsConst("nil") {
			continue
		}
		n++
		cnt := rp.Results[0]
		key := fmt.Sprintf("%s#success-count", fn)
		if cnt.Op != "len" {
			// the count of the underlying read: positive by the os.File / syscall contract
			R.OK("R09.1", key, rp.Ret.Pos(), fn, "success count is "+cnt.String()+" (count of the underlying read)")
			continue
		}
		x := cnt.Args[0]
		guarded := false
		for _, a := range rp.Atoms {
			nn := a.Norm()
			s := nn.Cond
			if s.Op == "binop" && s.Args[0].Op == "len" && s.Args[0].Args[0].Key() == x.Key() {
				switch {
				case s.Name == "==" && s.Args[1].IsConst("0") && !nn.Sign,
					s.Name == ">" && s.Args[1].IsConst("0") && nn.Sign,
					s.Name == "<" && s.Args[1].IsConst("1") && !nn.Sign,
					s.Name == ">=" && s.Args[1].IsConst("1") && nn.Sign:
					guarded = true
				}
			}
		}
		R.Check(guarded, "R09.1", key, rp.Ret.Pos(), fn, "a zero-length payload is never reported as a successful read", "returns len("+x.String()+") with a nil error without establishing that it is non-empty: a frame whose IP payload is empty yields a zero-length read, which ReadAndParse turns into a fatal error")
	}
	R.Floor("R09.1:success-returns:"+fn, n, 1)
}

// checkSentinelIdentity: on the inbound and run paths no error is compared by identity (== / !=) with os.ErrDeadlineExceeded. The
// capture handles report an expired read deadline wrapped (*fs.PathError from a file, *net.OpError from a connection): only
// errors.Is finds it, and an identity test makes every quiet poll interval a fatal read error that aborts the run.
func checkSentinelIdentity(c *Ctx) {
	R := c.R
	n := 0
	ir, _ := inboundRoots(c)
	roots := append(ir, runRoots(c)...)
	for _, f := range ModReach(c.P, roots...) {
		for _, b := range f.Blocks {
			for _, in := range b.Instrs {
				bo, ok := in.(*ssa.BinOp)
				if !ok || bo.Op != token.EQL && bo.Op != token.NEQ {
					continue
				}
				for _, side := range []ssa.Value{bo.X, bo.Y} {
					if ld, ok := c.P.Def(side).(*ssa.UnOp); ok {
						if g, ok := ld.X.(*ssa.Global); ok && g.Name() == "ErrDeadlineExceeded" && g.Pkg != nil && g.Pkg.Pkg.Path() == "os" {
							n++
							R.Fail("R09.1", core.FuncName(f)+"#deadline-sentinel-identity", bo.Pos(), core.FuncName(f), "an error is compared with os.ErrDeadlineExceeded by identity: the handles report the expired deadline wrapped (*fs.PathError, *net.OpError), so the test is false for them and an ordinary quiet poll interval becomes a fatal read error that ends the run and discards the replies still to come")
						}
					}
				}
			}
		}
	}
	R.OK("R09.1", "run-path#deadline-sentinel-identity", 0, "", fmt.Sprintf("no identity comparison with os.ErrDeadlineExceeded on the run path (%d found)", n))
}

// checkLoggerResultAsError: on the inbound path no function returns, as its error, what a logging call returned. The module's
// logging helpers return an error only as a convenience - nil with the default logger, a plain formatted error with a custom one:
// neither is a skippable class, so the packet that should be skipped makes ReceiveProbe return (nil, nil) or a fatal error and one
// crafted reply aborts the run.
func checkLoggerResultAsError(c *Ctx) {
	R := c.R
	ir, _ := inboundRoots(c)
	n := 0
	for _, f := range ModReach(c.P, ir...) {
		res := f.Signature.Results()
		if res.Len() == 0 || !isErrorType(res.At(res.Len()-1).Type()) {
			continue
		}
		for _, b := range f.Blocks {
			ret, ok := b.Instrs[len(b.Instrs)-1].(*ssa.Return)
			if !ok || len(ret.Results) == 0 {
				continue
			}
			n++
			var cands []ssa.Value
			v := c.P.Def(ret.Results[len(ret.Results)-1])
			if phi, ok := v.(*ssa.Phi); ok {
				for _, e := range phi.Edges {
					cands = append(cands, c.P.Def(e))
				}
			} else {
				cands = append(cands, v)
			}
			for _, cv := range cands {
				call, ok := cv.(*ssa.Call)
				if !ok || call.Common().StaticCallee() == nil {
					continue
				}
				if g := call.Common().StaticCallee(); core.InModule(g) && core.ShortPkg(core.FuncPkg(g)) == "log" {
					R.Fail("R09.1", core.FuncName(f)+"#logger-result-as-error", ret.Pos(), core.FuncName(f), "the error returned here is what "+core.FuncName(g)+" returned: nil with the default logger (so the function reports no result and no error) or a plain error with a custom one - neither is a skippable class, so a packet that ought to be skipped aborts the run")
				}
			}
		}
	}
	R.OK("R09.1", "inbound#logger-result-as-error", 0, "", fmt.Sprintf("%d returns on the inbound path, none hands back a logging call's result as the error", n))
}

// checkPremises verifies the facts the exception table relies on.
func checkPremises(c *Ctx) {
	R := c.R
	checkSentinelIdentity(c)
	checkLoggerResultAsError(c)
	// (1) ReadAndParse: Parse is only called with n != 0 and a nil read error
	f := c.P.Func("packets.ReadAndParse")
	if f == nil {
		R.Fail("R09.1", "packets.ReadAndParse#anchor", 0, "", "anchor packets.ReadAndParse no longer resolves")
	} else {
		found := false
		okAll := true
		var ppos token.Pos
		// inlined paths: the read and its classification may sit in a helper of the package
		isParse := func(h *ssa.Function) bool { return core.FuncName(h) == "(*packets.FrameParser).Parse" }
		for _, ip := range InlinedPaths(c.P, f, inlineOpts{pkg: core.FuncPkg(f), stop: func(h *ssa.Function) bool { return isParse(h) || hasLoop(h) }}) {
			parses := false
			for _, ev := range ip.Events {
				if call, ok := ev.Instr.(*ssa.Call); ok && ev.Kind == "call" && call.Common().StaticCallee() != nil && isParse(call.Common().StaticCallee()) {
					parses = true
					ppos = call.Pos()
					// what is parsed is exactly what was read: buffer[:n] with n the count Read returned for that buffer (the
					// reused buffer's tail holds earlier packets: parsing it completes a truncated packet with stale bytes)
					exact := false
					if len(ev.Args) >= 2 {
						a := ev.Args[len(ev.Args)-1]
						if a.Op == "slice" && len(a.Args) >= 3 {
							hi := a.Args[2]
							if hi.Op == "extract" && hi.Name == "0" && len(hi.Args) == 1 && hi.Args[0].Op == "call" && strings.HasSuffix(hi.Args[0].Name, "Source.Read") && len(hi.Args[0].Args) >= 2 && hi.Args[0].Args[len(hi.Args[0].Args)-1].Key() == a.Args[0].Key() {
								exact = true
							}
						}
						if exact {
							R.OK("R09.1", "packets.ReadAndParse#premise[parses-what-was-read]", call.Pos(), core.FuncName(f), "Parse is given buffer[:n], n the count of the read into that buffer")
						} else {
							R.FailPath("R09.1", "packets.ReadAndParse#premise[parses-what-was-read]", call.Pos(), core.FuncName(f), "Parse is given "+a.String()+", not the read buffer cut to the count Read returned: bytes left over from earlier packets are parsed as part of this one, so a truncated packet can be completed into a well-formed reply instead of being skipped", ip.Desc)
						}
					}
				}
			}
			nz, ne := false, false
			for _, a := range ip.Atoms {
				nn := a.Norm()
				s := nn.Cond.String()
				if !nn.Sign && strings.HasSuffix(s, "#0 == 0)") && strings.Contains(s, "Source.Read") {
					nz = true
				}
				// the other spellings of 'the count is positive'
				if strings.Contains(s, "Source.Read") && nn.Cond.Op == "binop" && len(nn.Cond.Args) == 2 && strings.HasSuffix(nn.Cond.Args[0].String(), "#0") {
					r := nn.Cond.Args[1]
					switch {
					case r.IsConst("0") && (nn.Cond.Name == "<=" && !nn.Sign || nn.Cond.Name == ">" && nn.Sign || nn.Cond.Name == "!=" && nn.Sign):
						nz = true
					case r.IsConst("1") && (nn.Cond.Name == "<" && !nn.Sign || nn.Cond.Name == ">=" && nn.Sign):
						nz = true
					}
				}
				if nn.Sign && strings.HasSuffix(s, "#1 == nil)") && strings.Contains(s, "Source.Read") {
					ne = true
				}
			}
			// a read that succeeded with a count not known to be non-zero ends the call with a fatal error: a handle that
			// delivers empty reads is broken, and calling that 'a packet to skip' makes the engines poll it until the timeout
			// and report an empty path as a success
			if ne && !nz && len(ip.Results) > 0 {
				r := ip.Results[len(ip.Results)-1]
				retry := r.Has(func(x *core.Term) bool {
					if x.Op != "alloc" || x.Typ == nil {
						return false
					}
					pt, ok := x.Typ.Underlying().(*types.Pointer)
					if !ok {
						return false
					}
					tg := wrapperTag(pt.Elem())
					return tg == "NoPkt" || tg == "BadPkt"
				})
				if r.IsConst("nil") || retry {
					pos := f.Pos()
					if ip.Ret != nil {
						pos = ip.Ret.Pos()
					}
					R.FailPath("R09.1", "packets.ReadAndParse#premise[zero-read-is-fatal]", pos, core.FuncName(f), "a read that returned no error and a count not established to be non-zero ends with "+r.String()+": the zero-length read is no longer a fatal error but a success or a packet to skip, so a handle that only delivers empty reads is polled until the timeout and the run reports an empty path instead of the failure", ip.Desc)
				} else {
					R.OK("R09.1", "packets.ReadAndParse#premise[zero-read-is-fatal]", f.Pos(), core.FuncName(f), "a possibly empty read ends with a fatal error")
				}
			}
			if !parses {
				continue
			}
			found = true
			if !nz || !ne {
				okAll = false
			}
		}
		if found {
			R.Check(okAll, "R09.1", "packets.ReadAndParse#premise[parse-after-nonempty-read]", ppos, core.FuncName(f), "Parse is reached only with a nil read error and n != 0", "Parse can be reached with n == 0 or a read error: the 'buffer was empty' exception no longer holds")
		}
		R.Check(found, "R09.1", "packets.ReadAndParse#calls-parse", f.Pos(), core.FuncName(f), "ReadAndParse parses what it read", "ReadAndParse no longer calls FrameParser.Parse: anchor lost")
	}
	// (2) Parse returns nil only behind checkLayers() == nil
	g := c.P.Func("(*packets.FrameParser).Parse")
	if g == nil {
		R.Fail("R09.1", "packets.Parse#anchor", 0, "", "anchor (*packets.FrameParser).Parse no longer resolves")
	} else {
		rps, _ := core.ReturnPaths(c.P, g, 2000)
		n, ok := 0, true
		for _, rp := range rps {
			if !rp.Results[0].IsConst("nil") {
				continue
			}
			n++
			f1, s1 := atomTrue(rp.Atoms, func(t *core.Term) bool {
				return t.Op == "binop" && t.Name == "==" && isCallToSuffix(t.Args[0], ".checkLayers") && t.Args[1].IsConst("nil")
			})
			if !(f1 && s1) {
				ok = false
			}
		}
		R.Check(ok && n > 0, "R09.1", "packets.Parse#premise[nil-only-after-checkLayers]", g.Pos(), core.FuncName(g), "Parse succeeds only when checkLayers() accepted the layers", "Parse can return nil without checkLayers() having accepted the layers")
	}
	// (3) checkLayers admits exactly the IP layer types GetIPPair handles
	cl := c.P.Func("(*packets.FrameParser).checkLayers")
	gp := c.P.Func("(*packets.FrameParser).GetIPPair")
	if cl == nil || gp == nil {
		R.Fail("R09.1", "packets.checkLayers#anchor", 0, "", "anchor checkLayers / GetIPPair no longer resolves")
	} else {
		handled := map[string]bool{}
		getterKeys := map[string]bool{}
		rps, _ := core.ReturnPaths(c.P, gp, 2000)
		for _, rp := range rps {
			if !rp.Results[1].IsConst("nil") {
				continue
			}
			for _, a := range rp.Atoms {
				nn := a.Norm()
				if nn.Sign && nn.Cond.Op == "binop" && nn.Cond.Name == "==" && nn.Cond.Args[1].Op == "global" {
					handled[nn.Cond.Args[1].Name] = true
					// the expression GetIPPair switches on IS the IP-layer getter, whatever it is called after inlining
					getterKeys[nn.Cond.Args[0].String()] = true
				}
			}
		}
		// what checkLayers admits for the IP layer on its success paths: membership in a package-level table, or equality with
		// layer-type constants (possibly inside a predicate helper, which is opened)
		admittedSet := map[string]bool{}
		rps2, _ := core.ReturnPaths(c.P, cl, 2000)
		req := len(rps2) > 0
		for _, rp := range rps2 {
			if !rp.Results[0].IsConst("nil") {
				continue
			}
			for _, atoms := range openPredicates(c.P, "packets", rp.Atoms) {
				if !core.Feasible(atoms) {
					continue
				}
				constrained := false
				for _, a := range atoms {
					nn := a.Norm()
					t := nn.Cond
					if !nn.Sign || !(strings.Contains(t.String(), "GetIPLayer") || t.Has(func(x *core.Term) bool { return getterKeys[x.String()] })) {
						continue
					}
					switch {
					case t.Op == "call" && strings.Contains(t.Name, "slices.Contains"):
						for _, arg := range t.Args {
							if arg.Op == "global" || strings.HasPrefix(arg.String(), "@packets.") {
								for _, e := range globalSliceElems(c, "packets", strings.TrimPrefix(arg.String(), "@packets.")) {
									admittedSet[e] = true
									constrained = true
								}
							}
						}
					case t.Op == "binop" && t.Name == "==" && t.Args[1].Op == "global":
						admittedSet[t.Args[1].Name] = true
						constrained = true
					case t.Op == "binop" && t.Name == "==" && t.Args[0].Op == "global":
						admittedSet[t.Args[0].Name] = true
						constrained = true
					}
				}
				if !constrained {
					req = false
				}
			}
		}
		admitted := keysOf(admittedSet)
		okc := len(admitted) > 0
		for _, a := range admitted {
			if !handled[a] {
				okc = false
			}
		}
		R.Check(okc && req, "R09.1", "packets.checkLayers#premise[ip-layers-handled]", cl.Pos(), core.FuncName(cl), fmt.Sprintf("checkLayers admits %v, all handled by GetIPPair %v", admitted, keysOf(handled)), fmt.Sprintf("checkLayers admits %v (required=%v) but GetIPPair handles %v: the GetIPPair failure is no longer infeasible", admitted, req, keysOf(handled)))
	}
	// (4) every matcher runs only after ReadAndParse returned nil: on every inlined path of ReceiveProbe (helpers of the driver's
	// package opened) that consults the parser, the capture read's error was tested nil before
	for _, d := range Drivers(c.P) {
		f := d.ReceiveProbe
		ips := InlinedPaths(c.P, f, inlineOpts{pkg: core.FuncPkg(f), stop: hasLoop, maxDepth: 4})
		okAll, n := true, 0
		for _, ip := range ips {
			consults := false
			parsed := false
			for _, a := range ip.Atoms {
				nn := a.Norm()
				if nn.Cond.Has(func(x *core.Term) bool { return x.Op == "call" && strings.Contains(x.Name, "(*packets.FrameParser).") }) {
					consults = true
				}
				if nn.Sign && nn.Cond.Op == "binop" && nn.Cond.Name == "==" && nn.Cond.Args[1].IsConst("nil") {
					if cs, ok := nn.Cond.Args[0].Val.(*ssa.Call); ok && nn.Cond.Args[0].Op == "call" && isCaptureRead(cs.Common()) {
						parsed = true
					}
				}
			}
			if consults {
				n++
				if !parsed {
					okAll = false
				}
			}
		}
		R.Check(okAll && n > 0, "R09.1", core.FuncName(f)+"#premise[match-after-parse]", f.Pos(), core.FuncName(f), fmt.Sprintf("the matcher consults the parser only after the capture read returned nil (%d paths)", n), "the matcher can run without a successful ReadAndParse")
	}
}

// globalSliceElems reads the elements of a package-level slice literal of globals (from the init function).
func globalSliceElems(c *Ctx, pkg, name string) []string {
	sp := c.P.SSAPkgs[pkg]
	if sp == nil {
		return nil
	}
	init := sp.Func("init")
	var out []string
	if init == nil {
		return nil
	}
	g, _ := sp.Members[name].(*ssa.Global)
	if g == nil {
		return nil
	}
	for _, b := range init.Blocks {
		for _, in := range b.Instrs {
			st, ok := in.(*ssa.Store)
			if !ok || st.Addr != ssa.Value(g) {
				continue
			}
			sl, ok := st.Val.(*ssa.Slice)
			if !ok {
				continue
			}
			arr, ok := sl.X.(*ssa.Alloc)
			if !ok {
				continue
			}
			for _, r := range *arr.Referrers() {
				if ia, ok := r.(*ssa.IndexAddr); ok {
					for _, r2 := range *ia.Referrers() {
						if s2, ok := r2.(*ssa.Store); ok && s2.Addr == ssa.Value(ia) {
							if ld, ok := s2.Val.(*ssa.UnOp); ok {
								if gg, ok := ld.X.(*ssa.Global); ok {
									out = append(out, gg.Pkg.Pkg.Name()+"."+gg.Name())
								}
							}
						}
					}
				}
			}
		}
	}
	sort.Strings(out)
	return out
}

// checkRetryableSkipped is R09.2 (engines + ReadHandshake).
func checkRetryableSkipped(c *Ctx) {
	R := c.R
	n := 0
	for _, f := range c.P.ModFuncs {
		for _, b := range f.Blocks {
			iff, ok := b.Instrs[len(b.Instrs)-1].(*ssa.If)
			if !ok {
				continue
			}
			call, tIdx := condCall(iff)
			if call == nil || !calleeIs(call, "common.CheckProbeRetryable") {
				continue
			}
			n++
			fn := core.FuncName(f)
			key := fmt.Sprintf("%s#retry-edge", fn)
			// the read the error came from
			var read *ssa.Call
			if len(call.Common().Args) == 2 {
				if ex, ok := call.Common().Args[1].(*ssa.Extract); ok {
					read, _ = ex.Tuple.(*ssa.Call)
				} else if cl, ok := call.Common().Args[1].(*ssa.Call); ok {
					read = cl
				}
			}
			if read == nil {
				R.Fail("R09.2", key, call.Pos(), fn, "CheckProbeRetryable is not applied to the error of a read call: undecided")
				continue
			}
			// blocks of the read's own loop reachable from the retry edge before the read's block is entered again
			loop := innermostLoop(f, read.Block())
			seen := map[*ssa.BasicBlock]bool{}
			work := []*ssa.BasicBlock{b.Succs[tIdx]}
			dirty := ""
			if loop == nil || !loop[b.Succs[tIdx]] {
				dirty = "the retryable edge leaves the read loop: a skipped packet ends the wait"
				work = nil
			}
			reachedRead := false
			for len(work) > 0 {
				x := work[len(work)-1]
				work = work[:len(work)-1]
				if seen[x] || !loop[x] {
					continue
				}
				seen[x] = true
				for _, in := range x.Instrs {
					if in == ssa.Instruction(read) {
						reachedRead = true
						break
					}
					switch y := in.(type) {
					case *ssa.Store:
						if a, ok := y.Addr.(*ssa.Alloc); ok && !a.Heap {
							continue
						}
						if _, ok := y.Addr.(*ssa.Alloc); ok {
							continue // loop variables (probe, err) of the engine itself
						}
						dirty = "store at " + c.P.PosStr(y.Pos())
					case *ssa.MapUpdate:
						dirty = "map update at " + c.P.PosStr(y.Pos())
					case *ssa.Call:
						if cal := y.Common().StaticCallee(); cal != nil && core.InModule(cal) && !strings.HasPrefix(core.FuncName(cal), "log.") && !pureFunc(c, cal) {
							dirty = "call of " + core.FuncName(cal)
						}
						if cal := y.Common().StaticCallee(); cal == nil && !y.Common().IsInvoke() {
							if _, isB := y.Common().Value.(*ssa.Builtin); !isB {
								dirty = "call of a function value at " + c.P.PosStr(y.Pos())
							}
						}
					}
				}
				if x == read.Block() {
					continue
				}
				// on the retry edge the response is nil (C01 R01.7 for every module driver): follow `resp == nil` accordingly
				if iff2, ok := x.Instrs[len(x.Instrs)-1].(*ssa.If); ok {
					if bo, ok := iff2.Cond.(*ssa.BinOp); ok {
						if cst, ok := bo.Y.(*ssa.Const); ok && cst.Value == nil && valueFrom(bo.X, read, 0) {
							switch bo.Op.String() {
							case "==":
								work = append(work, x.Succs[0])
								continue
							case "!=":
								work = append(work, x.Succs[1])
								continue
							}
						}
					}
				}
				work = append(work, x.Succs...)
			}
			_ = reachedRead
			R.Check(dirty == "", "R09.2", key, call.Pos(), fn, "a retryable error leads back to the read with no write to run state", "the retryable edge is not a pure skip: "+dirty)
		}
	}
	R.Floor("R09.2:retry-edges", n, 2)
}

// checkRetryablePredicate: CheckProbeRetryable ⇔ errors.As(NoPkt) ∨ errors.As(BadPkt).
func checkRetryablePredicate(c *Ctx) {
	R := c.R
	f := c.P.Func("common.CheckProbeRetryable")
	if f == nil {
		R.Fail("R09.2", "common.CheckProbeRetryable#anchor", 0, "", "anchor common.CheckProbeRetryable no longer resolves")
		return
	}
	fn := core.FuncName(f)
	// helpers of the package are opened: the predicate may be spelled isNoPacketErr(err) || isBadPacketErr(err)
	rps := InlinedPaths(c.P, f, inlineOpts{pkg: core.FuncPkg(f), stop: hasLoop})
	seenTypes := map[string]bool{}
	okShape := len(rps) > 0
	// the wrapper type an errors.As call looks for: the type its target variable points to
	targetOf := func(t *core.Term) string {
		tgt := ""
		t.Walk(func(x *core.Term) bool {
			if x.Op == "alloc" && x.Typ != nil {
				if pt, ok := x.Typ.Underlying().(*types.Pointer); ok {
					if tg := wrapperTag(pt.Elem()); tg != "" {
						tgt = tg
					}
					if p2, ok := pt.Elem().(*types.Pointer); ok {
						if tg := wrapperTag(p2); tg != "" {
							tgt = tg
						}
					}
				}
			}
			return true
		})
		return tgt
	}
	for _, rp := range rps {
		res := rp.Results[0]
		var pos []string
		nneg := 0
		for _, a := range rp.Atoms {
			nn := a.Norm()
			if nn.Cond.Op == "call" && nn.Cond.Name == "errors.As" {
				if nn.Sign {
					pos = append(pos, targetOf(nn.Cond))
				} else {
					nneg++
				}
			} else {
				okShape = false
			}
		}
		switch {
		case res.IsConst("true"):
			if len(pos) != 1 {
				okShape = false
			}
			for _, p := range pos {
				seenTypes[p] = true
			}
		case res.IsConst("false"):
			if len(pos) != 0 || nneg < 2 {
				okShape = false
			}
		case res.Op == "call" && res.Name == "errors.As":
			// `return errors.As(err, &a) || errors.As(err, &b)`: the last disjunct is returned as it is; both of its outcomes
			// are the two cases above
			if len(pos) != 0 || nneg+1 < 2 {
				okShape = false
			}
			seenTypes[targetOf(res)] = true
		default:
			okShape = false
		}
	}
	R.Check(okShape && seenTypes["NoPkt"] && seenTypes["BadPkt"] && len(seenTypes) == 2, "R09.2", fn+"#predicate", f.Pos(), fn, "true exactly when errors.As finds a ReceiveProbeNoPktError or a BadPacketError", fmt.Sprintf("CheckProbeRetryable is not exactly errors.As(NoPkt) ∨ errors.As(BadPkt): shape ok=%v, target types %v", okShape, keysOf(seenTypes)))
}

// checkNoPanic is R09.3(a).
func checkNoPanic(c *Ctx, roots []*ssa.Function) {
	R := c.R
	scan := func(fs []*ssa.Function) []string {
		var hits []string
		for _, f := range fs {
			for _, b := range f.Blocks {
				for _, in := range b.Instrs {
					switch x := in.(type) {
					case *ssa.Panic:
						hits = append(hits, core.FuncName(f)+"#panic@"+c.P.PosStr(x.Pos()))
					case ssa.CallInstruction:
						if cal := x.Common().StaticCallee(); cal != nil {
							n := cal.Name()
							if strings.HasPrefix(n, "Must") || strings.HasPrefix(n, "Fatal") || (cal.Pkg != nil && cal.Pkg.Pkg.Path() == "os" && n == "Exit") {
								hits = append(hits, core.FuncName(f)+"#"+shortName(cal))
							}
						}
					}
				}
			}
		}
		return hits
	}
	fs := ModReach(c.P, roots...)
	R.Analysed["inbound_path_functions"] = len(fs)
	hits := scan(fs)
	for _, h := range hits {
		R.Fail("R09.3", h, 0, strings.SplitN(h, "#", 2)[0], "a panic / Must* / Fatal call is reachable from ReceiveProbe/ReadHandshake inside the module")
	}
	if len(hits) == 0 {
		R.OK("R09.3", "inbound#no-panic-sites", 0, "", fmt.Sprintf("no panic, Must* or Fatal* call in the %d module functions reachable from ReceiveProbe/ReadHandshake", len(fs)))
	}
	// positive control: the same predicate must find netip.MustParseAddr under parseTarget
	var ctl []*ssa.Function
	if f := c.P.Func("traceroute.parseTarget"); f != nil {
		ctl = ModReach(c.P, f)
	}
	R.Floor("R09.3:control(Must* found under parseTarget)", len(scan(ctl)), 1)
}

// checkDecodeFeedback is R09.3(d): gopacket's layer decoders call df.SetTruncated() unguarded when the input is shorter than the
// layer's fixed header, so a direct DecodeFromBytes with a nil feedback is a nil-interface call (panic) on exactly the truncated quotes
// the property quantifies over. Every direct layer decode reachable from the inbound roots must pass a non-nil DecodeFeedback.
func checkDecodeFeedback(c *Ctx, roots []*ssa.Function) {
	R := c.R
	n := 0
	for _, f := range ModReach(c.P, roots...) {
		for _, b := range f.Blocks {
			for _, in := range b.Instrs {
				ci, ok := in.(ssa.CallInstruction)
				if !ok {
					continue
				}
				cc := ci.Common()
				var name string
				var args []ssa.Value
				if cc.IsInvoke() {
					name, args = cc.Method.Name(), cc.Args
				} else if cal := cc.StaticCallee(); cal != nil && cal.Signature.Recv() != nil && len(cc.Args) > 0 {
					name, args = cal.Name(), cc.Args[1:]
				}
				if name != "DecodeFromBytes" || len(args) != 2 {
					continue
				}
				if nt, ok := args[1].Type().(*types.Named); !ok || nt.Obj().Name() != "DecodeFeedback" {
					continue
				}
				n++
				fn := core.FuncName(f)
				isNil := false
				if cst, ok := args[1].(*ssa.Const); ok && cst.IsNil() {
					isNil = true
				}
				R.Check(!isNil, "R09.3", fmt.Sprintf("%s#decode-feedback[%d]", fn, n), in.Pos(), fn, "direct layer decode passes a non-nil DecodeFeedback", "direct layer decode passes a nil DecodeFeedback: gopacket decoders call df.SetTruncated() on input shorter than the header, so a truncated packet panics here instead of being skipped")
			}
		}
	}
	R.Floor("R09.3:direct-decode-sites", n, 2)
}

// checkStateDeref is R09.3(c).
func checkStateDeref(c *Ctx) {
	R := c.R
	f := c.P.Func("(*sack.sackDriver).ReceiveProbe")
	if f == nil {
		R.Fail("R09.3", "sack.ReceiveProbe#anchor", 0, "", "anchor (*sack.sackDriver).ReceiveProbe no longer resolves")
		return
	}
	n := 0
	for _, b := range f.Blocks {
		for _, in := range b.Instrs {
			call, ok := in.(*ssa.Call)
			if !ok || call.Common().StaticCallee() == nil || !strings.HasSuffix(core.FuncName(call.Common().StaticCallee()), ".handleProbeLayers") {
				continue
			}
			n++
			okAll := true
			paths, _ := core.EnumPaths(f, b, 500)
			for _, pa := range paths {
				env := core.NewEnv(c.P, pa)
				f1, s1 := atomTrue(env.Atoms(), func(t *core.Term) bool { return t.String() == "(recv.state == nil)" })
				if !(f1 && !s1) {
					okAll = false
				}
			}
			R.Check(okAll, "R09.3", core.FuncName(f)+"#state-guard", call.Pos(), core.FuncName(f), "the matcher (which dereferences s.state) runs only behind IsHandshakeFinished()", "the matcher can run with a nil handshake state")
		}
	}
	R.Floor("R09.3:state-guard-sites", n, 1)
}

// ---- R09.3(b): compiler bounds-check-elimination oracle ----

// bceTable: reviewed unproven bounds checks on the inbound path, keyed by function + the shape of the expression (one invariant
// each). Local identifiers are replaced by $1, $2, ... in order of appearance so that renaming a variable is not a change; field
// names, literals and operators stay, so that indexing something else or by something else is.
var bceTable = map[string]string{
	"(*packets.FrameParser).GetIPPair|$1.Layers[0]":         "only evaluated to format the message of the infeasible default branch",
	"(*packets.FrameParser).GetICMPInfo|$1.Layers[1]":       "only evaluated to format the message of the default branch; len(Layers) >= 2 after Parse succeeded",
	"(*packets.FrameParser).GetIPLayer|$1.Layers[0]":        "guarded by len(p.Layers) < expectedLayerCount just above (constant 2)",
	"(*packets.FrameParser).GetTransportLayer|$1.Layers[1]": "guarded by len(p.Layers) < expectedLayerCount just above (constant 2)",
	"common.TracerouteParallel$1|$1[$2.TTL]":                "probe validated against MaxTTL (R03.1); table length int(MaxTTL)+1 (R03.2)",
	"common.TracerouteSerial|$1[$2.TTL]":                    "probe validated against MaxTTL (R03.1); table length int(MaxTTL)+1 (R03.2)",
}

var bceLine = regexp.MustCompile(`^(.+\.go):(\d+):(\d+): Found (IsInBounds|IsSliceInBounds)`)

func checkBCE(c *Ctx, roots []*ssa.Function) {
	R := c.R
	discoverLenBoundedFields(c)
	args := []string{"build", "-gcflags=" + core.ModulePath + "/...=-d=ssa/check_bce/debug=1"}
	// self-test variants are source overlays: hand the same overlay to the compiler
	if ov := overlayFromEnv(); ov != nil {
		tmp, err := os.MkdirTemp("", "trcheck-bce-")
		if err == nil {
			defer os.RemoveAll(tmp)
			repl := map[string]string{}
			i := 0
			for path, content := range ov {
				i++
				f := fmt.Sprintf("%s/f%d.go", tmp, i)
				os.WriteFile(f, content, 0o644)
				repl[path] = f
			}
			ob, _ := json.Marshal(map[string]any{"Replace": repl})
			of := tmp + "/overlay.json"
			os.WriteFile(of, ob, 0o644)
			args = append(args, "-overlay="+of)
		}
	}
	args = append(args, "./...")
	cmd := exec.Command(core.GoBin+"/go", args...)
	cmd.Dir = c.P.Dir
	cmd.Env = append(os.Environ(), "PATH="+core.GoBin+":"+os.Getenv("PATH"), "GOFLAGS=-mod=readonly", "GOWORK=off", "CGO_ENABLED=0", "GOOS=linux", "GOARCH=amd64", "GOPROXY=off", "GOSUMDB=off", "GOTOOLCHAIN=local")
	outb, err := cmd.CombinedOutput()
	if err != nil && !bceLine.Match(outb) {
		R.Fail("R09.3", "bce-oracle#build", 0, "", "compiler oracle failed to run: "+err.Error()+": "+firstLine(string(outb)))
		return
	}
	// functions on the inbound path (plus the engines' slot writes)
	inb := map[string]bool{}
	for _, f := range ModReach(c.P, roots...) {
		inb[core.FuncName(f)] = true
	}
	for _, e := range Engines(c.P) {
		for _, g := range withClosures(e.Fn) {
			inb[core.FuncName(g)] = true
		}
	}
	type hit struct {
		file string
		line int
		col  int
		kind string
	}
	var hits []hit
	for _, l := range strings.Split(string(outb), "\n") {
		m := bceLine.FindStringSubmatch(strings.TrimSpace(l))
		if m == nil {
			continue
		}
		ln, _ := strconv.Atoi(m[2])
		cl, _ := strconv.Atoi(m[3])
		hits = append(hits, hit{strings.TrimPrefix(m[1], "./"), ln, cl, m[4]})
	}
	R.Extra["bce_unproven_total"] = len(hits)
	seen := map[string]bool{}
	nin := 0
	for _, h := range hits {
		fnName, expr, lbr := c.locatePos(h.file, h.line, h.col)
		if fnName == "" || !inb[fnName] {
			continue
		}
		if expr == "" {
			continue // no index/slice expression on that line: a check inside an inlined callee, decided in the callee's own function
		}
		nin++
		k := fnName + "|" + expr
		if seen[k] {
			continue
		}
		seen[k] = true
		if ok, why := proveUpperBound(c, c.P.Func(fnName), lbr); ok {
			R.OK("R09.3", "bce#"+k, token.NoPos, fnName, "unproven by the compiler, upper bound established by the checker: "+why)
		} else if why, ok := bceTable[k]; ok {
			R.OK("R09.3", "bce#"+k, token.NoPos, fnName, "unproven by the compiler, reviewed: "+why)
		} else {
			o := core.Obligation{}
			_ = o
			R.Fail("R09.3", "bce#"+k, token.NoPos, fnName, fmt.Sprintf("%s:%d: the compiler cannot prove the bounds of %s in a function on the inbound path and the site is not in the reviewed table: a wrong length guess here crashes the process", h.file, h.line, expr))
		}
	}
	R.Extra["bce_unproven_on_inbound_path"] = nin
	R.Floor("R09.3:bce-oracle-positive-control(unproven checks seen module-wide)", len(hits), 5)
}

func firstLine(s string) string {
	if i := strings.Index(s, "\n"); i >= 0 {
		return s[:i]
	}
	return s
}

// locate maps file:line:col to the enclosing function (FuncName form) and the index/slice expression there.
func (c *Ctx) locate(file string, line, col int) (string, string) {
	fn, expr, _ := c.locatePos(file, line, col)
	return fn, expr
}

// locatePos is locate that also returns the position of the '[' of the expression (the position go/ssa gives the instruction).
func (c *Ctx) locatePos(file string, line, col int) (string, string, token.Pos) {
	for _, pk := range c.P.Pkgs {
		for _, sf := range pk.Syntax {
			pos := c.P.Fset.Position(sf.Pos())
			if !strings.HasSuffix(pos.Filename, "/"+file) {
				continue
			}
			var best ast.Node
			var expr string
			var lbr token.Pos
			ast.Inspect(sf, func(n ast.Node) bool {
				if n == nil {
					return false
				}
				p := c.P.Fset.Position(n.Pos())
				e := c.P.Fset.Position(n.End())
				if p.Line > line || e.Line < line {
					return p.Line <= line
				}
				switch x := n.(type) {
				case *ast.IndexExpr:
					lp := c.P.Fset.Position(x.Lbrack)
					if lp.Line == line && (expr == "" || lp.Column == col || p.Column == col) {
						expr = exprShape(x, pk.TypesInfo)
						lbr = x.Lbrack
					}
				case *ast.SliceExpr:
					lp := c.P.Fset.Position(x.Lbrack)
					if lp.Line == line && (expr == "" || lp.Column == col || p.Column == col) {
						expr = exprShape(x, pk.TypesInfo)
						lbr = x.Lbrack
					}
				case *ast.FuncDecl, *ast.FuncLit:
					best = n
				}
				return true
			})
			if best == nil {
				return "", expr, lbr
			}
			// match the SSA function by position
			for _, f := range c.P.ModFuncs {
				if f.Syntax() == best {
					return core.FuncName(f), expr, lbr
				}
			}
		}
	}
	return "", "", token.NoPos
}

// innermostLoop returns the blocks of the smallest natural loop containing b (nil when b is in no loop).
func innermostLoop(f *ssa.Function, b *ssa.BasicBlock) map[*ssa.BasicBlock]bool {
	var best map[*ssa.BasicBlock]bool
	for _, h := range f.Blocks {
		// the natural loop of header h: union over all its back edges
		var loop map[*ssa.BasicBlock]bool
		for _, t := range h.Preds {
			if !h.Dominates(t) {
				continue
			}
			if loop == nil {
				loop = map[*ssa.BasicBlock]bool{h: true}
			}
			work := []*ssa.BasicBlock{t}
			for len(work) > 0 {
				x := work[len(work)-1]
				work = work[:len(work)-1]
				if loop[x] {
					continue
				}
				loop[x] = true
				work = append(work, x.Preds...)
			}
		}
		if loop != nil && loop[b] && (best == nil || len(loop) < len(best)) {
			best = loop
		}
	}
	return best
}

// pureFunc: the function's module call tree performs no store to non-local memory.
func pureFunc(c *Ctx, f *ssa.Function) bool {
	for _, g := range ModReach(c.P, f) {
		for _, b := range g.Blocks {
			for _, in := range b.Instrs {
				switch x := in.(type) {
				case *ssa.Store:
					if a, ok := x.Addr.(*ssa.Alloc); ok && !a.Heap {
						continue
					}
					if r, _ := addrRootFields(x.Addr); r != nil {
						if a, ok := r.(*ssa.Alloc); ok && !a.Heap {
							continue
						}
					}
					return false
				case *ssa.MapUpdate, *ssa.Send, *ssa.Go:
					return false
				}
			}
		}
	}
	return true
}

// loopOfHeader returns the natural loop of header h (union over all its back edges), or nil.
func loopOfHeader(h *ssa.BasicBlock) map[*ssa.BasicBlock]bool {
	var loop map[*ssa.BasicBlock]bool
	for _, t := range h.Preds {
		if !h.Dominates(t) {
			continue
		}
		if loop == nil {
			loop = map[*ssa.BasicBlock]bool{h: true}
		}
		work := []*ssa.BasicBlock{t}
		for len(work) > 0 {
			x := work[len(work)-1]
			work = work[:len(work)-1]
			if loop[x] {
				continue
			}
			loop[x] = true
			work = append(work, x.Preds...)
		}
	}
	return loop
}

// exprShape renders an expression with its free identifiers (not field selectors, not builtins) replaced by $1, $2, ...
func exprShape(x ast.Expr, info *types.Info) string {
	str := types.ExprString(x)
	// a named constant stands for its value (Layers[transportLayerIdx] is Layers[1])
	consts := map[string]string{}
	if info != nil {
		ast.Inspect(x, func(n ast.Node) bool {
			if id, ok := n.(*ast.Ident); ok {
				if cst, ok := info.Uses[id].(*types.Const); ok && cst.Val() != nil && cst.Pkg() != nil {
					consts[id.Name] = cst.Val().ExactString()
				}
			}
			return true
		})
	}
	sel := map[*ast.Ident]bool{}
	ast.Inspect(x, func(n ast.Node) bool {
		if se, ok := n.(*ast.SelectorExpr); ok {
			sel[se.Sel] = true
		}
		return true
	})
	var names []string
	seen := map[string]bool{}
	ast.Inspect(x, func(n ast.Node) bool {
		if id, ok := n.(*ast.Ident); ok && !sel[id] && !seen[id.Name] && types.Universe.Lookup(id.Name) == nil {
			seen[id.Name] = true
			names = append(names, id.Name)
		}
		return true
	})
	k := 0
	for _, n := range names {
		re := regexp.MustCompile(`(^|[^.\w$])` + regexp.QuoteMeta(n) + `\b`)
		if v, ok := consts[n]; ok {
			str = re.ReplaceAllString(str, "${1}"+v)
			continue
		}
		k++
		str = re.ReplaceAllString(str, "${1}$$"+strconv.Itoa(k))
	}
	return str
}

// ---- a small upper-bound prover for the sites the compiler leaves unproven ----

// lenBoundedFields: slice fields whose length is int(MaxTTL)+1 by construction (decided by C19 R19.2 / C03 R03.2): an index
// that a dominating comparison bounds by MaxTTL is in range.
var lenBoundedFields = map[string]bool{}

// discoverLenBoundedFields finds them by role: a struct field that is assigned make([]T, int(x.MaxTTL)+1).
func discoverLenBoundedFields(c *Ctx) {
	for _, f := range c.P.ModFuncs {
		for _, b := range f.Blocks {
			for _, in := range b.Instrs {
				st, ok := in.(*ssa.Store)
				if !ok {
					continue
				}
				fa, ok := st.Addr.(*ssa.FieldAddr)
				if !ok {
					continue
				}
				val := st.Val
				// a helper that makes the table (makeSendTimes(lastTTL)): its only return is the make, its parameter is what this
				// call passes
				var viaCall *ssa.Call
				if call, isCall := val.(*ssa.Call); isCall {
					if g := call.Common().StaticCallee(); g != nil && core.InModule(g) && !call.Common().IsInvoke() && len(g.Blocks) == 1 {
						if ret, isRet := g.Blocks[0].Instrs[len(g.Blocks[0].Instrs)-1].(*ssa.Return); isRet && len(ret.Results) == 1 {
							val = ret.Results[0]
							viaCall = call
						}
					}
				}
				mk, ok := val.(*ssa.MakeSlice)
				if !ok {
					continue
				}
				bo, ok := mk.Len.(*ssa.BinOp)
				if !ok || bo.Op != token.ADD {
					continue
				}
				cst, ok := bo.Y.(*ssa.Const)
				if !ok || cst.Value == nil || cst.Int64() != 1 {
					continue
				}
				x := stripWiden(bo.X)
				if viaCall != nil {
					pa, isParam := x.(*ssa.Parameter)
					if !isParam {
						continue
					}
					g := viaCall.Common().StaticCallee()
					found := false
					for k, q := range g.Params {
						if q == pa && k < len(viaCall.Common().Args) {
							x = stripWiden(c.P.Def(viaCall.Common().Args[k]))
							found = true
						}
					}
					if !found {
						continue
					}
				}
				// a constructor of a table type receives MaxTTL as a parameter: what its callers pass
				if pa, isParam := x.(*ssa.Parameter); isParam {
					x = stripWiden(c.P.DefX(pa))
				}
				isMax := false
				switch y := x.(type) {
				case *ssa.UnOp:
					if fa2, ok := y.X.(*ssa.FieldAddr); ok && core.FieldName(fa2) == "MaxTTL" {
						isMax = true
					}
				case *ssa.Field:
					if stt, ok := y.X.Type().Underlying().(*types.Struct); ok && stt.Field(y.Field).Name() == "MaxTTL" {
						isMax = true
					}
				}
				if isMax {
					lenBoundedFields[strings.TrimPrefix(fieldKeyOf(fa), core.ModulePath+"/")] = true
				}
			}
		}
	}
}

// domFacts: branch conditions whose outcome is fixed at block b (the branch's taken successor dominates b).
func domFacts(b *ssa.BasicBlock) (conds []ssa.Value, truth []bool) {
	for d := b.Idom(); d != nil; d = d.Idom() {
		iff, ok := d.Instrs[len(d.Instrs)-1].(*ssa.If)
		if !ok || d.Succs[0] == d.Succs[1] {
			continue
		}
		t := d.Succs[0].Dominates(b) && len(d.Succs[0].Preds) == 1
		f := d.Succs[1].Dominates(b) && len(d.Succs[1].Preds) == 1
		if t == f {
			continue
		}
		conds = append(conds, iff.Cond)
		truth = append(truth, t)
	}
	// a loop header's own condition governs its body
	return
}

func stripWiden(v ssa.Value) ssa.Value {
	for {
		cv, ok := v.(*ssa.Convert)
		if !ok {
			return v
		}
		tb, _ := core.IntBits(cv.Type())
		sb, _ := core.IntBits(cv.X.Type())
		if tb == 0 || sb == 0 || tb < sb {
			return v
		}
		v = cv.X
	}
}

func linearOf(v ssa.Value) (ssa.Value, int64) {
	if bo, ok := v.(*ssa.BinOp); ok && bo.Op == token.ADD {
		if cst, ok := bo.Y.(*ssa.Const); ok && cst.Value != nil {
			return bo.X, cst.Int64()
		}
	}
	return v, 0
}

func sameSlice(a, b ssa.Value) bool {
	if a == b {
		return true
	}
	la, ok1 := a.(*ssa.UnOp)
	lb, ok2 := b.(*ssa.UnOp)
	if ok1 && ok2 {
		fa, ok3 := la.X.(*ssa.FieldAddr)
		fb, ok4 := lb.X.(*ssa.FieldAddr)
		if ok3 && ok4 && fa.X == fb.X && fa.Field == fb.Field {
			return true
		}
		if la.X == lb.X {
			return true
		}
	}
	return false
}

// leFact: does (cond == truth) establish  x + c <= len(S)  for the given x and slice S? Returns the largest such c.
func leLenFact(cond ssa.Value, truth bool, x ssa.Value, S ssa.Value) (int64, bool) {
	bo, ok := cond.(*ssa.BinOp)
	if !ok {
		return 0, false
	}
	L, Rr := bo.X, bo.Y
	op := bo.Op
	// normalise to L (<=|<) R being true
	if !truth {
		switch op {
		case token.LEQ: // !(L <= R)  =>  R < L
			L, Rr, op = Rr, L, token.LSS
		case token.LSS:
			L, Rr, op = Rr, L, token.LEQ
		case token.GEQ: // !(L >= R) => L < R
			op = token.LSS
		case token.GTR:
			op = token.LEQ
		default:
			return 0, false
		}
	} else {
		switch op {
		case token.GEQ:
			L, Rr, op = Rr, L, token.LEQ
		case token.GTR:
			L, Rr, op = Rr, L, token.LSS
		case token.LEQ, token.LSS:
		default:
			return 0, false
		}
	}
	// len(S), possibly converted to an unsigned type: such a conversion of a non-negative value never yields more than the value
	rv := stripWiden(Rr)
	if cv, isConv := rv.(*ssa.Convert); isConv {
		if bt, isBasic := cv.Type().Underlying().(*types.Basic); isBasic && bt.Info()&types.IsUnsigned != 0 {
			if inner, isCall := cv.X.(*ssa.Call); isCall {
				if bi, isB := inner.Common().Value.(*ssa.Builtin); isB && bi.Name() == "len" {
					rv = inner
				}
			}
		}
	}
	call, ok := rv.(*ssa.Call)
	if !ok {
		return 0, false
	}
	if bi, ok := call.Common().Value.(*ssa.Builtin); !ok || bi.Name() != "len" || !sameSlice(call.Common().Args[0], S) {
		return 0, false
	}
	lb, lc := linearOf(stripWiden(L))
	if stripWiden(lb) != stripWiden(x) {
		return 0, false
	}
	if op == token.LSS {
		lc++
	}
	return lc, true
}

// constLenFact: does (cond == truth) establish K <= len(S) for a constant K? Returns K.
func constLenFact(cond ssa.Value, truth bool, S ssa.Value) (int64, bool) {
	bo, ok := cond.(*ssa.BinOp)
	if !ok {
		return 0, false
	}
	isLen := func(v ssa.Value) bool {
		call, ok := stripWiden(v).(*ssa.Call)
		if !ok {
			return false
		}
		bi, ok := call.Common().Value.(*ssa.Builtin)
		return ok && bi.Name() == "len" && sameSlice(call.Common().Args[0], S)
	}
	cst := func(v ssa.Value) (int64, bool) {
		if k, ok := v.(*ssa.Const); ok && k.Value != nil {
			return k.Int64(), true
		}
		return 0, false
	}
	op := bo.Op
	if !truth {
		switch op {
		case token.LSS:
			op = token.GEQ
		case token.LEQ:
			op = token.GTR
		case token.GEQ:
			op = token.LSS
		case token.GTR:
			op = token.LEQ
		case token.EQL:
			op = token.NEQ
		case token.NEQ:
			op = token.EQL
		}
	}
	if isLen(bo.X) {
		if k, ok := cst(bo.Y); ok {
			switch op {
			case token.GEQ:
				return k, true
			case token.GTR:
				return k + 1, true
			case token.EQL:
				return k, true
			}
		}
	}
	if isLen(bo.Y) {
		if k, ok := cst(bo.X); ok {
			switch op {
			case token.LEQ:
				return k, true
			case token.LSS:
				return k + 1, true
			case token.EQL:
				return k, true
			}
		}
	}
	return 0, false
}

// minLenAt: the largest constant K for which len(S) >= K is established at instruction `at` – by a dominating comparison, or,
// when S is a parameter, at every call site of the function inside the module.
func minLenAt(c *Ctx, S ssa.Value, at ssa.Instruction, depth int) int64 {
	var best int64
	conds, truth := domFacts(at.Block())
	for i, cd := range conds {
		if k, ok := constLenFact(cd, truth[i], S); ok && k > best {
			best = k
		}
	}
	if pa, ok := S.(*ssa.Parameter); ok && depth < 3 {
		g := pa.Parent()
		idx := -1
		for k, q := range g.Params {
			if q == pa {
				idx = k
			}
		}
		n := c.P.CallGraph().Nodes[g]
		if n == nil || idx < 0 {
			return best
		}
		sites := 0
		var least int64 = -1
		for _, in := range n.In {
			if in.Caller.Func == nil || !core.InModule(in.Caller.Func) {
				continue
			}
			cc := in.Site.Common()
			off := len(g.Params) - len(cc.Args)
			if cc.IsInvoke() || off < 0 || idx-off < 0 || idx-off >= len(cc.Args) {
				return best
			}
			sites++
			k := minLenAt(c, cc.Args[idx-off], in.Site, depth+1)
			if least < 0 || k < least {
				least = k
			}
		}
		if sites > 0 && least > best {
			best = least
		}
	}
	return best
}

// maxConstArg: the largest constant any call site inside the module passes for parameter pa; ok is false when some call site
// passes a non-constant (or the function is called through an interface / as a value).
func maxConstArg(c *Ctx, pa *ssa.Parameter) (int64, bool) {
	g := pa.Parent()
	idx := -1
	for k, q := range g.Params {
		if q == pa {
			idx = k
		}
	}
	n := c.P.CallGraph().Nodes[g]
	if n == nil || idx < 0 {
		return 0, false
	}
	var mx int64 = -1
	sites := 0
	for _, in := range n.In {
		if in.Caller.Func == nil || !core.InModule(in.Caller.Func) {
			continue
		}
		cc := in.Site.Common()
		off := len(g.Params) - len(cc.Args)
		if cc.IsInvoke() || off < 0 || idx-off < 0 || idx-off >= len(cc.Args) {
			return 0, false
		}
		k, ok := cc.Args[idx-off].(*ssa.Const)
		if !ok || k.Value == nil {
			return 0, false
		}
		sites++
		if k.Int64() > mx {
			mx = k.Int64()
		}
	}
	return mx, sites > 0
}

func proveUpperBound(c *Ctx, f *ssa.Function, lbr token.Pos) (bool, string) {
	if f == nil || lbr == token.NoPos {
		return false, ""
	}
	for _, b := range f.Blocks {
		for _, in := range b.Instrs {
			if in.Pos() != lbr {
				continue
			}
			conds, truth := domFacts(b)
			switch x := in.(type) {
			case *ssa.IndexAddr:
				idx := stripWiden(x.Index)
				// (0) a constant index below an established minimum length
				if k, ok := idx.(*ssa.Const); ok && k.Value != nil && k.Int64() >= 0 && k.Int64() < minLenAt(c, x.X, in, 0) {
					return true, "constant index below the minimum length established by a dominating comparison (here or at every call site)"
				}
				// (0b) the index is a parameter that every call site in the module fills with a constant below the established minimum length
				if pa, ok := idx.(*ssa.Parameter); ok {
					if mx, okc := maxConstArg(c, pa); okc && mx >= 0 && mx < minLenAt(c, x.X, in, 0) {
						return true, "the index is a parameter every caller fills with a constant below the minimum length established by a dominating comparison"
					}
				}
				// (1) idx = slices.IndexFunc(S, ...) on the same slice, behind "found"
				if call, ok := idx.(*ssa.Call); ok && strings.HasPrefix(core.CalleeName(call.Common()), "slices.Index") && len(call.Common().Args) > 0 && sameSlice(call.Common().Args[0], x.X) {
					for i, cd := range conds {
						if bo, ok := cd.(*ssa.BinOp); ok && stripWiden(bo.X) == ssa.Value(call) {
							if cst, ok := bo.Y.(*ssa.Const); ok && cst.Value != nil {
								k := cst.Int64()
								found := (bo.Op == token.LSS && k == 0 && !truth[i]) || (bo.Op == token.GEQ && k == 0 && truth[i]) || (bo.Op == token.EQL && k == -1 && !truth[i]) || (bo.Op == token.NEQ && k == -1 && truth[i]) || (bo.Op == token.GTR && k == -1 && truth[i])
								if found {
									return true, "the index is the result of " + core.CalleeName(call.Common()) + " on the same slice, used behind the 'found' test"
								}
							}
						}
					}
				}
				// (2) a slice field of length MaxTTL+1 indexed by a value a dominating comparison bounds by MaxTTL
				if ld, ok := x.X.(*ssa.UnOp); ok {
					if fa, ok := ld.X.(*ssa.FieldAddr); ok {
						key := strings.TrimPrefix(fieldKeyOf(fa), core.ModulePath+"/")
						if lenBoundedFields[key] {
							if ok, why := boundedByMaxTTL(c, in, idx, 0); ok {
								return true, "len(" + key + ") = MaxTTL+1 by construction and " + why
							}
						}
					}
				}
				// (3) i + c < len(S) from a dominating condition
				ib, ic := linearOf(idx)
				for i, cd := range conds {
					if k, ok := leLenFact(cd, truth[i], ib, x.X); ok && ic+1 <= k {
						return true, "a dominating condition establishes index+1 <= len of the same slice"
					}
				}
			case *ssa.Slice:
				// (R) buf[:n] with n the count a Read on that very buffer returned: 0 <= n <= len(buf) is the Read contract
				// (io.Reader; the module's Source implementations are decided by R09.1c)
				if ex, ok := x.High.(*ssa.Extract); ok && x.Low == nil && ex.Index == 0 {
					if call, ok := ex.Tuple.(*ssa.Call); ok {
						cc := call.Common()
						isRead := cc.IsInvoke() && cc.Method.Name() == "Read" && len(cc.Args) == 1 && sameSlice(cc.Args[0], x.X)
						if cal := cc.StaticCallee(); cal != nil && cal.Name() == "Read" && len(cc.Args) == 2 && sameSlice(cc.Args[1], x.X) {
							isRead = true
						}
						if isRead {
							return true, "the bound is the count returned by Read on that very buffer (Read contract: 0 <= n <= len(buf))"
						}
					}
				}
				// (0) constant bounds below an established minimum length
				{
					top := x.High
					if top == nil {
						top = x.Low
					}
					if k, ok := top.(*ssa.Const); ok && top != nil && k.Value != nil && k.Int64() >= 0 && k.Int64() <= minLenAt(c, x.X, in, 0) {
						return true, "constant slice bound within the minimum length established by a dominating comparison (here or at every call site)"
					}
				}
				if x.High == nil {
					// s[lo:]: lo <= len(s)
					if x.Low == nil {
						return true, "full slice"
					}
					lb, lc := linearOf(stripWiden(x.Low))
					for i, cd := range conds {
						if k, ok := leLenFact(cd, truth[i], lb, x.X); ok && lc <= k {
							return true, "a dominating condition establishes low <= len of the same slice"
						}
					}
					return false, ""
				}
				hb, hc := linearOf(stripWiden(x.High))
				for i, cd := range conds {
					if k, ok := leLenFact(cd, truth[i], hb, x.X); ok && hc <= k {
						return true, "a dominating condition establishes high <= len of the same slice (lower bounds are not examined)"
					}
				}
			}
		}
	}
	return false, ""
}

// boundedByMaxTTL: v (or, when v is a parameter, the argument at every call site in the module) is compared against a MaxTTL
// field on a dominating branch that excludes v > MaxTTL.
func boundedByMaxTTL(c *Ctx, at ssa.Instruction, v ssa.Value, depth int) (bool, string) {
	if depth > 3 {
		return false, ""
	}
	v = stripWiden(v)
	isMaxTTL := func(y ssa.Value) bool {
		y = stripWiden(y)
		if ld, ok := y.(*ssa.UnOp); ok {
			if fa, ok := ld.X.(*ssa.FieldAddr); ok && core.FieldName(fa) == "MaxTTL" {
				return true
			}
		}
		if fv, ok := y.(*ssa.Field); ok {
			if st, ok := fv.X.Type().Underlying().(*types.Struct); ok && st.Field(fv.Field).Name() == "MaxTTL" {
				return true
			}
		}
		return false
	}
	conds, truth := domFacts(at.Block())
	for i, cd := range conds {
		// a predicate helper of the module (isProbedTTL(v)) on its true edge: every path on which it answers true bounds v
		if call, ok := cd.(*ssa.Call); ok && truth[i] {
			if g := call.Common().StaticCallee(); g != nil && core.InModule(g) && !call.Common().IsInvoke() {
				for j, a := range call.Common().Args {
					if stripWiden(a) == v && j < len(g.Params) && predicateBoundsByMaxTTL(c, g, j) {
						return true, "the index is bounded by MaxTTL by the predicate " + core.FuncName(g) + " on a dominating branch of " + core.FuncName(at.Parent())
					}
				}
			}
		}
		bo, ok := cd.(*ssa.BinOp)
		if !ok {
			continue
		}
		// through short-circuit "a || b": the false edge of either disjunct's test dominates
		if stripWiden(bo.X) == v && isMaxTTL(bo.Y) {
			if (bo.Op == token.GTR && !truth[i]) || (bo.Op == token.LEQ && truth[i]) {
				return true, "the index is bounded by MaxTTL on a dominating branch of " + core.FuncName(at.Parent())
			}
		}
		if stripWiden(bo.Y) == v && isMaxTTL(bo.X) {
			if (bo.Op == token.LSS && !truth[i]) || (bo.Op == token.GEQ && truth[i]) {
				return true, "the index is bounded by MaxTTL on a dominating branch of " + core.FuncName(at.Parent())
			}
		}
	}
	if pa, ok := v.(*ssa.Parameter); ok {
		g := pa.Parent()
		idx := -1
		for k, q := range g.Params {
			if q == pa {
				idx = k
			}
		}
		n := c.P.CallGraph().Nodes[g]
		if n == nil || idx < 0 {
			return false, ""
		}
		sites := 0
		for _, in := range n.In {
			if in.Caller.Func == nil || !core.InModule(in.Caller.Func) || strings.HasSuffix(in.Caller.Func.Name(), "$bound") {
				continue
			}
			cc := in.Site.Common()
			off := len(g.Params) - len(cc.Args)
			if cc.IsInvoke() || off < 0 || idx-off < 0 || idx-off >= len(cc.Args) {
				return false, ""
			}
			sites++
			if ok, _ := boundedByMaxTTL(c, in.Site, cc.Args[idx-off], depth+1); !ok {
				return false, ""
			}
		}
		if sites > 0 {
			return true, "every caller bounds the index by MaxTTL before the call"
		}
	}
	return false, ""
}

// predicateBoundsByMaxTTL: on every path on which the boolean module function g does not answer false, its parameter #j is
// compared against a MaxTTL field in a way that excludes param > MaxTTL.
func predicateBoundsByMaxTTL(c *Ctx, g *ssa.Function, j int) bool {
	if g.Signature.Results().Len() != 1 || len(g.Blocks) == 0 {
		return false
	}
	if bt, ok := g.Signature.Results().At(0).Type().Underlying().(*types.Basic); !ok || bt.Kind() != types.Bool {
		return false
	}
	rps, ok := core.ReturnPaths(c.P, g, 500)
	if !ok {
		return false
	}
	pname := g.Params[j].Name()
	isP := func(t *core.Term) bool { t = t.StripConv(); return t.Op == "param" && t.Name == pname }
	isMax := func(t *core.Term) bool { t = t.StripConv(); return t.Op == "field" && t.Name == "MaxTTL" }
	isBound := func(t *core.Term, sign bool) bool {
		if t.Op != "binop" || len(t.Args) != 2 {
			return false
		}
		l, r := t.Args[0], t.Args[1]
		switch {
		case isP(l) && isMax(r):
			return t.Name == "<=" && sign || t.Name == ">" && !sign
		case isMax(l) && isP(r):
			return t.Name == ">=" && sign || t.Name == "<" && !sign
		}
		return false
	}
	n := 0
	for _, rp := range rps {
		r := rp.Results[0]
		if r.IsConst("false") {
			continue
		}
		n++
		okp := isBound(r, true)
		if r.Op == "not" && len(r.Args) == 1 && isBound(r.Args[0], false) {
			okp = true
		}
		for _, a := range rp.Atoms {
			nn := a.Norm()
			if isBound(nn.Cond, nn.Sign) {
				okp = true
			}
		}
		if !okp {
			return false
		}
	}
	return n > 0
}

// checkFixedWidthReads is R09.3(e): binary.BigEndian/LittleEndian.UintNN(b) panics when len(b) < NN/8, and after inlining the
// compiler reports that check inside encoding/binary where it cannot be attributed to a call site. Every such read reachable
// from the inbound roots must therefore be given a slice whose length is established: a slice expression of constant width
// >= the read's width (s[a:a+k], s[:k]), or a slice s / s[lo:] with a dominating condition lo + width <= len(s).
func checkFixedWidthReads(c *Ctx, roots []*ssa.Function) {
	R := c.R
	n := 0
	for _, f := range ModReach(c.P, roots...) {
		fn := core.FuncName(f)
		for _, b := range f.Blocks {
			for _, in := range b.Instrs {
				call, ok := in.(*ssa.Call)
				if !ok {
					continue
				}
				name := core.CalleeName(call.Common())
				w := int64(0)
				switch {
				case strings.HasSuffix(name, "ndian).Uint16"):
					w = 2
				case strings.HasSuffix(name, "ndian).Uint32"):
					w = 4
				case strings.HasSuffix(name, "ndian).Uint64"):
					w = 8
				}
				if w == 0 || !strings.Contains(name, "binary.") {
					continue
				}
				n++
				arg := call.Common().Args[len(call.Common().Args)-1]
				ok2, why := lengthAtLeast(arg, w, b)
				R.Check(ok2, "R09.3", fmt.Sprintf("%s#fixed-width-read[%d]", fn, n), call.Pos(), fn, "fixed-width read of a slice of established length ("+why+")", fmt.Sprintf("%s reads %d bytes from a slice whose length is not established (no constant-width slice expression, no dominating length test): a short packet panics inside encoding/binary", name, w))
			}
		}
	}
	R.Floor("R09.3:fixed-width-reads", n, 3)
}

func lengthAtLeast(v ssa.Value, w int64, at *ssa.BasicBlock) (bool, string) {
	conds, truth := domFacts(at)
	fact := func(x ssa.Value, S ssa.Value, need int64) bool {
		xb, xc := linearOf(stripWiden(x))
		for i, cd := range conds {
			if k, ok := leLenFact(cd, truth[i], xb, S); ok && xc+need <= k {
				return true
			}
		}
		return false
	}
	if sl, ok := v.(*ssa.Slice); ok {
		constOf := func(x ssa.Value) (int64, bool) {
			if x == nil {
				return 0, true
			}
			if cst, ok := x.(*ssa.Const); ok && cst.Value != nil {
				return cst.Int64(), true
			}
			return 0, false
		}
		if sl.High != nil {
			lo, lok := constOf(sl.Low)
			hi, hok := constOf(sl.High)
			if lok && hok && hi-lo >= w {
				return true, "constant-width slice expression"
			}
			lb, lc := linearOf(stripWiden(sl.High))
			if sl.Low != nil {
				ob, oc := linearOf(stripWiden(sl.Low))
				if stripWiden(lb) == stripWiden(ob) && lc-oc >= w {
					return true, "slice expression of constant width"
				}
			}
			return false, ""
		}
		// s[lo:]
		if sl.Low == nil {
			return lengthAtLeast(sl.X, w, at)
		}
		if fact(sl.Low, sl.X, w) {
			return true, "open-ended slice behind a dominating low+width <= len test"
		}
		return false, ""
	}
	// the whole slice behind a length test: width <= len(s)  (e.g. if len(s) < 4 { return })
	for i, cd := range conds {
		bo, ok := cd.(*ssa.BinOp)
		if !ok {
			continue
		}
		call, ok := stripWiden(bo.X).(*ssa.Call)
		if !ok {
			continue
		}
		if bi, ok := call.Common().Value.(*ssa.Builtin); !ok || bi.Name() != "len" || !sameSlice(call.Common().Args[0], v) {
			continue
		}
		cst, ok := bo.Y.(*ssa.Const)
		if !ok || cst.Value == nil {
			continue
		}
		k := cst.Int64()
		if (bo.Op == token.LSS && !truth[i] && k >= w) || (bo.Op == token.GEQ && truth[i] && k >= w) || (bo.Op == token.GTR && truth[i] && k+1 >= w) || (bo.Op == token.LEQ && !truth[i] && k+1 >= w) {
			return true, "behind a dominating len test"
		}
	}
	return false, ""
}
