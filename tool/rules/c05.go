package rules

import (
	"fmt"
	"go/types"
	"os"
	"strings"

	"golang.org/x/tools/go/ssa"

	"verif/tool/internal/core"
)

func init() {
	register("C05", "Decides the pairing and ordering clauses of RTT fidelity: (R05.1) on every accept path the reported RTT is time.Since of a send time that comes out of the SAME sent-probe lookup (same SSA call value / same key) that yields the reported TTL, and RTT accessors compute time.Since of the entry they looked up by their own key parameter; (R05.2) in every SendProbe the probe-table write (which carries time.Now) dominates Sink.WriteTo, so a reply can never find a missing or later-stamped entry; (R05.4) ToHops copies RTT, address, IsDest of the same probe into the hop at that probe's index and runE2eProbeOnce returns the destination hop's RTT. 'Within one poll interval', non-negativity and the numeric value are timing facts and are not decided. R05.1 also requires the clock read that ends the RTT to come after the capture read on the accept path (event order of the inlined path). R05.4 is decided on the inlined paths of ToHops to the store / append of a hop (constructors of any module package opened; an appended slice must start empty). (R05.2) The send time keeps its monotonic reading (no Round / Truncate / UTC / Local / In before it is stored); (R05.4) the hop address is probe.IP.AsSlice(); hops are judged at the end of the loop trip that put them into the result.", runC05)
	darwinRules["C05"] = runC05
}

func runC05(c *Ctx) {
	R := c.R
	forEachMatcher(c, "R05", func(m *matcherCtx) {
		d := m.d
		for si, s := range m.sites {
			if s.Ret == nil {
				continue
			}
			for _, pi := range s.Paths {
				cls := classify(pi)
				key := siteKey(c.P, d, s, si, cls)
				fn := core.FuncName(s.Fn)
				pos := s.Alloc.Pos()
				pstr := pi.Desc
				ttl, rtt := pi.Fields["TTL"], pi.Fields["RTT"]
				lks := findLookups(c.P, d, pi.Atoms)
				ok, detail := false, ""
				for _, l := range lks {
					lk := l.Call.Key()
					switch {
					case rtt.Op == "call" && rtt.Name == "time.Since" && strings.Contains(rtt.Args[0].Key(), lk) && strings.Contains(ttl.Key(), lk):
						ok, detail = true, "RTT = time.Since(<"+l.Call.Name+">.sendTime) and TTL from the same lookup value"
					case rtt.Op == "call" && rtt.Name == "(time.Time).Sub" && len(rtt.Args) == 2 && rtt.Args[0].Op == "call" && rtt.Args[0].Name == "time.Now" && strings.Contains(rtt.Args[1].Key(), lk) && strings.Contains(ttl.Key(), lk):
						ok, detail = true, "RTT = time.Now().Sub(<"+l.Call.Name+">.sendTime) and TTL from the same lookup value"
					case strings.Contains(rtt.Key(), lk) && rtt.Op == "extract" && rtt.Name == "0":
						// accessor form: RTT = accessor(key)#0, TTL = conv(key)
						for _, ka := range l.Call.Args[1:] {
							if ttl.StripConv().Key() == ka.StripConv().Key() {
								if accessorSince(c, l.Call) {
									ok, detail = true, "RTT = "+l.Call.Name+"(key)#0 with TTL = key; accessor returns time.Since(table[key])"
								} else {
									detail = "accessor " + l.Call.Name + " does not return time.Since of the entry keyed by its parameter"
								}
							}
						}
					}
				}
				if ok {
					R.OK("R05.1", key, pos, fn, detail)
					// the clock that ends the RTT is read after the capture read returned, on this very path
					var clock ssa.Value
					rtt.Walk(func(x *core.Term) bool {
						if x.Op == "call" && (x.Name == "time.Since" || x.Name == "time.Now") && x.Val != nil {
							clock = x.Val
						}
						return true
					})
					ci, ri := -1, -1
					for i, ev := range pi.Events {
						if ev.Kind != "call" {
							continue
						}
						if v, isV := ev.Instr.(ssa.Value); isV && clock != nil && v == clock {
							ci = i
						}
						if call, isCall := ev.Instr.(*ssa.Call); isCall && isCaptureRead(call.Common()) {
							ri = i
						}
					}
					switch {
					case clock == nil || ci < 0 || ri < 0:
						// accessor form (the clock is read inside the accessor, which runs after the read by construction) or no read on the path
						if clock != nil && ri >= 0 && ci < 0 {
							R.FailPath("R05.1", key+"/clock", pos, fn, "the clock read that ends the RTT is not on the accept path: undecided", pstr)
						}
					case ci < ri:
						R.FailPath("R05.1", key+"/clock", pos, fn, "the clock that ends the RTT is read BEFORE the capture read ("+c.P.PosStr(pi.Events[ci].Instr.Pos())+" precedes "+c.P.PosStr(pi.Events[ri].Instr.Pos())+"): the RTT ends when the poll started, not when the reply arrived, and is negative for a probe sent during the poll", pstr)
					default:
						R.OK("R05.1", key+"/clock", pos, fn, "RTT clock is read after the capture read")
					}
				} else {
					if detail == "" {
						detail = "RTT (" + rtt.String() + ") and TTL (" + ttl.String() + ") do not come from the same sent-probe lookup"
					}
					R.FailPath("R05.1", key, pos, fn, detail, pstr)
				}
			}
		}
		checkSendOrder(c, d)
	})
	checkToHops(c)
	runR043(c)
	checkReceiveLoopDoesNotWait(c)
}

// checkReceiveLoopDoesNotWait is R05.3: RTT is time.Since(send) taken when the reply is READ, so anything that
// delays the reader between two reads (a sleep, a channel wait) inflates every queued reply's RTT by that much.
func checkReceiveLoopDoesNotWait(c *Ctx) {
	R := c.R
	n := 0
	for _, e := range Engines(c.P) {
		for _, r := range e.RecvSites {
			g := r.Parent()
			loop := innermostLoop(g, r.Block())
			if loop == nil {
				R.Fail("R05.3", e.Name+"#receive-loop", r.Pos(), core.FuncName(g), "ReceiveProbe is not called from a loop")
				continue
			}
			n++
			bad := ""
			for b := range loop {
				for _, in := range b.Instrs {
					switch x := in.(type) {
					case *ssa.Call:
						if cal := x.Common().StaticCallee(); cal != nil && (cal.String() == "time.Sleep" || cal.String() == "(*time.Timer).Reset") {
							bad = cal.String() + " at " + c.P.PosStr(x.Pos())
						}
					case *ssa.UnOp:
						if x.Op.String() == "<-" {
							bad = "channel receive at " + c.P.PosStr(x.Pos())
						}
					case *ssa.Select:
						if x.Blocking {
							bad = "blocking select at " + c.P.PosStr(x.Pos())
						}
					}
				}
			}
			R.Check(bad == "", "R05.3", e.Name+"#receive-loop-no-wait", r.Pos(), core.FuncName(g), "the receive loop goes straight back to ReceiveProbe (no sleep or channel wait between reads)", "the receive loop waits between reads ("+bad+"): replies already queued are read late and their RTT, measured at read time, is inflated by more than one poll interval")
		}
	}
	R.Floor("R05.3:receive-loops", n, 2)
}

// accessorSince: every success return of the accessor is time.Since(X) with X
// read from receiver state indexed/looked up by the key parameter.
func accessorSince(c *Ctx, call *core.Term) bool {
	var f *ssa.Function
	for _, mf := range c.P.ModFuncs {
		if shortName(mf) == call.Name {
			f = mf
		}
	}
	if f == nil || len(f.Params) < 2 {
		return false
	}
	rps, complete := core.ReturnPaths(c.P, f, 2000)
	if !complete {
		return false
	}
	n := 0
	for _, rp := range rps {
		if !rp.Results[len(rp.Results)-1].IsConst("nil") {
			continue
		}
		n++
		r0 := rp.Results[0]
		if r0.Op != "call" || r0.Name != "time.Since" {
			return false
		}
		x := r0.Args[0]
		keyed := x.Has(func(t *core.Term) bool { return t.Op == "param" && t.Name == f.Params[1].Name() })
		fromRecv := x.Has(func(t *core.Term) bool { return t.Op == "recv" })
		if !keyed || !fromRecv {
			return false
		}
	}
	return n > 0
}

// sharedFields: storage written under SendProbe and read (or written) under ReceiveProbe, keyed "pkg.Type.field" by owner type,
// so a table kept in a struct of its own (or behind a pointer) is the same object as one kept in the driver.
func sharedFields(p *core.Prog, d Driver) map[string]bool {
	pkg := core.FuncPkg(d.ReceiveProbe)
	_, w := typedFieldsTouched(p, pkg, d.SendProbe)
	r, w2 := typedFieldsTouched(p, pkg, d.ReceiveProbe)
	out := map[string]bool{}
	for f := range w {
		if r[f] || w2[f] {
			out[f] = true
		}
	}
	return out
}

func writesShared(p *core.Prog, f *ssa.Function, shared map[string]bool) bool {
	_, w := typedFieldsTouched(p, core.FuncPkg(f), f)
	for k := range w {
		if shared[k] {
			return true
		}
	}
	return false
}

// addrTypedKeys: the typed keys of every field on the address chain of v (x.a.b[i] → keys of a and b).
func addrTypedKeys(v ssa.Value) []string {
	var out []string
	for i := 0; i < 8; i++ {
		switch x := v.(type) {
		case *ssa.FieldAddr:
			if k, _ := typedFieldKey(x); k != "" {
				out = append(out, k)
			}
			v = x.X
		case *ssa.IndexAddr:
			v = x.X
		case *ssa.UnOp:
			v = x.X
		default:
			return out
		}
	}
	return out
}

func anyKey(keys []string, set map[string]bool) bool {
	for _, k := range keys {
		if set[k] {
			return true
		}
	}
	return false
}

// isCaptureRead: a call that takes the capture source (packets.Source) and is not a deadline setter / close: the read.
func isCaptureRead(cc *ssa.CallCommon) bool {
	isSrc := func(t types.Type) bool { return isNamed(t, core.ModulePath+"/packets", "Source") }
	if cc.IsInvoke() {
		return isSrc(cc.Value.Type()) && cc.Method.Name() == "Read"
	}
	f := cc.StaticCallee()
	if f == nil || !core.InModule(f) {
		return false
	}
	for _, a := range cc.Args {
		if isSrc(a.Type()) {
			return true
		}
	}
	return false
}

func isSinkWrite(c *ssa.CallCommon) bool {
	return c.IsInvoke() && c.Method.Name() == "WriteTo" && isNamed(c.Value.Type(), core.ModulePath+"/packets", "Sink")
}

func isTimeNow(c *ssa.CallCommon) bool {
	f := c.StaticCallee()
	return f != nil && f.Pkg != nil && f.Pkg.Pkg.Path() == "time" && f.Name() == "Now"
}

// checkSendOrder is R05.2.
func checkSendOrder(c *Ctx, d Driver) { checkSendOrderAs(c, d, "R05.2", true) }

// checkSendOrderAs: the ordering clause alone (stamps=false) is also the necessary condition of completeness (R02.6): a reply that
// arrives before its probe is recorded is rejected as foreign and its hop is lost.
func checkSendOrderAs(c *Ctx, d Driver, rule string, stamps bool) {
	R := c.R
	f := d.SendProbe
	fn := core.FuncName(f)
	shared := sharedFields(c.P, d)
	var writes []ssa.Instruction // Sink.WriteTo calls
	var tables []ssa.Instruction // probe-table writes
	var nows []ssa.Instruction
	for _, b := range f.Blocks {
		for _, in := range b.Instrs {
			switch x := in.(type) {
			case ssa.CallInstruction:
				cc := x.Common()
				if isSinkWrite(cc) {
					writes = append(writes, in)
				}
				if isTimeNow(cc) {
					nows = append(nows, in)
				}
				if callee := cc.StaticCallee(); callee != nil && core.InModule(callee) && callee != f && writesShared(c.P, callee, shared) {
					tables = append(tables, in)
				}
			case *ssa.Store:
				if anyKey(addrTypedKeys(x.Addr), shared) {
					tables = append(tables, in)
				}
			case *ssa.MapUpdate:
				if anyKey(addrTypedKeys(x.Map), shared) {
					tables = append(tables, in)
				}
			}
		}
	}
	R.Floor(rule+":wire-writes:"+d.Name, len(writes), 1)
	for i, w := range writes {
		key := fmt.Sprintf("%s#WriteTo[%d]", fn, i)
		dom := false
		for _, t := range tables {
			if core.InstrDominates(t, w) {
				dom = true
			}
		}
		R.Check(dom, rule, key, w.Pos(), fn, "probe-table write dominates Sink.WriteTo", "no write of the sent-probe table dominates Sink.WriteTo: a reply can arrive before its probe is recorded")
		if !stamps {
			continue
		}
		// the time stamp
		okNow := false
		for _, n := range nows {
			if core.InstrDominates(n, w) {
				okNow = true
			}
		}
		if !okNow {
			// time.Now inside the table-writing callee
			for _, t := range tables {
				if ci, ok := t.(ssa.CallInstruction); ok && core.InstrDominates(t, w) {
					for _, g := range ModReach(c.P, ci.Common().StaticCallee()) {
						for _, b := range g.Blocks {
							for _, in := range b.Instrs {
								if cc, ok := in.(ssa.CallInstruction); ok && isTimeNow(cc.Common()) {
									okNow = true
								}
							}
						}
					}
				}
			}
		}
		R.Check(okNow, "R05.2", key+"/timestamp", w.Pos(), fn, "time.Now() is taken before Sink.WriteTo", "send time is not taken before the wire write")
	}
	if !stamps {
		return
	}
	// the stamp keeps its monotonic reading: time.Since subtracts on the monotonic clock only when the stored value still carries
	// it. Round, Truncate, UTC, Local and In strip it, and the RTT becomes a wall-clock difference that a clock step (NTP, VM
	// resume) during the flight makes negative or hours long
	for _, g := range ModReach(c.P, d.SendProbe) {
		if core.FuncPkg(g) != core.FuncPkg(d.SendProbe) {
			continue
		}
		for _, b := range g.Blocks {
			for _, in := range b.Instrs {
				call, ok := in.(*ssa.Call)
				if !ok || call.Common().StaticCallee() == nil || len(call.Common().Args) == 0 {
					continue
				}
				switch call.Common().StaticCallee().String() {
				case "(time.Time).Round", "(time.Time).Truncate", "(time.Time).UTC", "(time.Time).Local", "(time.Time).In":
				default:
					continue
				}
				if src, ok := c.P.Def(call.Common().Args[0]).(*ssa.Call); ok && isTimeNow(src.Common()) {
					R.Fail("R05.2", core.FuncName(g)+"#stamp-monotonic", call.Pos(), core.FuncName(g), "the send time is passed through "+call.Common().StaticCallee().String()+", which strips the monotonic clock reading: time.Since on it is a wall-clock difference, so a step of the system clock while the probe is in flight yields a negative or hugely inflated RTT")
				}
			}
		}
	}
	// no time.Now after the write that feeds the table
	for _, n := range nows {
		for _, w := range writes {
			if core.InstrDominates(w, n) {
				R.Fail("R05.2", fn+"#late-timestamp", n.Pos(), fn, "a time.Now() call follows Sink.WriteTo in SendProbe")
			}
		}
	}
}

// addrRootFields is addrRoot with only field names.
func addrRootFields(v ssa.Value) (ssa.Value, []string) {
	var path []string
	for {
		switch x := v.(type) {
		case *ssa.FieldAddr:
			st := x.X.Type().Underlying().(*types.Pointer).Elem().Underlying().(*types.Struct)
			path = append([]string{st.Field(x.Field).Name()}, path...)
			v = x.X
		case *ssa.IndexAddr:
			v = x.X
		case *ssa.UnOp:
			// slice header loaded from a field: s.sendTimes[i]
			if _, ok := x.Type().Underlying().(*types.Slice); ok {
				v = x.X
				continue
			}
			return v, path
		default:
			return v, path
		}
	}
}

// allocFields: the values of the fields of a freshly allocated struct on an inlined path (the last store into each field).
func allocFields(events []Event, al *ssa.Alloc) map[string]*core.Term {
	out := map[string]*core.Term{}
	for _, ev := range events {
		if ev.Kind != "store" {
			continue
		}
		if st, ok := ev.Instr.(*ssa.Store); ok {
			if fa, ok := st.Addr.(*ssa.FieldAddr); ok && fa.X == ssa.Value(al) {
				out[core.FieldName(fa)] = ev.Val
				continue
			}
		}
		// a store through another name of the same object (the result of an inner constructor, a parameter): the address term,
		// lifted into the root's vocabulary, is a field of that very allocation
		if ev.Addr != nil && ev.Addr.Op == "field" && len(ev.Addr.Args) == 1 && ev.Addr.Args[0].Op == "alloc" && ev.Addr.Args[0].Val == ssa.Value(al) {
			out[ev.Addr.Name] = ev.Val
		}
	}
	return out
}

func isHopPtr(t types.Type) bool {
	pt, ok := t.Underlying().(*types.Pointer)
	return ok && isNamed(pt.Elem(), core.ModulePath+"/result", "TracerouteHop")
}

// checkToHops is R05.4 (also used by C03). It reads the inlined success paths of ToHops (constructors and per-hop helpers of any
// module package opened): on a path that runs the loop body once, exactly one hop is put into the result – stored at index i or
// appended to a slice that starts empty – and its fields are judged against the probe at that same index.
func checkToHops(c *Ctx) {
	R := c.R
	f := c.P.Func("common.ToHops")
	if f == nil {
		R.Fail("R05.4", "common.ToHops#anchor", 0, "", "anchor common.ToHops no longer resolves")
		return
	}
	fn := core.FuncName(f)
	zero := func(t *core.Term) bool {
		return t == nil || t.Op == "zero" || t.IsConst("0") || t.IsConst("nil") || t.IsConst("false")
	}
	kinds := map[string]bool{}
	n := 0
	// the blocks of ToHops in which a hop is put into the result (directly, or after a helper produced it)
	var targets []*ssa.BasicBlock
	for _, b := range f.Blocks {
		hit := false
		for _, in := range b.Instrs {
			st, ok := in.(*ssa.Store)
			if !ok {
				continue
			}
			if ia, ok := st.Addr.(*ssa.IndexAddr); ok && isHopPtr(ia.Type().Underlying().(*types.Pointer).Elem()) {
				hit = true
			}
			if call, ok := st.Val.(*ssa.Call); ok && isHopSlice(st.Val.Type()) {
				if bi, ok := call.Common().Value.(*ssa.Builtin); ok && bi.Name() == "append" {
					hit = true
				}
			}
		}
		for _, in := range b.Instrs {
			if call, ok := in.(*ssa.Call); ok && isHopSlice(call.Type()) {
				if bi, ok := call.Common().Value.(*ssa.Builtin); ok && bi.Name() == "append" {
					hit = true
				}
			}
		}
		if hit {
			targets = append(targets, b)
		}
	}
	// the hop is judged at the END of the loop trip that put it into the result: a hop may be stored first and filled in through
	// its pointer afterwards, so the paths run on to the latches of the loop (the blocks that jump back to its header)
	endOfTrip := map[*ssa.BasicBlock]bool{}
	for _, tb := range targets {
		loop := innermostLoop(f, tb)
		var header *ssa.BasicBlock
		for h := range loop {
			all := true
			for x := range loop {
				if !h.Dominates(x) {
					all = false
				}
			}
			if all {
				header = h
			}
		}
		found := false
		if header != nil {
			// latches reachable from the store block inside the loop
			seen := map[*ssa.BasicBlock]bool{}
			var walk func(x *ssa.BasicBlock)
			walk = func(x *ssa.BasicBlock) {
				if seen[x] || !loop[x] {
					return
				}
				seen[x] = true
				for _, sc := range x.Succs {
					if sc == header {
						endOfTrip[x] = true
						found = true
						continue
					}
					walk(sc)
				}
			}
			walk(tb)
		}
		if !found {
			endOfTrip[tb] = true
		}
	}
	var ends []*ssa.BasicBlock
	for _, b := range f.Blocks {
		if endOfTrip[b] {
			ends = append(ends, b)
		}
	}
	var ips []IPath
	for _, tb := range ends {
		ips = append(ips, InlinedPathsTo(c.P, f, tb, inlineOpts{pkg: core.FuncPkg(f), openAll: true, stop: hasLoop, maxDepth: 4})...)
	}
	for _, ip := range ips {
		if os.Getenv("TRCHECK_DEBUG") != "" {
			fmt.Println("PATH", ip.Desc)
			for _, e := range ip.Events {
				fmt.Printf("   ! %s %s %s elems=%v val=%v addr=%v\n", e.Kind, e.Target, e.Callee, e.Elems, e.Val, e.Addr)
			}
		}
		type hopEv struct {
			ev  Event
			al  *ssa.Alloc
			idx *core.Term // nil for append
		}
		var hevs []hopEv
		undec := ""
		for _, ev := range ip.Events {
			switch ev.Kind {
			case "append":
				if len(ev.Elems) == 1 && ev.Elems[0] != nil && ev.Elems[0].Typ != nil && isHopPtr(ev.Elems[0].Typ) || len(ev.Elems) == 1 && ev.Elems[0].Op == "alloc" {
					if al, ok := ev.Elems[0].Val.(*ssa.Alloc); ok && isHopPtr(al.Type()) {
						hevs = append(hevs, hopEv{ev: ev, al: al})
					} else if v, ok := ev.Instr.(ssa.Value); ok && isHopSlice(v.Type()) {
						undec = "an appended hop is " + ev.Elems[0].String() + ", not a fresh literal or constructor result"
					}
				}
			case "store":
				st, ok := ev.Instr.(*ssa.Store)
				if !ok {
					continue
				}
				if ia, ok := st.Addr.(*ssa.IndexAddr); ok && isHopPtr(ia.Type().Underlying().(*types.Pointer).Elem()) {
					if al, ok := ev.Val.Val.(*ssa.Alloc); ok && ev.Val.Op == "alloc" && isHopPtr(al.Type()) {
						idx := ev.Addr
						hevs = append(hevs, hopEv{ev: ev, al: al, idx: idx})
					} else {
						undec = "a stored hop is " + ev.Val.String() + ", not a fresh literal or constructor result"
					}
				}
			}
		}
		if undec != "" {
			R.FailPath("R05.4", fmt.Sprintf("%s#hop[?]", fn), f.Pos(), fn, undec+": undecided", ip.Desc)
			continue
		}
		if len(hevs) == 0 {
			continue // the loop body is not on this path
		}
		if len(hevs) > 1 {
			R.FailPath("R05.4", fn+"#one-hop-per-probe", hevs[1].ev.Instr.Pos(), fn, "one pass through the loop body puts more than one hop into the result", ip.Desc)
			continue
		}
		h := hevs[0]
		fields := allocFields(ip.Events, h.al)
		ttl, rtt, ipf, isd := fields["TTL"], fields["RTT"], fields["IPAddress"], fields["IsDest"]
		kind := "answered"
		if zero(rtt) {
			kind = "empty"
		}
		kinds[kind] = true
		key := fmt.Sprintf("%s#hop[%s]", fn, kind)
		pos := h.ev.Instr.Pos()
		n++
		if ttl == nil {
			R.FailPath("R05.4", key+"/ttl", pos, fn, "the hop's TTL is never assigned", ip.Desc)
			continue
		}
		// TTL = int(MinTTL) + i
		var i *core.Term
		okTTL := ttl.Op == "binop" && ttl.Name == "+" && strings.Contains(ttl.Args[0].String(), ".MinTTL")
		if okTTL {
			i = ttl.Args[1]
		}
		if h.idx != nil {
			if h.idx.Op != "index" {
				R.FailPath("R05.4", key, pos, fn, "hop is stored at "+h.idx.String()+", not into a slice element", ip.Desc)
				continue
			}
			okTTL = okTTL && h.idx.Args[1].Key() == i.Key()
			R.Check(okTTL, "R05.4", key+"/ttl", pos, fn, "hop.TTL = int(MinTTL)+i at index i", "hop.TTL = "+ttl.String()+" is not int(MinTTL)+i for the slot index "+h.idx.String())
		} else {
			// appended: position = number of earlier iterations, provided the slice starts empty and every iteration appends once
			okTTL = okTTL && i.Has(func(x *core.Term) bool { return x.Op == "loopphi" })
			okEmpty := true
			for _, b := range f.Blocks {
				for _, in := range b.Instrs {
					if mk, ok := in.(*ssa.MakeSlice); ok && isHopSlice(mk.Type()) {
						if k, ok := mk.Len.(*ssa.Const); !ok || k.Value == nil || k.Int64() != 0 {
							okEmpty = false
						}
					}
				}
			}
			R.Check(okTTL && okEmpty, "R05.4", key+"/ttl", pos, fn, "hop.TTL = int(MinTTL)+i, appended in iteration i to a slice that starts empty", fmt.Sprintf("hop.TTL = %s is not int(MinTTL)+(loop index), or the appended slice does not start empty (starts empty=%v): the hop's position and its TTL disagree", ttl, okEmpty))
		}
		if i == nil {
			continue
		}
		if kind == "empty" {
			R.Check(zero(ipf) && zero(isd), "R05.4", key+"/empty", pos, fn, "empty hop carries only its TTL", fmt.Sprintf("empty hop carries data: ip=%v isDest=%v", ipf, isd))
			continue
		}
		var probe *core.Term
		rtt.Walk(func(x *core.Term) bool {
			if x.Op == "field" && x.Name == "RTT" {
				probe = x.Args[0]
				return false
			}
			return true
		})
		okP := probe != nil && probe.Op == "index" && probe.Args[1].Key() == i.Key()
		R.Check(okP, "R05.4", key+"/rtt", pos, fn, "hop.RTT derives from probes[i].RTT of the same index", "hop.RTT = "+rtt.String()+" does not derive from the probe at the slot's own index")
		if probe != nil {
			sameIP := ipf != nil && ipf.Has(func(x *core.Term) bool { return x.Op == "field" && x.Name == "IP" && x.Args[0].Key() == probe.Key() })
			sameD := isd != nil && isd.Op == "field" && isd.Name == "IsDest" && isd.Args[0].Key() == probe.Key()
			R.Check(sameIP && sameD, "R05.4", key+"/same-probe", pos, fn, "address, RTT and IsDest all come from the same probe", fmt.Sprintf("address/IsDest come from a different value than RTT: ip=%v isDest=%v", ipf, isd))
			// the address bytes are the address itself: AsSlice gives 4 or 16 bytes; MarshalBinary appends the zone, MarshalText /
			// String give text - a value that is marked reachable but is not an address and does not serialise
			if sameIP {
				conv := ipf.StripConv()
				okBytes := conv.Op == "call" && (conv.Name == "(netip.Addr).AsSlice" || conv.Name == "(netip.Addr).As4" || conv.Name == "(netip.Addr).As16") || conv.Op == "slice" && strings.Contains(conv.String(), "(netip.Addr).As")
				R.Check(okBytes, "R05.4", key+"/address-bytes", pos, fn, "hop address = probe.IP.AsSlice()", "the hop's address is built as "+ipf.String()+", not with AsSlice of the probe's address: other conversions (MarshalBinary with its zone suffix, text forms) yield bytes that are not an address, so the hop is marked reachable without one and the document fails to serialise")
			}
			okMs := rtt.Op == "binop" && rtt.Name == "*" && strings.Contains(rtt.String(), ".Seconds(") && rtt.Args[1].IsConst("1000")
			R.Check(okMs, "R05.4", key+"/ms", pos, fn, "RTT converted with Seconds()*1000", "RTT conversion is "+rtt.String())
		}
	}
	R.Floor("R05.4:hop-literals", len(kinds), 2)
	_ = n
}

func isHopSlice(t types.Type) bool {
	sl, ok := t.Underlying().(*types.Slice)
	return ok && isHopPtr(sl.Elem())
}

// hopFieldTerms evaluates the fields of a *result.TracerouteHop value at instruction `at`: a literal of the current function, or
// the result of a straight-line constructor (one block) that returns a literal or another constructor's result, possibly after
// assigning further fields; the constructor's parameters are replaced by the call's arguments.
func hopFieldTerms(c *Ctx, env *core.Env, v ssa.Value, at ssa.Instruction, depth int) (map[string]*core.Term, bool) {
	if depth > 3 {
		return nil, false
	}
	names := []string{"TTL", "RTT", "IPAddress", "IsDest"}
	typs := map[string]types.Type{"TTL": types.Typ[types.Int], "RTT": types.Typ[types.Float64], "IPAddress": types.Typ[types.Invalid], "IsDest": types.Typ[types.Bool]}
	out := map[string]*core.Term{}
	switch x := v.(type) {
	case *ssa.Alloc:
		if !isNamed(x.Type(), core.ModulePath+"/result", "TracerouteHop") {
			return nil, false
		}
		for _, nme := range names {
			out[nme] = env.LoadField(x, nme, at, typs[nme])
		}
		return out, true
	case *ssa.Call:
		k := x.Common().StaticCallee()
		if k == nil || !core.InModule(k) || len(k.Blocks) == 0 || len(k.Blocks) > 2 || (len(k.Blocks) == 2 && k.Blocks[1].Comment != "recover") {
			return nil, false
		}
		blk := k.Blocks[0]
		ret, ok := blk.Instrs[len(blk.Instrs)-1].(*ssa.Return)
		if !ok || len(ret.Results) != 1 {
			return nil, false
		}
		kenv := core.NewEnv(c.P, core.NewPath(k, k.Blocks[:1]))
		base, ok := hopFieldTerms(c, kenv, ret.Results[0], ret, depth+1)
		if !ok {
			return nil, false
		}
		// fields assigned on the constructor's own result after an inner constructor returned it
		if _, isCall := ret.Results[0].(*ssa.Call); isCall {
			for _, in := range blk.Instrs {
				if st, ok := in.(*ssa.Store); ok {
					if fa, ok := st.Addr.(*ssa.FieldAddr); ok && fa.X == ret.Results[0] {
						base[core.FieldName(fa)] = kenv.Term(st.Val)
					}
				}
			}
		}
		args := x.Common().Args
		for nme, t := range base {
			out[nme] = t.Subst(func(z *core.Term) *core.Term {
				if z.Op == "param" {
					for i, pa := range k.Params {
						if pa.Name() == z.Name && i < len(args) {
							return env.Term(args[i])
						}
					}
				}
				return nil
			})
		}
		return out, true
	}
	return nil, false
}
