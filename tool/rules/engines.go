package rules

import (
	"go/types"

	"golang.org/x/tools/go/ssa"

	"verif/tool/internal/core"
)

// Engine describes one traceroute engine (a module function that calls TracerouteDriver.SendProbe).
type Engine struct {
	Fn        *ssa.Function
	Name      string
	Results   *ssa.MakeSlice   // the []*ProbeResponse slot table
	SendSites []ssa.Instruction // invoke SendProbe (in Fn or its closures)
	RecvSites []*ssa.Call       // invoke ReceiveProbe
	Stores    []*ssa.Store      // stores into elements of Results
	Update    *ssa.Function    // closure that holds the store, when not the receiver itself
}

func isDriverInvoke(c *ssa.CallCommon, method string) bool {
	return c.IsInvoke() && c.Method.Name() == method && isNamed(c.Value.Type(), core.ModulePath+"/common", "TracerouteDriver")
}

func withClosures(f *ssa.Function) []*ssa.Function {
	out := []*ssa.Function{f}
	for _, a := range f.AnonFuncs {
		out = append(out, withClosures(a)...)
	}
	return out
}

// Engines resolves the engines structurally: who calls TracerouteDriver.SendProbe.
func Engines(p *core.Prog) []*Engine {
	var out []*Engine
	for _, f := range p.ModFuncs {
		if f.Parent() != nil || f.Synthetic != "" {
			continue
		}
		e := &Engine{Fn: f, Name: core.FuncName(f)}
		for _, g := range withClosures(f) {
			for _, b := range g.Blocks {
				for _, in := range b.Instrs {
					switch x := in.(type) {
					case *ssa.Call:
						if isDriverInvoke(x.Common(), "SendProbe") {
							e.SendSites = append(e.SendSites, in)
						}
						if isDriverInvoke(x.Common(), "ReceiveProbe") {
							e.RecvSites = append(e.RecvSites, x)
						}
					case *ssa.MakeSlice:
						if sl, ok := x.Type().Underlying().(*types.Slice); ok && g == f && isNamed(sl.Elem(), core.ModulePath+"/common", "ProbeResponse") {
							e.Results = x
						}
					}
				}
			}
		}
		if len(e.SendSites) == 0 {
			continue
		}
		if e.Results != nil {
			for _, g := range withClosures(f) {
				for _, b := range g.Blocks {
					for _, in := range b.Instrs {
						st, ok := in.(*ssa.Store)
						if !ok {
							continue
						}
						ia, ok := st.Addr.(*ssa.IndexAddr)
						if !ok {
							continue
						}
						if p.Def(ia.X) == ssa.Value(e.Results) {
							e.Stores = append(e.Stores, st)
							if g != f {
								e.Update = g
							}
						}
					}
				}
			}
		}
		out = append(out, e)
	}
	return out
}

// reachAvoiding reports whether `to` is reachable from the start of block `from`
// without entering any block in `cut` and without traversing a cut edge.
func reachAvoiding(from *ssa.BasicBlock, to *ssa.BasicBlock, cutBlocks map[*ssa.BasicBlock]bool, cutEdges map[[2]*ssa.BasicBlock]bool) bool {
	seen := map[*ssa.BasicBlock]bool{}
	work := []*ssa.BasicBlock{from}
	for len(work) > 0 {
		b := work[len(work)-1]
		work = work[:len(work)-1]
		if seen[b] || cutBlocks[b] {
			continue
		}
		seen[b] = true
		if b == to {
			return true
		}
		for _, s := range b.Succs {
			if cutEdges[[2]*ssa.BasicBlock{b, s}] {
				continue
			}
			work = append(work, s)
		}
	}
	return false
}

// condCall returns the call whose (possibly compared-with-nil) result an If tests,
// and which successor index is the "call returned true / non-nil" edge.
func condCall(iff *ssa.If) (call *ssa.Call, trueIdx int) {
	v := iff.Cond
	trueIdx = 0
	for {
		switch x := v.(type) {
		case *ssa.UnOp:
			if x.Op.String() == "!" {
				trueIdx = 1 - trueIdx
				v = x.X
				continue
			}
			return nil, 0
		case *ssa.BinOp:
			c, isC := x.Y.(*ssa.Const)
			if !isC || c.Value != nil {
				return nil, 0
			}
			switch x.Op.String() {
			case "!=":
			case "==":
				trueIdx = 1 - trueIdx
			default:
				return nil, 0
			}
			v = x.X
			continue
		case *ssa.Call:
			return x, trueIdx
		case *ssa.Extract:
			if c, ok := x.Tuple.(*ssa.Call); ok {
				return c, trueIdx
			}
			return nil, 0
		default:
			return nil, 0
		}
	}
}

func calleeIs(c *ssa.Call, name string) bool {
	f := c.Common().StaticCallee()
	return f != nil && (core.FuncName(f) == name || shortName(f) == name)
}
