package rules

import (
	"go/types"
	"strings"

	"golang.org/x/tools/go/ssa"

	"verif/tool/internal/core"
)

// Engine describes one traceroute engine: a root function of the package that defines TracerouteDriver from which an invoke of
// TracerouteDriver.SendProbe is reached, together with its Scope – the root, its closures and every function of the same package
// it reaches (helpers it was split into: a sender / receiver function, a slot-table type with constructor and methods, ...).
type Engine struct {
	Fn        *ssa.Function
	Name      string
	Scope     []*ssa.Function
	Results   *ssa.MakeSlice    // the []*ProbeResponse slot table
	SendSites []ssa.Instruction // invoke SendProbe (anywhere in Scope)
	RecvSites []*ssa.Call       // invoke ReceiveProbe
	Stores    []*ssa.Store      // stores into elements of the slot table
	Update    *ssa.Function     // function that holds the store, when not the root itself
	Parallel  bool              // some function of the scope spawns goroutines: sender and receiver run concurrently
	// TableFields: (struct type, field) pairs the slot table is kept in when it lives in a struct ("T.field")
	TableFields map[string]bool
}

func (e *Engine) inScope(f *ssa.Function) bool {
	for _, g := range e.Scope {
		if g == f {
			return true
		}
	}
	return false
}

func isDriverInvoke(c *ssa.CallCommon, method string) bool {
	return c.IsInvoke() && c.Method.Name() == method && isNamed(c.Value.Type(), core.ModulePath+"/common", "TracerouteDriver")
}

func withClosures(f *ssa.Function) []*ssa.Function {
	out := []*ssa.Function{f}
	for _, a := range f.AnonFuncs {
		out = append(out, withClosures(a)...)
	}
	return out
}

func hasDriverInvoke(f *ssa.Function, method string) bool {
	for _, b := range f.Blocks {
		for _, in := range b.Instrs {
			if ci, ok := in.(ssa.CallInstruction); ok && isDriverInvoke(ci.Common(), method) {
				return true
			}
		}
	}
	return false
}

func fieldKeyOf(fa *ssa.FieldAddr) string {
	pt, ok := fa.X.Type().Underlying().(*types.Pointer)
	if !ok {
		return ""
	}
	return pt.Elem().String() + "." + core.FieldName(fa)
}

// isTable: v denotes the engine's slot table (the make itself, or a load of the struct field it is kept in).
func (e *Engine) isTable(p *core.Prog, v ssa.Value) bool {
	if e.Results != nil && p.Def(v) == ssa.Value(e.Results) {
		return true
	}
	if ld, ok := v.(*ssa.UnOp); ok {
		if fa, ok := ld.X.(*ssa.FieldAddr); ok && e.TableFields[fieldKeyOf(fa)] {
			return true
		}
	}
	return false
}

// Engines resolves the engines structurally: who reaches TracerouteDriver.SendProbe inside the package that defines the interface.
func Engines(p *core.Prog) []*Engine {
	pkg := p.SSAPkgs["common"]
	if pkg == nil {
		return nil
	}
	inPkg := func(f *ssa.Function) bool { return core.FuncPkg(f) == pkg.Pkg && f.Synthetic == "" }
	scopeOf := func(f *ssa.Function) []*ssa.Function {
		var sc []*ssa.Function
		for _, g := range ModReach(p, f) {
			if inPkg(g) {
				sc = append(sc, g)
			}
		}
		return sc
	}
	// candidates: top-level functions of the package whose scope contains a SendProbe invoke
	var cands []*ssa.Function
	scopes := map[*ssa.Function][]*ssa.Function{}
	for _, f := range p.ModFuncs {
		if f.Parent() != nil || !inPkg(f) || strings.Contains(core.FuncName(f), "Mock") {
			continue
		}
		sc := scopeOf(f)
		for _, g := range sc {
			if hasDriverInvoke(g, "SendProbe") {
				cands = append(cands, f)
				scopes[f] = sc
				break
			}
		}
	}
	// roots: candidates that are not in the scope of another candidate
	var out []*Engine
	for _, f := range cands {
		root := true
		for _, h := range cands {
			if h == f {
				continue
			}
			for _, g := range scopes[h] {
				if g == f {
					root = false
				}
			}
		}
		if !root {
			continue
		}
		e := &Engine{Fn: f, Name: core.FuncName(f), Scope: scopes[f], TableFields: map[string]bool{}}
		for _, g := range e.Scope {
			for _, b := range g.Blocks {
				for _, in := range b.Instrs {
					switch x := in.(type) {
					case *ssa.Call:
						if isDriverInvoke(x.Common(), "SendProbe") {
							e.SendSites = append(e.SendSites, in)
						}
						if isDriverInvoke(x.Common(), "ReceiveProbe") {
							e.RecvSites = append(e.RecvSites, x)
						}
					case *ssa.MakeSlice:
						if sl, ok := x.Type().Underlying().(*types.Slice); ok && isNamed(sl.Elem(), core.ModulePath+"/common", "ProbeResponse") {
							e.Results = x
						}
					}
				}
			}
		}
		for _, g := range e.Scope {
			if len(spawnSites(g)) > 0 {
				e.Parallel = true
			}
		}
		if e.Results != nil {
			// kept in a struct field?
			for _, r := range *e.Results.Referrers() {
				if st, ok := r.(*ssa.Store); ok && st.Val == ssa.Value(e.Results) {
					if fa, ok := st.Addr.(*ssa.FieldAddr); ok {
						e.TableFields[fieldKeyOf(fa)] = true
					}
				}
			}
			for _, g := range e.Scope {
				for _, b := range g.Blocks {
					for _, in := range b.Instrs {
						st, ok := in.(*ssa.Store)
						if !ok {
							continue
						}
						ia, ok := st.Addr.(*ssa.IndexAddr)
						if !ok {
							continue
						}
						if e.isTable(p, ia.X) {
							e.Stores = append(e.Stores, st)
							if g != f {
								e.Update = g
							}
						}
					}
				}
			}
		}
		out = append(out, e)
	}
	return out
}

// reachAvoiding reports whether `to` is reachable from the start of block `from`
// without entering any block in `cut` and without traversing a cut edge.
func reachAvoiding(from *ssa.BasicBlock, to *ssa.BasicBlock, cutBlocks map[*ssa.BasicBlock]bool, cutEdges map[[2]*ssa.BasicBlock]bool) bool {
	seen := map[*ssa.BasicBlock]bool{}
	work := []*ssa.BasicBlock{from}
	for len(work) > 0 {
		b := work[len(work)-1]
		work = work[:len(work)-1]
		if seen[b] || cutBlocks[b] {
			continue
		}
		seen[b] = true
		if b == to {
			return true
		}
		for _, s := range b.Succs {
			if cutEdges[[2]*ssa.BasicBlock{b, s}] {
				continue
			}
			work = append(work, s)
		}
	}
	return false
}

// condCall returns the call whose (possibly compared-with-nil) result an If tests,
// and which successor index is the "call returned true / non-nil" edge.
func condCall(iff *ssa.If) (call *ssa.Call, trueIdx int) {
	v := iff.Cond
	trueIdx = 0
	for {
		switch x := v.(type) {
		case *ssa.UnOp:
			if x.Op.String() == "!" {
				trueIdx = 1 - trueIdx
				v = x.X
				continue
			}
			return nil, 0
		case *ssa.BinOp:
			c, isC := x.Y.(*ssa.Const)
			if !isC || c.Value != nil {
				return nil, 0
			}
			switch x.Op.String() {
			case "!=":
			case "==":
				trueIdx = 1 - trueIdx
			default:
				return nil, 0
			}
			v = x.X
			continue
		case *ssa.Call:
			return x, trueIdx
		case *ssa.Extract:
			if c, ok := x.Tuple.(*ssa.Call); ok {
				return c, trueIdx
			}
			return nil, 0
		default:
			return nil, 0
		}
	}
}

func calleeIs(c *ssa.Call, name string) bool {
	f := c.Common().StaticCallee()
	return f != nil && (core.FuncName(f) == name || shortName(f) == name)
}
