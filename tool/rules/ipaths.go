package rules

import (
	"fmt"
	"go/types"
	"strings"

	"golang.org/x/tools/go/ssa"

	"verif/tool/internal/core"
)

// Inlined paths: the return paths of a function with the helpers of its own package opened in place. A rule that reads
// (conditions, ordered effects, results) from an IPath sees the same thing whether a piece of logic is written inline, extracted
// into a function or method, or wrapped in a locked accessor – the shape-independence the third mutation round asked for.

// Event is one effect on a path, in program order, in the vocabulary of the outermost frame.
type Event struct {
	Kind   string       // "append" | "store" | "call"
	Target string       // append/store: classification of the destination (field name, or "[]error", or the object name)
	Field  string       // store: field name written
	Elems  []*core.Term // append: the appended elements
	Val    *core.Term   // store: the value
	Addr   *core.Term   // store: the address written (index / field term)
	Callee string       // call: callee name (static, invoke, or dyn)
	Args   []*core.Term // call: arguments (receiver first)
	Instr  ssa.Instruction
	Locked bool // a mutex of the frame chain is held (Lock seen, Unlock not yet, or deferred Unlock)
}

// IPath is one inlined path.
type IPath struct {
	Atoms   []core.Atom
	Results []*core.Term
	Events  []Event
	Desc    string
	Ret     *ssa.Return
	// Blocks: the basic blocks traversed – the root's own path first, then, as a contiguous run each, the path taken through
	// every opened helper (in call order)
	Blocks []*ssa.BasicBlock
	// Subs: what the opened calls returned on this path (the root's vocabulary): a term that an evaluation elsewhere left
	// as a call of a nested helper can be resolved with it
	Subs []valueSub
}

type inlineOpts struct {
	pkg      *types.Package // helpers of this package are opened
	depth    int
	stop     func(f *ssa.Function) bool // never open these (their call stays an event)
	maxDepth int                        // helpers are opened down to this nesting depth (default 3)
	// opaque: after looking at the helper's own inlined paths, keep its call opaque all the same
	opaque func(h *ssa.Function, inner []IPath) bool
	// openAll: helpers of every package of the module are opened, not only those of pkg
	openAll bool
}

func destKind(addr ssa.Value) string {
	switch a := addr.(type) {
	case *ssa.FieldAddr:
		return core.FieldName(a)
	case *ssa.Alloc:
		if pt, ok := a.Type().Underlying().(*types.Pointer); ok {
			if sl, ok := pt.Elem().Underlying().(*types.Slice); ok && isErrorType(sl.Elem()) {
				return "[]error"
			}
		}
		return core.VarName(a)
	case *ssa.FreeVar:
		if pt, ok := a.Type().Underlying().(*types.Pointer); ok {
			if sl, ok := pt.Elem().Underlying().(*types.Slice); ok && isErrorType(sl.Elem()) {
				return "[]error"
			}
		}
		return a.Name()
	case *ssa.IndexAddr:
		return destKind(a.X) + "[]"
	case *ssa.UnOp:
		return destKind(a.X)
	}
	return ""
}

func sliceElemIsError(addr ssa.Value) bool {
	if pt, ok := addr.Type().Underlying().(*types.Pointer); ok {
		if sl, ok := pt.Elem().Underlying().(*types.Slice); ok && isErrorType(sl.Elem()) {
			return true
		}
	}
	return false
}

// InlinedPaths enumerates the inlined paths of f.
func InlinedPaths(p *core.Prog, f *ssa.Function, o inlineOpts) []IPath {
	if o.pkg == nil {
		o.pkg = core.FuncPkg(f)
	}
	if o.maxDepth == 0 {
		o.maxDepth = 3
	}
	initNonNilGlobals(p)
	rps, _ := core.ReturnPaths(p, f, 5000)
	return inlinedOver(p, f, rps, o)
}

// InlinedPathsTo enumerates the inlined paths of f that end with block target (all of its instructions included): the view a rule
// needs of an effect inside a loop body, which no acyclic path to a return passes through.
func InlinedPathsTo(p *core.Prog, f *ssa.Function, target *ssa.BasicBlock, o inlineOpts) []IPath {
	if o.pkg == nil {
		o.pkg = core.FuncPkg(f)
	}
	if o.maxDepth == 0 {
		o.maxDepth = 3
	}
	initNonNilGlobals(p)
	paths, _ := core.EnumPaths(f, target, 5000)
	var rps []core.RetPath
	for _, pa := range paths {
		env := core.NewEnv(p, pa)
		atoms := env.Atoms()
		if !core.Feasible(atoms) {
			continue
		}
		rps = append(rps, core.RetPath{Path: pa, Env: env, Atoms: atoms})
	}
	return inlinedOver(p, f, rps, o)
}

func inlinedOver(p *core.Prog, f *ssa.Function, rps []core.RetPath, o inlineOpts) []IPath {
	var out []IPath
	for _, rp := range rps {
		if rp.Ret != nil && rp.Ret.Block().Comment == "recover" {
			continue
		}
		cur := []IPath{{Atoms: append([]core.Atom{}, rp.Atoms...), Desc: rp.Path.String(), Ret: rp.Ret, Blocks: append([]*ssa.BasicBlock{}, rp.Path.Blocks...)}}
		var subs [][]valueSub
		subs = append(subs, nil)
		locked := 0
		deferredUnlock := false
		for _, b := range rp.Path.Blocks {
			for _, in := range b.Instrs {
				switch x := in.(type) {
				case *ssa.Defer:
					if cal := x.Call.StaticCallee(); cal != nil && cal.Pkg != nil && cal.Pkg.Pkg.Path() == "sync" && (cal.Name() == "Unlock" || cal.Name() == "RUnlock") {
						deferredUnlock = true
					}
				case *ssa.MapUpdate:
					ev := Event{Kind: "mapupdate", Instr: in, Locked: locked > 0 || deferredUnlock && lockedEver(rp.Path, in)}
					ev.Target = destKind(x.Map)
					ev.Elems = []*core.Term{rp.Env.Term(x.Key)}
					ev.Val = rp.Env.Term(x.Value)
					for i := range cur {
						e2 := ev
						e2.Elems = applySubsAll(ev.Elems, subs[i])
						e2.Val = applySubs(ev.Val, subs[i])
						cur[i].Events = append(cur[i].Events, e2)
					}
				case *ssa.Store:
					ev := Event{Instr: in, Locked: locked > 0 || deferredUnlock && locked >= 0 && lockedEver(rp.Path, in)}
					if call, ok := x.Val.(*ssa.Call); ok {
						if bi, ok := call.Common().Value.(*ssa.Builtin); ok && bi.Name() == "append" {
							ev.Kind = "append"
							ev.Target = destKind(x.Addr)
							if sliceElemIsError(x.Addr) {
								ev.Target = "[]error"
							}
							if sl, ok := call.Common().Args[1].(*ssa.Slice); ok {
								if arr, ok := sl.X.(*ssa.Alloc); ok {
									for _, r := range *arr.Referrers() {
										if ia, ok := r.(*ssa.IndexAddr); ok {
											for _, r2 := range *ia.Referrers() {
												if s2, ok := r2.(*ssa.Store); ok && s2.Addr == ssa.Value(ia) {
													ev.Elems = append(ev.Elems, rp.Env.Term(s2.Val))
												}
											}
										}
									}
								}
							} else {
								ev.Elems = append(ev.Elems, rp.Env.Term(call.Common().Args[1]))
							}
						}
					}
					if ev.Kind == "" {
						if a, isAlloc := x.Addr.(*ssa.Alloc); isAlloc && !a.Heap {
							continue
						}
						if _, isIdx := x.Addr.(*ssa.IndexAddr); isIdx {
							if ia := x.Addr.(*ssa.IndexAddr); ia != nil {
								if al, ok := ia.X.(*ssa.Alloc); ok && strings.Contains(al.Comment, "varargs") {
									continue
								}
							}
						}
						ev.Kind = "store"
						ev.Addr = rp.Env.Term(x.Addr)
						ev.Target = destKind(x.Addr)
						if fa, ok := x.Addr.(*ssa.FieldAddr); ok {
							ev.Field = core.FieldName(fa)
						}
						ev.Val = rp.Env.Term(x.Val)
					}
					for i := range cur {
						e2 := ev
						e2.Elems = applySubsAll(ev.Elems, subs[i])
						e2.Val = applySubs(ev.Val, subs[i])
						e2.Addr = applySubs(ev.Addr, subs[i])
						cur[i].Events = append(cur[i].Events, e2)
					}
				case *ssa.Call:
					cc := x.Common()
					if cal := cc.StaticCallee(); cal != nil && cal.Pkg != nil && cal.Pkg.Pkg.Path() == "sync" {
						switch cal.Name() {
						case "Lock", "RLock":
							locked++
							continue
						case "Unlock", "RUnlock":
							locked--
							continue
						}
					}
					if bi, isB := cc.Value.(*ssa.Builtin); isB {
						// an append whose result stays in a register (a local slice that is never addressed): no store to hang the event on
						if bi.Name() == "append" && len(cc.Args) == 2 {
							stored := false
							for _, r := range *x.Referrers() {
								if st, ok := r.(*ssa.Store); ok && st.Val == ssa.Value(x) {
									stored = true
								}
							}
							if !stored {
								ev := Event{Kind: "append", Target: "local", Instr: in, Locked: locked > 0}
								if sl, ok := cc.Args[1].(*ssa.Slice); ok {
									if arr, ok := sl.X.(*ssa.Alloc); ok {
										for _, r := range *arr.Referrers() {
											if ia, ok := r.(*ssa.IndexAddr); ok {
												for _, r2 := range *ia.Referrers() {
													if s2, ok := r2.(*ssa.Store); ok && s2.Addr == ssa.Value(ia) {
														ev.Elems = append(ev.Elems, rp.Env.Term(s2.Val))
													}
												}
											}
										}
									}
								} else {
									ev.Elems = append(ev.Elems, rp.Env.Term(cc.Args[1]))
								}
								for i := range cur {
									e2 := ev
									e2.Elems = applySubsAll(ev.Elems, subs[i])
									cur[i].Events = append(cur[i].Events, e2)
								}
							}
						}
						continue
					}
					h := cc.StaticCallee()
					open := h != nil && len(h.Blocks) > 0 && (core.FuncPkg(h) == o.pkg || o.openAll && core.InModule(h)) && (h.Synthetic == "" || strings.HasPrefix(h.Synthetic, "instance of")) && o.depth < o.maxDepth && h != f && (o.stop == nil || !o.stop(h))
					if !open {
						ev := Event{Kind: "call", Callee: core.CalleeName(cc), Instr: in, Locked: locked > 0}
						if cc.IsInvoke() || ev.Callee == "dyn" {
							ev.Args = append(ev.Args, rp.Env.Term(cc.Value))
						}
						for _, a := range cc.Args {
							ev.Args = append(ev.Args, rp.Env.Term(a))
						}
						for i := range cur {
							e2 := ev
							e2.Args = applySubsAll(ev.Args, subs[i])
							cur[i].Events = append(cur[i].Events, e2)
						}
						continue
					}
					inner := InlinedPaths(p, h, inlineOpts{pkg: o.pkg, depth: o.depth + 1, stop: o.stop, maxDepth: o.maxDepth, opaque: o.opaque, openAll: o.openAll})
					if o.opaque != nil && o.opaque(h, inner) {
						ev := Event{Kind: "call", Callee: core.CalleeName(cc), Instr: in, Locked: locked > 0}
						for _, a := range cc.Args {
							ev.Args = append(ev.Args, rp.Env.Term(a))
						}
						for i := range cur {
							e2 := ev
							e2.Args = applySubsAll(ev.Args, subs[i])
							cur[i].Events = append(cur[i].Events, e2)
						}
						continue
					}
					var next []IPath
					var nextSubs [][]valueSub
					for i, cp := range cur {
						for _, ip := range inner {
							np := IPath{Desc: cp.Desc + "→" + core.FuncName(h) + ":" + ip.Desc, Ret: cp.Ret}
							np.Blocks = append(append([]*ssa.BasicBlock{}, cp.Blocks...), ip.Blocks...)
							np.Atoms = append(np.Atoms, cp.Atoms...)
							for _, a := range ip.Atoms {
								np.Atoms = append(np.Atoms, core.Atom{Cond: applySubs(liftWithEnv(rp.Env, a.Cond, x), subs[i]), Sign: a.Sign, Block: b})
							}
							if !feasibleX(np.Atoms) {
								continue
							}
							np.Events = append(np.Events, cp.Events...)
							for _, e := range ip.Events {
								e2 := e
								e2.Elems = nil
								for _, t := range e.Elems {
									e2.Elems = append(e2.Elems, applySubs(liftWithEnv(rp.Env, t, x), subs[i]))
								}
								e2.Args = nil
								for _, t := range e.Args {
									e2.Args = append(e2.Args, applySubs(liftWithEnv(rp.Env, t, x), subs[i]))
								}
								if e.Val != nil {
									e2.Val = applySubs(liftWithEnv(rp.Env, e.Val, x), subs[i])
								}
								if e.Addr != nil {
									e2.Addr = applySubs(liftWithEnv(rp.Env, e.Addr, x), subs[i])
								}
								e2.Locked = e.Locked || locked > 0
								np.Events = append(np.Events, e2)
							}
							ns := append([]valueSub{}, subs[i]...)
							for ri, r := range ip.Results {
								ns = append(ns, valueSub{x, fmt.Sprint(ri), applySubs(liftWithEnv(rp.Env, r, x), subs[i])})
							}
							// the nested helpers the callee opened: the caller's evaluator may have looked through the callee (a one-line
							// forwarder) and left a call of the nested helper in a term
							for _, is := range ip.Subs {
								repl := applySubs(liftWithEnv(rp.Env, is.repl, x), subs[i])
								dup := false
								for k := range ns {
									if ns[k].site == is.site && ns[k].idx == is.idx {
										dup = true
										if ns[k].repl.Key() != repl.Key() {
											ns[k].repl = &core.Term{Op: "unknown", Name: "ambiguous-nested-call"}
										}
									}
								}
								if !dup {
									ns = append(ns, valueSub{is.site, is.idx, repl})
								}
							}
							next = append(next, np)
							nextSubs = append(nextSubs, ns)
						}
					}
					if len(next) > 0 {
						cur, subs = next, nextSubs
					}
				}
			}
		}
		for i := range cur {
			// later conditions and the results may mention the opened calls' values
			for k := range cur[i].Atoms {
				cur[i].Atoms[k].Cond = applySubsCall(cur[i].Atoms[k].Cond, subs[i])
			}
			for _, r := range rp.Results {
				cur[i].Results = append(cur[i].Results, applySubsCall(r, subs[i]))
			}
			cur[i].Subs = subs[i]
			if feasibleX(cur[i].Atoms) {
				out = append(out, cur[i])
			}
		}
	}
	return out
}

func lockedEver(pa *core.Path, at ssa.Instruction) bool {
	for _, b := range pa.Blocks {
		for _, in := range b.Instrs {
			if in == at {
				return false
			}
			if call, ok := in.(*ssa.Call); ok {
				if cal := call.Common().StaticCallee(); cal != nil && cal.Pkg != nil && cal.Pkg.Pkg.Path() == "sync" && (cal.Name() == "Lock" || cal.Name() == "RLock") {
					return true
				}
			}
		}
	}
	return false
}

func applySubsAll(ts []*core.Term, subs []valueSub) []*core.Term {
	if len(subs) == 0 {
		return ts
	}
	out := make([]*core.Term, len(ts))
	for i, t := range ts {
		out[i] = applySubs(t, subs)
	}
	return out
}

// applySubsCall also replaces a single-result call term itself (result #0 of a one-result helper is the call term, not an extract).
func applySubsCall(t *core.Term, subs []valueSub) *core.Term {
	if len(subs) == 0 || t == nil {
		return t
	}
	t = applySubs(t, subs)
	return t.Subst(func(x *core.Term) *core.Term {
		if x.Op == "call" {
			for _, sb := range subs {
				if sb.idx == "0" && x.Val == ssa.Value(sb.site) {
					if cs := sb.site.Common().StaticCallee(); cs != nil && cs.Signature.Results().Len() == 1 {
						return sb.repl
					}
				}
			}
		}
		return nil
	})
}

// feasibleX is core.Feasible plus the nil-ness of freshly made errors: after a helper's return value has been substituted for
// the call, `fmt.Errorf(...) == nil` is false and `nil == nil` is true.
func feasibleX(atoms []core.Atom) bool {
	if !core.Feasible(atoms) {
		return false
	}
	for _, a := range atoms {
		n := a.Norm()
		t := n.Cond
		if t.IsConst("true") && !n.Sign || t.IsConst("false") && n.Sign {
			return false
		}
		if t.Op != "binop" || t.Name != "==" || len(t.Args) != 2 || !t.Args[1].IsConst("nil") {
			continue
		}
		x := t.Args[0]
		switch {
		case x.IsConst("nil"):
			if !n.Sign {
				return false
			}
		case x.Op == "call" && (x.Name == "fmt.Errorf" || x.Name == "errors.New" || x.Name == "errors.Join" && false):
			if n.Sign {
				return false
			}
		case x.Op == "alloc":
			if n.Sign {
				return false
			}
		case x.Op == "global" && nonNilGlobalNames[x.Name]:
			// a sentinel (`var ErrX = errors.New(..)`, never reassigned) is not nil
			if n.Sign {
				return false
			}
		}
	}
	return true
}

// nonNilGlobalNames: package-level variables of the module that are given a freshly made value (errors.New, fmt.Errorf, &T{})
// in their package initialiser and are stored nowhere else. Keyed as the term prints them ("pkg.Name").
var nonNilGlobalNames map[string]bool

func initNonNilGlobals(p *core.Prog) {
	if nonNilGlobalNames != nil {
		return
	}
	nonNilGlobalNames = map[string]bool{}
	stores := map[*ssa.Global]int{}
	fresh := map[*ssa.Global]bool{}
	scan := func(f *ssa.Function, isInit bool) {
		for _, b := range f.Blocks {
			for _, in := range b.Instrs {
				st, ok := in.(*ssa.Store)
				if !ok {
					continue
				}
				g, ok := st.Addr.(*ssa.Global)
				if !ok {
					continue
				}
				stores[g]++
				if !isInit {
					continue
				}
				v := st.Val
				if mi, ok := v.(*ssa.MakeInterface); ok {
					v = mi.X
				}
				switch x := v.(type) {
				case *ssa.Alloc:
					fresh[g] = true
				case *ssa.Call:
					if cal := x.Common().StaticCallee(); cal != nil && cal.Pkg != nil {
						n := cal.Pkg.Pkg.Path() + "." + cal.Name()
						if n == "errors.New" || n == "fmt.Errorf" {
							fresh[g] = true
						}
					}
				}
			}
		}
	}
	for _, sp := range p.SSAPkgs {
		if f := sp.Func("init"); f != nil {
			scan(f, true)
		}
	}
	for _, f := range p.ModFuncs {
		if f.Name() != "init" {
			scan(f, false)
		}
	}
	for g, ok := range fresh {
		if ok && stores[g] == 1 && g.Pkg != nil {
			nonNilGlobalNames[g.Pkg.Pkg.Name()+"."+g.Name()] = true
		}
	}
}
