package rules

import (
	"fmt"
	"go/types"
	"sort"
	"strings"

	"golang.org/x/tools/go/ssa"

	"verif/tool/internal/core"
)

func init() {
	register("C10", "Decides the failure-atomicity and handle-discipline clauses for every injection point at once (rules are per site, hence for every k): (R10.1) handle typestate by path enumeration over the four protocol entry points and the handle constructors: on every CFG path, with the deferred closes applied at the return and closer summaries of driver.Close() resolved through the constructor, each opened handle that does not escape through a successful return is closed exactly once and is not used after a non-deferred close; (R10.2) every return of a function that hands a path upwards carries a nil result whenever its error may be non-nil; (R10.3) on the run path every fmt.Errorf that is given an error formats it with %w, and every error returned under `E != nil` for an I/O-class E (open, filter install, send, read) still carries E's origin; (R10.4) every goroutine started on the run path is joined by a Wait on every path to a return; (R10.5) the error of each SetPacketFilter call is tested and returned wrapped. Decided on the linux and darwin builds (Windows cannot be type-checked here; its raw-socket double close is out of reach). That deferred closes run when the process is killed, and goroutine termination (C08), are not decided here. (R10.6b) On a path where the capture read's error is not known nil, what ReadAndParse returns carries that error. Closing helpers are summarised (a module function that closes a parameter on every path, or every element of a slice parameter in a loop without early exit); a driver's Close closes a field only if the close sits on every path to every return. (R10.7) In every engine function that polls ReceiveProbe no return is reachable from the poll without a branch on its error. The read helper's premises are shared with C09 R09.1: a read that returned no error and a count not established to be positive ends the call with a fatal error, never with success or a retryable (skipped) condition.", runC10)
	darwinRules["C10"] = runC10
}

// opener table: callee (FuncName or pkgpath.Name for libraries) → result indexes that are handles; projections for struct results.
type openerSpec struct {
	results []int    // tuple indexes holding a handle (-1: the single result)
	fields  []string // for struct-valued results: fields that are handles
	takes   int      // argument index whose handle is consumed on success (-1 none)
}

var openers = map[string]openerSpec{
	"packets.NewSourceSink":            {results: []int{0}, fields: []string{"Source", "Sink"}, takes: -1},
	"common.LocalAddrForHost":          {results: []int{1}, takes: -1},
	"tcp.reserveLocalPort":             {results: []int{1}, takes: -1},
	"sack.dialSackTCP":                 {results: []int{0}, takes: -1},
	"packets.NewSinkLinux":             {results: []int{0}, takes: -1},
	"packets.NewAFPacketSource":        {results: []int{0}, takes: -1},
	"packets.NewSinkDarwin":            {results: []int{0}, takes: -1},
	"packets.NewBpfDevice":             {results: []int{0}, takes: -1},
	"packets.pickBpfDevice":            {results: []int{0}, takes: -1},
	"unix.Socket":                      {results: []int{0}, takes: -1},
	"unix.Open":                        {results: []int{0}, takes: -1},
	"syscall.Socket":                   {results: []int{0}, takes: -1},
	"os.NewFile":                       {results: []int{-1}, takes: 0},
	"net.Dial":                         {results: []int{0}, takes: -1},
	"net.Listen":                       {results: []int{0}, takes: -1},
	"(*net.Dialer).DialContext":        {results: []int{0}, takes: -1},
	"(*net.ListenConfig).ListenPacket": {results: []int{0}, takes: -1},
	"ipv4.NewRawConn":                  {results: []int{0}, takes: 0},
}

// typestate entry functions (floors checked).
var typestateFuncs = []string{
	"icmp.runICMPTraceroute", "(*udp.UDPv4).Traceroute", "(*tcp.TCPv4).Traceroute", "sack.runSackTraceroute",
	"packets.NewSourceSink", "packets.NewSinkLinux", "packets.NewAFPacketSource", "sack.dialSackTCP",
	"packets.MakeRawConn", "tcp.reserveLocalPort", "common.LocalAddrForHost",
}

// leakExceptions: reviewed infeasible leak sites.
var leakExceptions = map[string]string{
	"common.LocalAddrForHost": "the !ok branch after a successful net.Dial(\"udp\") is infeasible: the local address of a UDP dial always is a *net.UDPAddr",
}

type resState struct {
	key      string
	desc     string
	opened   ssa.Instruction
	closes   int
	deferred int
	closedAt ssa.Instruction // first non-deferred close
	consumed bool            // ownership moved into another handle
	escaped  bool
}

func calleeKey(cc *ssa.CallCommon) string {
	f := cc.StaticCallee()
	if f == nil {
		return ""
	}
	if core.InModule(f) {
		return core.FuncName(f)
	}
	return shortName(f)
}

// closedParams: the parameters of module function h that h closes whatever happens: Close() is invoked on the parameter in a
// block that dominates every return, or – for a slice parameter – on the element of a range loop over the whole slice that can
// only be left through its header (every element is closed, none skipped by an early exit).
func closedParams(h *ssa.Function) map[int]bool {
	out := map[int]bool{}
	if h == nil || !core.InModule(h) || len(h.Blocks) == 0 {
		return out
	}
	var rets []*ssa.BasicBlock
	for _, b := range h.Blocks {
		if _, ok := b.Instrs[len(b.Instrs)-1].(*ssa.Return); ok && b.Comment != "recover" {
			rets = append(rets, b)
		}
	}
	for _, b := range h.Blocks {
		for _, in := range b.Instrs {
			ci, ok := in.(ssa.CallInstruction)
			if !ok {
				continue
			}
			cc := ci.Common()
			var recv ssa.Value
			if cc.IsInvoke() && cc.Method.Name() == "Close" {
				recv = cc.Value
			} else if sc := cc.StaticCallee(); sc != nil && sc.Name() == "Close" && sc.Signature.Recv() != nil && len(cc.Args) > 0 {
				recv = cc.Args[0]
			}
			if recv == nil {
				continue
			}
			recv = stripIface(recv)
			for i, pa := range h.Params {
				if recv == ssa.Value(pa) {
					all := true
					for _, r := range rets {
						if !b.Dominates(r) {
							all = false
						}
					}
					if _, isDefer := in.(*ssa.Defer); isDefer && b == h.Blocks[0] {
						all = true
					}
					if all {
						out[i] = true
					}
				}
				// element of a range loop over the slice parameter
				if ld, ok := recv.(*ssa.UnOp); ok {
					if ia, ok := ld.X.(*ssa.IndexAddr); ok && ia.X == ssa.Value(pa) {
						loop := innermostLoop(h, b)
						if loop == nil {
							continue
						}
						clean := true
						var header *ssa.BasicBlock
						for lb := range loop {
							for _, pr := range lb.Preds {
								if !loop[pr] {
									header = lb
								}
							}
						}
						for lb := range loop {
							for _, sx := range lb.Succs {
								if !loop[sx] && lb != header {
									clean = false
								}
							}
						}
						// the close is on every iteration: its block dominates the latch (the predecessor of the header inside the loop)
						if header != nil {
							for _, pr := range header.Preds {
								if loop[pr] && !b.Dominates(pr) {
									clean = false
								}
							}
						}
						if clean && header != nil {
							out[i] = true
						}
					}
				}
			}
		}
	}
	return out
}

// typeMayHoldHandle: a value of type t can (transitively) contain an open handle – it has an interface (other than error), a
// function or a channel somewhere inside. Pure data records cannot.
func typeMayHoldHandle(t types.Type, depth int, seen map[types.Type]bool) bool {
	if depth > 6 || seen[t] {
		return false
	}
	seen[t] = true
	if isErrorType(t) {
		return false
	}
	switch u := t.Underlying().(type) {
	case *types.Interface, *types.Signature, *types.Chan:
		return true
	case *types.Pointer:
		return typeMayHoldHandle(u.Elem(), depth+1, seen)
	case *types.Slice:
		return typeMayHoldHandle(u.Elem(), depth+1, seen)
	case *types.Array:
		return typeMayHoldHandle(u.Elem(), depth+1, seen)
	case *types.Map:
		return typeMayHoldHandle(u.Elem(), depth+1, seen) || typeMayHoldHandle(u.Key(), depth+1, seen)
	case *types.Struct:
		for i := 0; i < u.NumFields(); i++ {
			if typeMayHoldHandle(u.Field(i).Type(), depth+1, seen) {
				return true
			}
		}
	case *types.Basic:
		return u.Kind() == types.UnsafePointer
	}
	return false
}

type closedField struct {
	kind  string // "param" | "free"
	idx   int
	field string
	typ   types.Type
}

// calleeAndBindings: the module function a call runs (static callee, or the closure made in this function) and, for a closure,
// the values bound to its free variables.
func calleeAndBindings(p *core.Prog, cc *ssa.CallCommon) (*ssa.Function, []ssa.Value) {
	if cc.IsInvoke() {
		return nil, nil
	}
	if h := cc.StaticCallee(); h != nil {
		if !core.InModule(h) || len(h.Blocks) == 0 {
			return nil, nil
		}
		if mc, ok := cc.Value.(*ssa.MakeClosure); ok {
			return h, mc.Bindings
		}
		return h, nil
	}
	if mc, ok := p.Def(cc.Value).(*ssa.MakeClosure); ok {
		if h, ok := mc.Fn.(*ssa.Function); ok && len(h.Blocks) > 0 {
			return h, mc.Bindings
		}
	}
	return nil, nil
}

var closedOperandFieldsMemo = map[*ssa.Function][]closedField{}

// closedOperandFields: the fields of h's operands (a struct parameter / receiver, a captured struct variable) on which h calls
// Close() whatever happens (the call sits on every path to every return, or is deferred at entry).
func closedOperandFields(h *ssa.Function) []closedField {
	if v, ok := closedOperandFieldsMemo[h]; ok {
		return v
	}
	var out []closedField
	var rets []*ssa.BasicBlock
	for _, b := range h.Blocks {
		if _, ok := b.Instrs[len(b.Instrs)-1].(*ssa.Return); ok && b.Comment != "recover" {
			rets = append(rets, b)
		}
	}
	spillOf := func(v ssa.Value) (int, bool) {
		for i, pa := range h.Params {
			if v == ssa.Value(pa) {
				return i, true
			}
			if al, ok := v.(*ssa.Alloc); ok && al.Referrers() != nil {
				for _, r := range *al.Referrers() {
					if st, ok := r.(*ssa.Store); ok && st.Addr == ssa.Value(al) && st.Val == ssa.Value(pa) {
						return i, true
					}
				}
			}
		}
		return 0, false
	}
	for _, b := range h.Blocks {
		for _, in := range b.Instrs {
			ci, ok := in.(ssa.CallInstruction)
			if !ok {
				continue
			}
			cc := ci.Common()
			var recv ssa.Value
			if cc.IsInvoke() && cc.Method.Name() == "Close" {
				recv = cc.Value
			} else if sc := cc.StaticCallee(); sc != nil && sc.Name() == "Close" && sc.Signature.Recv() != nil && len(cc.Args) > 0 {
				recv = cc.Args[0]
			}
			if recv == nil {
				continue
			}
			always := true
			for _, r := range rets {
				if !b.Dominates(r) {
					always = false
				}
			}
			if _, isDefer := in.(*ssa.Defer); isDefer && b == h.Blocks[0] {
				always = true
			}
			if !always {
				continue
			}
			recv = stripIface(recv)
			switch x := recv.(type) {
			case *ssa.Field:
				if i, ok := spillOf(x.X); ok {
					st := x.X.Type().Underlying().(*types.Struct)
					out = append(out, closedField{"param", i, st.Field(x.Field).Name(), st.Field(x.Field).Type()})
				}
			case *ssa.UnOp:
				fa, ok := x.X.(*ssa.FieldAddr)
				if !ok {
					continue
				}
				st := fa.X.Type().Underlying().(*types.Pointer).Elem().Underlying().(*types.Struct)
				name, typ := st.Field(fa.Field).Name(), st.Field(fa.Field).Type()
				if i, ok := spillOf(fa.X); ok {
					out = append(out, closedField{"param", i, name, typ})
					continue
				}
				for i, fv := range h.FreeVars {
					if fa.X == ssa.Value(fv) {
						out = append(out, closedField{"free", i, name, typ})
					}
				}
			}
		}
	}
	closedOperandFieldsMemo[h] = out
	return out
}

// closeTargets: the values a call instruction closes – the receiver of a Close(), or what is handed to a module helper in a
// parameter the helper always closes (for a variadic helper: every element of the argument list).
func closeTargets(ci ssa.CallInstruction) []ssa.Value {
	cc := ci.Common()
	if cc.IsInvoke() && cc.Method.Name() == "Close" {
		return []ssa.Value{cc.Value}
	}
	sc := cc.StaticCallee()
	if sc == nil {
		return nil
	}
	if sc.Name() == "Close" && len(cc.Args) > 0 {
		return []ssa.Value{cc.Args[0]}
	}
	var out []ssa.Value
	for i := range closedParams(sc) {
		if i >= len(cc.Args) {
			continue
		}
		a := cc.Args[i]
		if sl, ok := a.(*ssa.Slice); ok {
			if arr, ok := sl.X.(*ssa.Alloc); ok {
				for _, r := range *arr.Referrers() {
					if ia, ok := r.(*ssa.IndexAddr); ok {
						for _, r2 := range *ia.Referrers() {
							if st, ok := r2.(*ssa.Store); ok && st.Addr == ssa.Value(ia) {
								out = append(out, stripIface(st.Val))
							}
						}
					}
				}
				continue
			}
		}
		out = append(out, stripIface(a))
	}
	return out
}

// closerFields: receiver fields whose Close() is invoked (directly, or through a helper that always closes what it is given)
// inside a module Close method.
func closerFields(p *core.Prog, f *ssa.Function) []string {
	var out []string
	if f == nil || len(f.Params) == 0 {
		return nil
	}
	var rets []*ssa.BasicBlock
	for _, b := range f.Blocks {
		if _, ok := b.Instrs[len(b.Instrs)-1].(*ssa.Return); ok && b.Comment != "recover" {
			rets = append(rets, b)
		}
	}
	for _, b := range f.Blocks {
		for _, in := range b.Instrs {
			ci, ok := in.(ssa.CallInstruction)
			if !ok {
				continue
			}
			// the field is closed whatever happens: the close sits on every path to every return (or is deferred at entry);
			// a close that an earlier failure can skip does not count
			always := true
			for _, r := range rets {
				if !b.Dominates(r) {
					always = false
				}
			}
			if _, isDefer := in.(*ssa.Defer); isDefer && b == f.Blocks[0] {
				always = true
			}
			if !always {
				continue
			}
			for _, recv := range closeTargets(ci) {
				if ld, ok := recv.(*ssa.UnOp); ok {
					if fa, ok := ld.X.(*ssa.FieldAddr); ok && fa.X == ssa.Value(f.Params[0]) {
						st := fa.X.Type().Underlying().(*types.Pointer).Elem().Underlying().(*types.Struct)
						out = append(out, st.Field(fa.Field).Name())
					}
				}
			}
		}
	}
	sort.Strings(out)
	return out
}

// ctorFieldParams: for a constructor, field name → index of the parameter stored into it.
func ctorFieldParams(f *ssa.Function) map[string]int {
	out := map[string]int{}
	for _, b := range f.Blocks {
		for _, in := range b.Instrs {
			st, ok := in.(*ssa.Store)
			if !ok {
				continue
			}
			fa, ok := st.Addr.(*ssa.FieldAddr)
			if !ok {
				continue
			}
			al, ok := fa.X.(*ssa.Alloc)
			if !ok || !al.Heap {
				continue
			}
			for i, p := range f.Params {
				if st.Val == ssa.Value(p) {
					stt := fa.X.Type().Underlying().(*types.Pointer).Elem().Underlying().(*types.Struct)
					out[stt.Field(fa.Field).Name()] = i
				}
			}
		}
	}
	return out
}

// infeasibleConstField prunes paths that take the true edge of a field every literal of the build sets to false.
func infeasibleConstField(c *Ctx, atoms []core.Atom) bool {
	for _, a := range atoms {
		n := a.Norm()
		if !n.Sign || n.Cond.Op != "field" || n.Cond.Typ == nil {
			continue
		}
		if b, ok := n.Cond.Typ.Underlying().(*types.Basic); !ok || b.Kind() != types.Bool {
			continue
		}
		base := n.Cond.Args[0]
		if base.Typ == nil {
			continue
		}
		bt := base.Typ
		if p, ok := bt.Underlying().(*types.Pointer); ok {
			bt = p.Elem()
		}
		st, ok := bt.Underlying().(*types.Struct)
		if !ok || !strings.HasPrefix(bt.String(), core.ModulePath) {
			continue
		}
		for i := 0; i < st.NumFields(); i++ {
			if st.Field(i).Name() == n.Cond.Name && constFalseField(c, bt, i) && fieldEverStored(c, bt, i) {
				return true
			}
		}
	}
	return false
}

func fieldEverStored(c *Ctx, structT types.Type, field int) bool {
	for _, f := range c.P.ModFuncs {
		for _, b := range f.Blocks {
			for _, in := range b.Instrs {
				if st, ok := in.(*ssa.Store); ok {
					if fa, ok := st.Addr.(*ssa.FieldAddr); ok && fa.Field == field && types.Identical(fa.X.Type().Underlying().(*types.Pointer).Elem(), structT) {
						return true
					}
				}
			}
		}
	}
	return false
}

func runC10(c *Ctx) {
	R := c.R
	// the read helper's classification of what the handle delivered (shared with C09 R09.1): a zero-length read is a failure of
	// the handle and must end the run with an error, not be skipped as a packet
	checkPremises(c)
	nf := 0
	npaths := 0
	for _, name := range typestateFuncs {
		f := c.P.Func(name)
		if f == nil {
			if c.P.GOOS == "linux" || !strings.Contains(name, "Linux") && !strings.Contains(name, "AFPacket") {
				if c.P.GOOS == "linux" {
					R.Fail("R10.1", name+"#anchor", 0, "", "typestate entry function no longer resolves; re-confirm the table")
				}
			}
			continue
		}
		nf++
		npaths += typestate(c, f)
	}
	if c.P.GOOS == "darwin" {
		for _, name := range []string{"packets.NewSinkDarwin", "packets.NewBpfDevice", "packets.pickBpfDevice"} {
			if f := c.P.Func(name); f != nil {
				npaths += typestate(c, f)
			}
		}
	}
	R.Floor("R10.1:typestate-functions", nf, 6)
	R.Analysed["typestate_paths"+map[bool]string{true: "", false: "_" + c.P.GOOS}[c.P.GOOS == "linux"]] = npaths
	checkNoPartialSuccess(c)
	checkCausePreserved(c)
	checkGoroutineJoin(c)
	checkFilterErrChecked(c)
	checkZeroReadFatal(c)
	checkPollResultClassified(c)
}

// checkPollResultClassified is R10.7: what a poll returned is looked at before the receiver can leave. In every engine function
// that calls ReceiveProbe, no return is reachable from the call without passing a branch on the call's error: a cancellation test
// placed between the call and the classification of its result drops a fatal read error (and a capability verdict) of the poll that
// was in flight when the run's deadline passed – the run then reports a partial path as a success.
func checkPollResultClassified(c *Ctx) {
	R := c.R
	n := 0
	for _, e := range Engines(c.P) {
		for _, r := range e.RecvSites {
			g := r.Parent()
			fn := core.FuncName(g)
			var errv ssa.Value
			for _, ref := range *r.Referrers() {
				if ex, ok := ref.(*ssa.Extract); ok && ex.Index == 1 {
					errv = ex
				}
			}
			if errv == nil {
				R.Fail("R10.7", fn+"#poll-classified", r.Pos(), fn, "the error of ReceiveProbe is discarded")
				continue
			}
			n++
			derived := func(v ssa.Value) bool {
				seen := map[ssa.Value]bool{}
				var walk func(v ssa.Value, d int) bool
				walk = func(v ssa.Value, d int) bool {
					if v == nil || d > 5 || seen[v] {
						return false
					}
					seen[v] = true
					if v == errv {
						return true
					}
					if in, ok := v.(ssa.Instruction); ok {
						for _, op := range in.Operands(nil) {
							if op != nil && *op != nil && walk(*op, d+1) {
								return true
							}
						}
					}
					return false
				}
				return walk(v, 0)
			}
			tests := map[*ssa.BasicBlock]bool{}
			for _, b := range g.Blocks {
				if iff, ok := b.Instrs[len(b.Instrs)-1].(*ssa.If); ok && derived(iff.Cond) {
					tests[b] = true
				}
			}
			leak := false
			if !tests[r.Block()] {
				for _, b := range g.Blocks {
					if _, isRet := b.Instrs[len(b.Instrs)-1].(*ssa.Return); !isRet || b.Comment == "recover" {
						continue
					}
					for _, sx := range r.Block().Succs {
						if reachAvoiding(sx, b, tests, nil) {
							leak = true
						}
					}
					if b == r.Block() {
						leak = true
					}
				}
			}
			R.Check(!leak, "R10.7", fn+"#poll-classified", r.Pos(), fn, "no return is reachable from the poll without a branch on its error", "a return is reachable after ReceiveProbe without any branch on the error it returned: a fatal read error (or the SACK capability verdict) of that poll is dropped and the run ends as a success with a partial path")
		}
	}
	R.Floor("R10.7:polls", n, 2)
}

// checkZeroReadFatal is R10.6: a zero-length read is a fault of the capture handle; it must end the run with an
// error (not be skipped like an unrelated packet), otherwise a broken handle yields an empty path as a success.
func checkZeroReadFatal(c *Ctx) {
	R := c.R
	f := c.P.Func("packets.ReadAndParse")
	if f == nil {
		R.Fail("R10.6", "packets.ReadAndParse#anchor", 0, "", "anchor packets.ReadAndParse no longer resolves")
		return
	}
	fn := core.FuncName(f)
	// inlined paths: the read and its classification may sit in a helper of the package
	rps := InlinedPaths(c.P, f, inlineOpts{pkg: core.FuncPkg(f), stop: hasLoop})
	n := 0
	for _, rp := range rps {
		// R10.6b: on a path where the read's error is not known to be nil, what is returned carries that error (its cause is
		// what tells a dead handle from a closed one)
		var readErr ssa.Value
		for _, ev := range rp.Events {
			if call, ok := ev.Instr.(*ssa.Call); ok && ev.Kind == "call" && call.Common().IsInvoke() && call.Common().Method.Name() == "Read" && isNamed(call.Common().Value.Type(), core.ModulePath+"/packets", "Source") {
				for _, r := range *call.Referrers() {
					if ex, ok := r.(*ssa.Extract); ok && ex.Index == 1 {
						readErr = ex
					}
				}
			}
		}
		if readErr != nil && len(rp.Results) > 0 && !rp.Results[0].IsConst("nil") {
			known := false
			for _, a := range rp.Atoms {
				nn := a.Norm()
				if nn.Sign && nn.Cond.Op == "binop" && nn.Cond.Name == "==" && nn.Cond.Args[1].IsConst("nil") && nn.Cond.Args[0].Val == readErr {
					known = true
				}
			}
			if !known {
				key := fmt.Sprintf("%s#read-error-kept", fn)
				if rv := rp.Results[0].Val; rv != nil && wrapsValue(rv, readErr, 0) {
					R.OK("R10.6", key, f.Pos(), fn, "a failed read is reported with its cause")
				} else {
					R.FailPath("R10.6", key, f.Pos(), fn, "a path on which the capture read may have failed returns "+rp.Results[0].String()+", which does not carry the read's error: the cause of a broken handle is lost", rp.Desc)
				}
			}
		}
		zero, readOK := false, false
		for _, a := range rp.Atoms {
			nn := a.Norm()
			s := nn.Cond.String()
			if nn.Sign && strings.HasSuffix(s, "#0 == 0)") && strings.Contains(s, "Source.Read") {
				zero = true
			}
			// n <= 0, n < 1 (and the false edges of n > 0, n >= 1, n != 0)
			if strings.Contains(s, "Source.Read") && nn.Cond.Op == "binop" && len(nn.Cond.Args) == 2 && strings.HasSuffix(nn.Cond.Args[0].String(), "#0") {
				r, op := nn.Cond.Args[1], nn.Cond.Name
				if r.IsConst("0") && (nn.Sign && op == "<=" || !nn.Sign && (op == ">" || op == "!=")) || r.IsConst("1") && (nn.Sign && op == "<" || !nn.Sign && op == ">=") {
					zero = true
				}
			}
			if nn.Sign && strings.HasSuffix(s, "#1 == nil)") && strings.Contains(s, "Source.Read") {
				readOK = true
			}
		}
		if !zero || !readOK {
			continue
		}
		n++
		// what this very path returns: a retryable wrapper is a freshly built ReceiveProbeNoPktError / BadPacketError
		isNil := rp.Results[0].IsConst("nil")
		retryable := rp.Results[0].Has(func(x *core.Term) bool {
			al, ok := x.Val.(*ssa.Alloc)
			return ok && x.Op == "alloc" && (isNamed(al.Type(), core.ModulePath+"/common", "ReceiveProbeNoPktError") || isNamed(al.Type(), core.ModulePath+"/common", "BadPacketError"))
		})
		R.Check(!retryable && !isNil, "R10.6", fn+"#zero-length-read", rp.Ret.Pos(), fn, "a zero-length read fails the run", "a zero-length read of the capture handle is reported as a retryable (skipped) condition or as success: a broken handle would yield a partial or empty path as a success")
	}
	R.Floor("R10.6:zero-read-paths", n, 1)
}

// typestate enumerates the return paths of f and checks close-exactly-once / no use after close.
func typestate(c *Ctx, f *ssa.Function) int {
	R := c.R
	fn := core.FuncName(f)
	rps, complete := core.ReturnPaths(c.P, f, 20000)
	if !complete {
		R.Fail("R10.1", fn+"#enumeration", f.Pos(), fn, "too many paths: typestate undecided")
		return 0
	}
	n := 0
	nOpen := 0
	for _, rp := range rps {
		if rp.Ret.Block().Comment == "recover" {
			continue
		}
		if infeasibleConstField(c, rp.Atoms) {
			continue
		}
		n++
		// a non-inlining evaluator: constructor calls must stay visible for the closer summaries
		env := core.NewEnv(c.P, rp.Path)
		env.Inline = false
		rp.Atoms = env.Atoms()
		for i, rv := range rp.Ret.Results {
			rp.Results[i] = env.Term(rv)
		}
		res := map[string]*resState{}
		var order []string
		var deferred []func()
		errNil := func(call *ssa.Call) (known bool, isNil bool) {
			// find the atom testing this call's error result
			for _, a := range rp.Atoms {
				nn := a.Norm()
				cnd := nn.Cond
				if cnd.Op == "binop" && cnd.Name == "==" && cnd.Args[1].IsConst("nil") {
					x := cnd.Args[0]
					if x.Op == "extract" && x.Args[0].Val == ssa.Value(call) {
						return true, nn.Sign
					}
				}
			}
			return false, false
		}
		closeKey := func(v ssa.Value, deferredClose bool, at ssa.Instruction) {
			t := env.Term(v)
			keys := []string{t.Key()}
			// closer summary: driver.Close() closes the constructor arguments stored in the closed fields
			if t.Op == "call" || (t.Op == "extract" && t.Args[0].Op == "call") {
				ct := t
				if ct.Op == "extract" {
					ct = ct.Args[0]
				}
				var ctor *ssa.Function
				for _, mf := range c.P.ModFuncs {
					if shortName(mf) == ct.Name {
						ctor = mf
					}
				}
				if ctor != nil {
					// which Close method: the static type of v
					var closeFn *ssa.Function
					ms := c.P.SSA.MethodSets.MethodSet(v.Type())
					for i := 0; i < ms.Len(); i++ {
						if ms.At(i).Obj().Name() == "Close" {
							closeFn = c.P.SSA.MethodValue(ms.At(i))
						}
					}
					fp := ctorFieldParams(ctor)
					for _, fld := range closerFields(c.P, closeFn) {
						if pi, ok := fp[fld]; ok && pi < len(ct.Args) {
							keys = append(keys, ct.Args[pi].Key())
						}
					}
				}
			}
			for _, k := range keys {
				rs := res[k]
				if rs == nil {
					continue
				}
				if deferredClose {
					kk := k
					deferred = append(deferred, func() { res[kk].closes++; res[kk].deferred++ })
				} else {
					rs.closes++
					if rs.closedAt == nil {
						rs.closedAt = at
					}
				}
			}
		}
		closeTermKey := func(k string, deferredClose bool, at ssa.Instruction) {
			rs := res[k]
			if rs == nil {
				return
			}
			if deferredClose {
				deferred = append(deferred, func() { res[k].closes++; res[k].deferred++ })
			} else {
				rs.closes++
				if rs.closedAt == nil {
					rs.closedAt = at
				}
			}
		}
		open := func(key, desc string, at ssa.Instruction) {
			if res[key] == nil {
				res[key] = &resState{key: key, desc: desc, opened: at}
				order = append(order, key)
			}
		}
		for _, b := range rp.Path.Blocks {
			for _, in := range b.Instrs {
				// use after close: any operand whose term mentions a closed resource
				if ci, ok := in.(ssa.CallInstruction); ok {
					cc := ci.Common()
					targets := closeTargets(ci)
					isClose := len(targets) > 0
					_, isDefer := in.(*ssa.Defer)
					var operands []ssa.Value
					if cc.IsInvoke() {
						operands = append(operands, cc.Value)
					}
					operands = append(operands, cc.Args...)
					for _, op := range operands {
						t := env.Term(op)
						for _, k := range order {
							rs := res[k]
							if rs.closedAt != nil && rs.closes > rs.deferred && !rs.consumed && termMentions(t, k) && !(isClose && isDefer) {
								if isClose {
									continue // counted as a second close below
								}
								R.FailPath("R10.1", fmt.Sprintf("%s#use-after-close[%s]", fn, rs.desc), in.Pos(), fn, fmt.Sprintf("handle %s is used at %s after it was closed at %s", rs.desc, c.P.PosStr(in.Pos()), c.P.PosStr(rs.closedAt.Pos())), rp.Path.String())
							}
						}
					}
					if isClose {
						for _, target := range targets {
							closeKey(target, isDefer, in)
						}
					}
					// a helper (function, method of the handle's struct, or a local closure) that closes FIELDS of what it is given:
					// closeSourceSink(handle), handle.Close(), closeHandle()
					if h, bindings := calleeAndBindings(c.P, cc); h != nil {
						closedAny := false
						for _, cf := range closedOperandFields(h) {
							var t *core.Term
							switch cf.kind {
							case "param":
								if cf.idx < len(cc.Args) {
									t = core.ProjField(env.Term(cc.Args[cf.idx]), cf.field)
								}
							case "free":
								if cf.idx < len(bindings) {
									if al, ok := bindings[cf.idx].(*ssa.Alloc); ok {
										t = env.LoadField(al, cf.field, in, cf.typ)
									}
								}
							}
							if t != nil {
								closeTermKey(t.Key(), isDefer, in)
								closedAny = true
							}
						}
						if closedAny {
							continue
						}
					}
					if isClose {
						continue
					}
				}
				call, ok := in.(*ssa.Call)
				if !ok {
					continue
				}
				spec, isOpener := openers[calleeKey(call.Common())]
				if !isOpener {
					continue
				}
				known, isNil := errNil(call)
				res2 := call.Common().Signature().Results()
				hasErr := res2.Len() > 0 && isErrorType(res2.At(res2.Len()-1).Type())
				if hasErr && known && !isNil {
					continue // opener failed on this path: nothing opened
				}
				// consumed argument
				if spec.takes >= 0 && spec.takes < len(call.Common().Args) {
					at := env.Term(call.Common().Args[spec.takes])
					for _, k := range order {
						if termMentions(at, k) {
							res[k].consumed = true
						}
					}
				}
				for _, ri := range spec.results {
					var rt *core.Term
					if ri < 0 {
						rt = env.Term(call)
					} else {
						for _, r := range *call.Referrers() {
							if ex, ok := r.(*ssa.Extract); ok && ex.Index == ri {
								rt = env.Term(ex)
							}
						}
					}
					if rt == nil {
						continue
					}
					if len(spec.fields) > 0 {
						for _, fld := range spec.fields {
							open(core.ProjField(rt, fld).Key(), calleeKey(call.Common())+"."+fld, in)
						}
					} else {
						open(rt.Key(), calleeKey(call.Common()), in)
					}
				}
			}
		}
		// deferred calls run at the return, LIFO
		for i := len(deferred) - 1; i >= 0; i-- {
			deferred[i]()
		}
		// escapes
		errRes := rp.Results[len(rp.Results)-1]
		success := !isErrorType(f.Signature.Results().At(f.Signature.Results().Len()-1).Type()) || errRes.IsConst("nil") || errRes.Op != "const" && strings.Contains(errRes.String(), "SetDeadline")
		if isErrorType(f.Signature.Results().At(f.Signature.Results().Len()-1).Type()) && !errRes.IsConst("nil") {
			// `return conn, err` where err is known nil on this path
			for _, a := range rp.Atoms {
				nn := a.Norm()
				if nn.Sign && nn.Cond.Op == "binop" && nn.Cond.Name == "==" && nn.Cond.Args[1].IsConst("nil") && nn.Cond.Args[0].Key() == errRes.Key() {
					success = true
				}
			}
		}
		for _, k := range order {
			rs := res[k]
			nOpen++
			if rs.consumed {
				continue
			}
			escapes := false
			if success {
				for ri, r := range rp.Results {
					// the result can carry the handle only if its type can hold one (an interface, a function, a channel somewhere
					// inside): a plain data record computed FROM the handle (the run's hops) does not hand the handle out
					if termMentions(r, k) && typeMayHoldHandle(f.Signature.Results().At(ri).Type(), 0, map[types.Type]bool{}) {
						escapes = true
					}
				}
				// stored into a returned object
				for _, b := range rp.Path.Blocks {
					for _, in := range b.Instrs {
						if st, ok := in.(*ssa.Store); ok {
							if termMentions(env.Term(st.Val), k) {
								root, _ := addrRootFields(st.Addr)
								for _, rv := range rp.Ret.Results {
									if !typeMayHoldHandle(rv.Type(), 0, map[types.Type]bool{}) {
										continue
									}
									if stripIface(rv) == root {
										escapes = true
									}
									// struct value loaded from a local and returned
									if ld, ok := stripIface(rv).(*ssa.UnOp); ok && ld.X == root {
										escapes = true
									}
								}
							}
						}
					}
				}
			}
			key := fmt.Sprintf("%s#handle[%s]@return[b%d]", fn, rs.desc, rp.Ret.Block().Index)
			pos := rp.Ret.Pos()
			switch {
			case escapes && rs.closes == 0:
				R.OK("R10.1", key, pos, fn, "escapes through the successful return, not closed here")
			case escapes && rs.closes > 0:
				R.FailPath("R10.1", key, pos, fn, fmt.Sprintf("handle %s is returned to the caller but was closed %d time(s) on this path", rs.desc, rs.closes), rp.Path.String())
			case rs.closes == 1:
				R.OK("R10.1", key, pos, fn, "closed exactly once")
			case rs.closes == 0:
				if why, ok := leakExceptions[fn]; ok {
					R.OK("R10.1", key, pos, fn, "reviewed: "+why)
				} else {
					R.FailPath("R10.1", key, pos, fn, fmt.Sprintf("handle %s opened at %s is not closed on this path (leak)", rs.desc, c.P.PosStr(rs.opened.Pos())), rp.Path.String())
				}
			default:
				R.FailPath("R10.1", key, pos, fn, fmt.Sprintf("handle %s is closed %d times on this path", rs.desc, rs.closes), rp.Path.String())
			}
		}
	}
	if n == 0 {
		R.Fail("R10.1", fn+"#paths", f.Pos(), fn, "no feasible return path: undecided")
	}
	return n
}

func stripIface(v ssa.Value) ssa.Value {
	for {
		switch x := v.(type) {
		case *ssa.MakeInterface:
			v = x.X
		case *ssa.ChangeInterface:
			v = x.X
		default:
			return v
		}
	}
}

// termMentions: the term is, or contains, the value with that key.
func termMentions(t *core.Term, key string) bool {
	return t.Has(func(x *core.Term) bool { return x.Key() == key })
}

// upwardResult: result types that carry a path / result document.
func upwardResult(t types.Type) bool {
	s := t.String()
	return strings.HasSuffix(s, "common.ProbeResponse") && strings.HasPrefix(s, "[]*") ||
		strings.HasSuffix(s, "icmp.icmpResult") || strings.HasSuffix(s, "sack.sackResult") ||
		strings.HasSuffix(s, "result.TracerouteRun") || strings.HasSuffix(s, "result.Results")
}

// checkNoPartialSuccess is R10.2.
func checkNoPartialSuccess(c *Ctx) {
	R := c.R
	n := 0
	for _, f := range c.P.ModFuncs {
		res := f.Signature.Results()
		if res.Len() != 2 || !isErrorType(res.At(1).Type()) || !upwardResult(res.At(0).Type()) || f.Synthetic != "" {
			continue
		}
		fn := core.FuncName(f)
		if strings.Contains(fn, "Mock") || strings.Contains(fn, "testutils") {
			continue
		}
		n++
		rps, complete := core.ReturnPaths(c.P, f, 20000)
		if !complete {
			R.Fail("R10.2", fn+"#enumeration", f.Pos(), fn, "too many paths: undecided")
			continue
		}
		for _, rp := range rps {
			if rp.Ret.Block().Comment == "recover" {
				continue
			}
			r0, r1 := rp.Results[0], rp.Results[1]
			key := fmt.Sprintf("%s#return[b%d]", fn, rp.Ret.Block().Index)
			switch {
			case r1.IsConst("nil"):
				R.OK("R10.2", key, rp.Ret.Pos(), fn, "success return")
			case r0.IsConst("nil") || r0.Op == "zero":
				R.OK("R10.2", key, rp.Ret.Pos(), fn, "error return carries no result")
			case r0.Op == "extract" && r1.Op == "extract" && r0.Args[0].Key() == r1.Args[0].Key():
				R.OK("R10.2", key, rp.Ret.Pos(), fn, "forwards both results of one call")
			default:
				// the error is known nil on this path
				known := false
				for _, a := range rp.Atoms {
					nn := a.Norm()
					if nn.Sign && nn.Cond.Op == "binop" && nn.Cond.Name == "==" && nn.Cond.Args[1].IsConst("nil") && nn.Cond.Args[0].Key() == r1.Key() {
						known = true
					}
				}
				if known {
					R.OK("R10.2", key, rp.Ret.Pos(), fn, "success return (error tested nil on the path)")
				} else {
					R.FailPath("R10.2", key, rp.Ret.Pos(), fn, "a return may carry the result "+r0.String()+" together with a non-nil error: a partial path can be returned as if it were a success", rp.Path.String())
				}
			}
		}
	}
	R.Floor("R10.2:upward-functions", n, 6)
}

func runPathFuncs(c *Ctx) map[*ssa.Function]bool {
	out := map[*ssa.Function]bool{}
	for _, f := range ModReach(c.P, runRoots(c)...) {
		pk := core.ShortPkg(core.FuncPkg(f))
		if pk == "publicip" || pk == "reversedns" || pk == "cache" || pk == "log" || pk == "result" {
			continue
		}
		out[f] = true
	}
	return out
}

// checkCausePreserved is R10.3.
func checkCausePreserved(c *Ctx) {
	R := c.R
	ea := NewErrAnalysis(c)
	rp := runPathFuncs(c)
	R.Analysed["run_path_functions"] = len(rp)
	// (a) every fmt.Errorf with an error argument uses %w
	na := 0
	for f := range rp {
		for _, b := range f.Blocks {
			for _, in := range b.Instrs {
				call, ok := in.(*ssa.Call)
				if !ok {
					continue
				}
				cal := call.Common().StaticCallee()
				if cal == nil || core.FuncPkg(cal) == nil || core.FuncPkg(cal).Path() != "fmt" || cal.Name() != "Errorf" {
					continue
				}
				args := errArgs(call.Common())
				if len(args) == 0 {
					continue
				}
				na++
				format, _ := constStr(call.Common().Args[0])
				fn := core.FuncName(f)
				key := fmt.Sprintf("%s#errorf(%s)", fn, firstWords(format))
				R.Check(strings.Contains(format, "%w"), "R10.3", key, call.Pos(), fn, "error argument wrapped with %w", "an error is formatted into \""+format+"\" without %w: the underlying cause is no longer reachable by errors.Is/As")
			}
		}
	}
	R.Floor("R10.3:errorf-with-error-arg", na, 40)
	// (b) returns under `E != nil` for io-class E keep E's origin
	nb := 0
	var fs []*ssa.Function
	for f := range rp {
		fs = append(fs, f)
	}
	sort.Slice(fs, func(i, j int) bool { return core.FuncName(fs[i]) < core.FuncName(fs[j]) })
	for _, f := range fs {
		fn := core.FuncName(f)
		res := f.Signature.Results()
		if res.Len() == 0 || !isErrorType(res.At(res.Len()-1).Type()) {
			continue
		}
		for _, b := range f.Blocks {
			iff, ok := b.Instrs[len(b.Instrs)-1].(*ssa.If)
			if !ok {
				continue
			}
			// conditions `E != nil`, possibly as the left operand chain of && (short-circuit blocks)
			bo, ok := iff.Cond.(*ssa.BinOp)
			if !ok || bo.Op.String() != "!=" {
				continue
			}
			cst, ok := bo.Y.(*ssa.Const)
			if !ok || cst.Value != nil || !isErrorType(bo.X.Type()) {
				continue
			}
			eCls := ea.classOf(bo.X, f, map[ssa.Value]bool{})
			ioOrigins := map[string]bool{}
			for _, e := range eCls {
				if e.Cause == "io" {
					ioOrigins[e.Origin] = true
				}
			}
			if len(ioOrigins) == 0 {
				continue
			}
			// follow the true edge through side-effect-only blocks / further conjuncts to a return
			tb := b.Succs[0]
			for hops := 0; hops < 3; hops++ {
				if _, isRet := tb.Instrs[len(tb.Instrs)-1].(*ssa.Return); isRet {
					break
				}
				if iff2, ok := tb.Instrs[len(tb.Instrs)-1].(*ssa.If); ok {
					_ = iff2
					tb = tb.Succs[0]
					continue
				}
				if len(tb.Succs) == 1 {
					tb = tb.Succs[0]
					continue
				}
				break
			}
			ret, isRet := tb.Instrs[len(tb.Instrs)-1].(*ssa.Return)
			if !isRet {
				continue
			}
			nb++
			rCls := ea.classOf(ret.Results[len(ret.Results)-1], f, map[ssa.Value]bool{})
			kept := false
			for _, e := range rCls {
				if ioOrigins[e.Origin] && e.Wrapped {
					kept = true
				}
			}
			var os2 []string
			for o := range ioOrigins {
				os2 = append(os2, o)
			}
			sort.Strings(os2)
			key := fmt.Sprintf("%s#cause[%s]", fn, shortOrigin(os2[0]))
			var got []string
			for _, e := range rCls.sorted() {
				got = append(got, e.Origin)
			}
			R.Check(kept, "R10.3", key, ret.Pos(), fn, "the error returned under this failure still carries its cause", fmt.Sprintf("under `%s != nil` (cause %s) the function returns an error whose chain is %v: the underlying cause is dropped", exprName(bo.X), strings.Join(os2, ","), got))
		}
	}
	R.Floor("R10.3:io-failure-returns", nb, 25)
}

func exprName(v ssa.Value) string {
	if v.Name() != "" {
		return v.Name()
	}
	return v.String()
}

// checkGoroutineJoin is R10.4.
func checkGoroutineJoin(c *Ctx) {
	R := c.R
	rp := runPathFuncs(c)
	// goroutines of the multi-run layer are on the run path as well
	if f := c.P.Func("(traceroute.Traceroute).runTracerouteMulti"); f != nil {
		rp[f] = true
	}
	if f := c.P.Func("reversedns.GetReverseDnsForIPs"); f != nil {
		rp[f] = true
	}
	n := 0
	var fs []*ssa.Function
	for f := range rp {
		fs = append(fs, f)
	}
	sort.Slice(fs, func(i, j int) bool { return core.FuncName(fs[i]) < core.FuncName(fs[j]) })
	for _, f := range fs {
		spawns := spawnSites(f)
		if len(spawns) == 0 {
			continue
		}
		fn := core.FuncName(f)
		waitBlocks := map[*ssa.BasicBlock]bool{}
		for _, b := range f.Blocks {
			for _, in := range b.Instrs {
				if isWaitCall(in) {
					waitBlocks[b] = true
				}
			}
		}
		for i, sp := range spawns {
			n++
			leak := false
			// a goroutine started on a WaitGroup / errgroup that belongs to another function (handed down as a parameter, captured
			// by a closure) is joined by the owner: the obligation moves to the owner's call that leads here
			if call, isCall := sp.(*ssa.Call); isCall && len(call.Common().Args) > 0 {
				if al, isAl := c.P.DefX(call.Common().Args[0]).(*ssa.Alloc); isAl && al.Parent() != nil && al.Parent() != f {
					owner := al.Parent()
					ownerWaits := map[*ssa.BasicBlock]bool{}
					for _, b := range owner.Blocks {
						for _, in := range b.Instrs {
							if isWaitCall(in) {
								ownerWaits[b] = true
							}
						}
					}
					var leads []ssa.Instruction
					for _, b := range owner.Blocks {
						for _, in := range b.Instrs {
							oc, ok := in.(*ssa.Call)
							if !ok || oc.Common().StaticCallee() == nil || !core.InModule(oc.Common().StaticCallee()) {
								continue
							}
							for _, g := range ModReach(c.P, oc.Common().StaticCallee()) {
								if g == f {
									leads = append(leads, in)
									break
								}
							}
						}
					}
					okOwner := len(leads) > 0
					for _, ld := range leads {
						for _, b := range owner.Blocks {
							if _, isRet := b.Instrs[len(b.Instrs)-1].(*ssa.Return); !isRet || b.Comment == "recover" {
								continue
							}
							if b == ld.Block() && !ownerWaits[b] {
								okOwner = false
							}
							for _, sx := range ld.Block().Succs {
								if reachAvoiding(sx, b, ownerWaits, nil) {
									okOwner = false
								}
							}
						}
					}
					R.Check(okOwner, "R10.4", fmt.Sprintf("%s#spawn[%d]", fn, i), sp.Pos(), fn, "the goroutine is started on a group owned by "+core.FuncName(owner)+", which waits on every path from the call that leads here to a return", "the goroutine is started on a group owned by "+core.FuncName(owner)+", which can return after the call that leads here without a Wait(): the goroutine can outlive the call")
					continue
				}
			}
			for _, b := range f.Blocks {
				if _, isRet := b.Instrs[len(b.Instrs)-1].(*ssa.Return); !isRet || b.Comment == "recover" {
					continue
				}
				// a Wait in the spawn's own block after the spawn also joins
				if waitBlocks[sp.Block()] {
					afterSpawn := false
					for _, in := range sp.Block().Instrs {
						if in == sp {
							afterSpawn = true
						}
						if afterSpawn && isWaitCall(in) {
							goto joined
						}
					}
				}
				for _, s := range sp.Block().Succs {
					if reachAvoiding(s, b, waitBlocks, nil) {
						leak = true
					}
				}
				if sp.Block() == b {
					leak = true
				}
			joined:
			}
			R.Check(!leak, "R10.4", fmt.Sprintf("%s#spawn[%d]", fn, i), sp.Pos(), fn, "every path from the spawn to a return passes a Wait()", "a return is reachable after the spawn without joining the goroutine: it can outlive the call")
		}
	}
	R.Floor("R10.4:spawn-sites", n, 3)
}

// checkFilterErrChecked is R10.5.
func checkFilterErrChecked(c *Ctx) {
	R := c.R
	n := 0
	for _, f := range c.P.ModFuncs {
		for _, b := range f.Blocks {
			for _, in := range b.Instrs {
				call, ok := in.(*ssa.Call)
				if !ok || !call.Common().IsInvoke() || call.Common().Method.Name() != "SetPacketFilter" {
					continue
				}
				if strings.Contains(core.FuncName(f), "Mock") {
					continue
				}
				n++
				tested := false
				for _, r := range *call.Referrers() {
					if bo, ok := r.(*ssa.BinOp); ok {
						for _, r2 := range *bo.Referrers() {
							if _, ok := r2.(*ssa.If); ok {
								tested = true
							}
						}
					}
				}
				R.Check(tested, "R10.5", fmt.Sprintf("%s#SetPacketFilter@b%d", core.FuncName(f), b.Index), call.Pos(), core.FuncName(f), "the filter installation error is tested", "the error of SetPacketFilter is ignored: the run would continue with the previous (wrong) filter")
			}
		}
	}
	R.Floor("R10.5:SetPacketFilter-sites", n, 4)
}
