package rules

import (
	"fmt"
	"go/token"
	"go/types"
	"sort"
	"strings"

	"golang.org/x/tools/go/ssa"

	"verif/tool/internal/core"
)

func init() {
	register("C08", "Decides the necessary condition of bounded termination: every operation that can block on the run path is governed by a finite deadline that originates from the run's parameters or a constant, and every loop has a recognised exit. (R08.1) Every call of a blocking primitive in the module functions reachable from RunTraceroute and the protocol entry points is enumerated (capture reads, dials, HTTP requests and body reads, resolver lookups, retries, channel receives, sleeps, joins) and must have its governor: a dominating SetReadDeadline(time.Now().Add(d)) on the same source, a context that derives from WithTimeout/WithDeadline (or a runtime Deadline() check), a dialer/client timeout, a timer channel, or a parameter-derived duration; (R08.2) each loop on the run path is counted, tests a deadline-bearing context on every iteration, contains a deadline-governed read whose failure leaves it, or is in the reviewed table; (R08.3) drop-all is attached before the non-blocking drain and the real filter after it; (R08.4) both engines derive their timeout context from the caller's and report cancellation: the success return lies behind ctx.Err() == nil, the other edge returns ctx.Err(). The value of the bound, one-poll-interval promptness and kernel behaviour are runtime quantities and are not decided. Producer/consumer contract: when a loop leaves on errors.Is(err, os.ErrDeadlineExceeded) for an error produced by the read helper, the helper's own deadline branch must return an error that still wraps the read error. (R08.5) A driver's ReceiveProbe arms, before the capture read on every path, the read deadline time.Now().Add(d) with d its own duration parameter (the poll interval). Capture-read wrappers are recognised structurally (a module function that reads from a packets.Source parameter); a channel may be closed by a deferred method. The read deadline that is a loop's only bound is armed before the loop, not re-armed per iteration. (R08.6) The reverse-DNS fan-out's lookups are not made under the mutex the sibling goroutines need. (R08.7) In the auxiliary lookups (resolver, public-IP providers) no deadline context is created per attempt of a retry loop unless it derives from a deadline context created before the loop: a per-attempt deadline multiplies the stated lookup timeout by the number of attempts.", runC08)
	darwinRules["C08"] = runC08
}

// blockingExceptions: reviewed blocking calls that need no governor (reason each).
var blockingExceptions = map[string]string{
	"iface:syscall.RawConn.Write":   "raw socket send: bounded by the kernel send buffer, not one of the property's stall sources",
	"unix.Sendto":                   "non-blocking raw socket send",
	"net.LookupIP":                  "forward lookup of the target name: bounded by the system resolver configuration, not among the property's named auxiliary services",
	"net.Dial(udp)":                 "connectionless: assigns a local address, does not wait for the peer",
	"iface:syscall.RawConn.Control": "runs the closure synchronously on the descriptor; the drain inside is non-blocking (R08.2/R08.3)",
}

// loopExceptions: reviewed loops (function + header comment) with their termination argument.
var loopExceptions = map[string]string{
	"sack.getMinSack":          "inner loop re-slices the option data forward by the constant 8 while len >= 8",
	"packets.SetBPFAndDrain$1": "drains with MSG_DONTWAIT a queue that cannot grow: drop-all is attached before (R08.3)",
}

func c08Roots(c *Ctx) []*ssa.Function {
	roots := runRoots(c)
	for _, n := range []string{"(*publicip.PublicIPFetcher).GetIP", "publicip.GetPublicIP", "reversedns.GetReverseDnsForIPs", "reversedns.GetReverseDns", "(*result.Results).EnrichWithReverseDns"} {
		if f := c.P.Func(n); f != nil {
			roots = append(roots, f)
		}
	}
	return roots
}

// ctxDeadline decides whether a context value provably carries a deadline; desc explains the chain.
func ctxDeadline(c *Ctx, v ssa.Value, f *ssa.Function, depth int) (bool, string) {
	if depth > 6 {
		return false, "chain too deep"
	}
	d := c.P.Def(v)
	switch x := d.(type) {
	case *ssa.Extract:
		call, ok := x.Tuple.(*ssa.Call)
		if !ok || call.Common().StaticCallee() == nil {
			return false, "unknown tuple"
		}
		name := call.Common().StaticCallee().String()
		switch name {
		case "context.WithTimeout", "context.WithDeadline":
			return true, name
		case "context.WithCancel", "context.WithValue", "golang.org/x/sync/errgroup.WithContext", "context.WithCancelCause":
			ok, why := ctxDeadline(c, call.Common().Args[0], f, depth+1)
			return ok, name + " ← " + why
		}
		return false, name
	case *ssa.Call:
		if cal := x.Common().StaticCallee(); cal != nil {
			switch cal.String() {
			case "context.Background", "context.TODO":
				return false, cal.String() + "()"
			case "(*net/http.Request).Context":
				return reqDeadline(c, x.Common().Args[0], f, depth+1)
			}
		}
		return false, x.String()
	case *ssa.Parameter:
		// a runtime Deadline() check in this function
		fn := x.Parent()
		for _, b := range fn.Blocks {
			for _, in := range b.Instrs {
				if call, ok := in.(*ssa.Call); ok && call.Common().IsInvoke() && call.Common().Method.Name() == "Deadline" && c.P.Def(call.Common().Value) == ssa.Value(x) {
					return true, "runtime ctx.Deadline() check in " + core.FuncName(fn)
				}
			}
		}
		// all module call sites
		n := c.P.CallGraph().Nodes[fn]
		idx := -1
		for i, p := range fn.Params {
			if p == x {
				idx = i
			}
		}
		if n == nil || idx < 0 {
			return false, "parameter of " + core.FuncName(fn)
		}
		sites := 0
		for _, e := range n.In {
			if !core.InModule(e.Caller.Func) || e.Site == nil || strings.Contains(core.FuncName(e.Caller.Func), "Mock") {
				continue
			}
			// a compiler-made wrapper (pointer-receiver form of a value method, bound-method thunk) that nothing calls is not a
			// caller: it exists in the call graph only because the method set has it
			if e.Caller.Func.Synthetic != "" && len(e.Caller.In) == 0 {
				continue
			}
			args := e.Site.Common().Args
			if e.Site.Common().IsInvoke() {
				if idx-1 < 0 || idx-1 >= len(args) {
					continue
				}
				sites++
				if ok, why := ctxDeadline(c, args[idx-1], e.Caller.Func, depth+1); !ok {
					return false, "caller " + core.FuncName(e.Caller.Func) + ": " + why
				}
				continue
			}
			if idx >= len(args) {
				continue
			}
			sites++
			if ok, why := ctxDeadline(c, args[idx], e.Caller.Func, depth+1); !ok {
				return false, "caller " + core.FuncName(e.Caller.Func) + ": " + why
			}
		}
		if sites == 0 {
			return false, "caller-supplied context of " + core.FuncName(fn) + " (no guarantee)"
		}
		return true, "every module caller passes a deadline-bearing context"
	case *ssa.FreeVar:
		return false, "captured " + x.Name()
	case *ssa.Phi:
		// one of several contexts (the whole operation's, or a shorter child of it): every one of them must carry a deadline
		why := ""
		for _, e := range x.Edges {
			if e == ssa.Value(x) {
				continue
			}
			ok, w := ctxDeadline(c, e, f, depth+1)
			if !ok {
				return false, "one alternative: " + w
			}
			why = w
		}
		return len(x.Edges) > 0, "every alternative: " + why
	}
	return false, fmt.Sprintf("%T", d)
}

// reqDeadline: does the *http.Request carry a deadline-bearing context?
func reqDeadline(c *Ctx, v ssa.Value, f *ssa.Function, depth int) (bool, string) {
	d := c.P.Def(v)
	switch x := d.(type) {
	case *ssa.Extract:
		call, ok := x.Tuple.(*ssa.Call)
		if !ok || call.Common().StaticCallee() == nil {
			return false, "unknown request"
		}
		switch call.Common().StaticCallee().String() {
		case "net/http.NewRequest":
			return false, "http.NewRequest (background context)"
		case "net/http.NewRequestWithContext":
			ok, why := ctxDeadline(c, call.Common().Args[0], f, depth+1)
			return ok, "NewRequestWithContext ← " + why
		}
		// a module helper that builds the request: every request it hands back
		if g := call.Common().StaticCallee(); core.InModule(g) && len(g.Blocks) > 0 && depth < 6 {
			return returnedReqDeadline(c, g, x.Index, depth)
		}
	case *ssa.Call:
		if cal := x.Common().StaticCallee(); cal != nil && cal.String() == "(*net/http.Request).WithContext" {
			ok, why := ctxDeadline(c, x.Common().Args[1], f, depth+1)
			return ok, "WithContext ← " + why
		}
		if g := x.Common().StaticCallee(); g != nil && core.InModule(g) && len(g.Blocks) > 0 && depth < 6 {
			return returnedReqDeadline(c, g, 0, depth)
		}
	case *ssa.Parameter:
		fn := x.Parent()
		n := c.P.CallGraph().Nodes[fn]
		idx := -1
		for i, p := range fn.Params {
			if p == x {
				idx = i
			}
		}
		if n != nil && idx >= 0 {
			sites := 0
			for _, e := range n.In {
				if !core.InModule(e.Caller.Func) || e.Site == nil || idx >= len(e.Site.Common().Args) {
					continue
				}
				sites++
				if ok, why := reqDeadline(c, e.Site.Common().Args[idx], e.Caller.Func, depth+1); !ok {
					return false, why
				}
			}
			if sites > 0 {
				return true, "every caller passes a request with a deadline-bearing context"
			}
		}
	}
	return false, fmt.Sprintf("request of unknown origin (%T)", d)
}

// returnedReqDeadline: every non-nil request that module function g returns as result #idx carries a deadline-bearing context.
func returnedReqDeadline(c *Ctx, g *ssa.Function, idx int, depth int) (bool, string) {
	n := 0
	why := ""
	for _, b := range g.Blocks {
		ret, ok := b.Instrs[len(b.Instrs)-1].(*ssa.Return)
		if !ok || idx >= len(ret.Results) {
			continue
		}
		r := ret.Results[idx]
		if cst, ok := r.(*ssa.Const); ok && cst.IsNil() {
			continue
		}
		n++
		ok2, w := reqDeadline(c, r, g, depth+1)
		if !ok2 {
			return false, core.FuncName(g) + " returns a request: " + w
		}
		why = w
	}
	if n == 0 {
		return false, core.FuncName(g) + " returns no request"
	}
	return true, core.FuncName(g) + " ← " + why
}

// clientTimeout: the *http.Client has a non-zero Timeout assigned where it is built.
func clientTimeout(c *Ctx) bool {
	for _, f := range c.P.ModFuncs {
		if core.ShortPkg(core.FuncPkg(f)) != "publicip" || strings.Contains(core.FuncName(f), "Mock") {
			continue
		}
		for _, b := range f.Blocks {
			for _, in := range b.Instrs {
				if st, ok := in.(*ssa.Store); ok {
					if fa, ok := st.Addr.(*ssa.FieldAddr); ok && strings.HasSuffix(fa.X.Type().String(), "net/http.Client") && core.FieldName(fa) == "Timeout" {
						if cst, ok := st.Val.(*ssa.Const); !ok || cst.Int64() != 0 {
							return true
						}
					}
				}
			}
		}
	}
	return false
}

// checkPollDeadline is R08.5: a driver's ReceiveProbe returns within the poll interval the engine hands it – on every inlined
// path of ReceiveProbe the read deadline armed before the capture read is time.Now().Add(d) with d the method's own duration
// parameter (the engines re-test their timeout / cancellation contexts between polls; a deadline taken from a configuration
// field makes one poll as long as the whole run).
func checkPollDeadline(c *Ctx) {
	R := c.R
	n := 0
	for _, d := range Drivers(c.P) {
		f := d.ReceiveProbe
		fn := core.FuncName(f)
		var durParam *ssa.Parameter
		for _, pa := range f.Params {
			if isNamed(pa.Type(), "time", "Duration") {
				durParam = pa
			}
		}
		if durParam == nil {
			R.Fail("R08.5", fn+"#poll-parameter", f.Pos(), fn, "ReceiveProbe has no time.Duration parameter: undecided")
			continue
		}
		want := "param:" + durParam.Name()
		for _, ip := range InlinedPaths(c.P, f, inlineOpts{pkg: core.FuncPkg(f), stop: hasLoop, maxDepth: 4}) {
			var last *core.Term
			var lastPos token.Pos
			for _, ev := range ip.Events {
				call, ok := ev.Instr.(*ssa.Call)
				if !ok || ev.Kind != "call" {
					continue
				}
				cc := call.Common()
				if cc.IsInvoke() && cc.Method.Name() == "SetReadDeadline" && len(ev.Args) >= 2 {
					last, lastPos = ev.Args[1], call.Pos()
				}
				if !isCaptureRead(cc) {
					continue
				}
				n++
				key := fn + "#poll-deadline"
				switch {
				case last == nil:
					R.FailPath("R08.5", key, call.Pos(), fn, "the capture read is reached without a read deadline armed on this path", ip.Desc)
				case last.Op == "call" && last.Name == "(time.Time).Add" && len(last.Args) == 2 && last.Args[0].Op == "call" && last.Args[0].Name == "time.Now" && pollBounded(last.Args[1], want):
					R.OK("R08.5", key, lastPos, fn, "read deadline = time.Now().Add("+want+")")
				default:
					R.FailPath("R08.5", key, lastPos, fn, "the read deadline armed before the capture read is "+last.String()+", not time.Now().Add("+want+"): one poll no longer ends within the poll interval the engine asked for, so timeouts and cancellations are noticed late", ip.Desc)
				}
				last = nil
			}
		}
	}
	R.Floor("R08.5:polls", n, 4)
}

// checkPerAttemptDeadlines is R08.7: on the run path no deadline context is created inside a retry loop. A context.WithTimeout
// in the body of a for-loop that is not a range over a collection of distinct work items bounds one attempt, not the operation:
// a responder that stalls every attempt holds the caller for trip-count x timeout, which is no longer the stated lookup timeout.
// (The provider iteration of publicip is a range loop whose body calls a function; each provider is a distinct piece of work.)
func checkPerAttemptDeadlines(c *Ctx, fs []*ssa.Function) {
	R := c.R
	n := 0
	for _, f := range fs {
		fn := core.FuncName(f)
		// the auxiliary lookups (resolver, public-IP providers), whose timeout the property names as part of the bound; the
		// serial engine's per-TTL budget is a counted loop over distinct TTLs and is decided by R08.2 / R08.4
		if pk := core.ShortPkg(core.FuncPkg(f)); strings.Contains(fn, "Mock") || pk != "reversedns" && pk != "publicip" {
			continue
		}
		for _, b := range f.Blocks {
			for _, in := range b.Instrs {
				call, ok := in.(*ssa.Call)
				if !ok || call.Common().StaticCallee() == nil {
					continue
				}
				name := call.Common().StaticCallee().String()
				if name != "context.WithTimeout" && name != "context.WithDeadline" {
					continue
				}
				n++
				loop := innermostLoop(f, b)
				if loop == nil {
					R.OK("R08.7", fmt.Sprintf("%s#deadline-context[%d]", fn, n), call.Pos(), fn, name+" bounds the whole operation (not created per iteration)")
					continue
				}
				isRange := false
				for h := range loop {
					if strings.HasPrefix(h.Comment, "range") {
						isRange = true
					}
				}
				// a shorter child of a deadline that was set for the whole operation outside the loop slices that budget up, it
				// does not extend it
				if !isRange && len(call.Common().Args) > 0 {
					if par := c.P.Def(call.Common().Args[0]); par != nil {
						if pin, isInstr := par.(ssa.Instruction); isInstr && pin.Parent() == f && !loop[pin.Block()] {
							if okp, _ := ctxDeadline(c, call.Common().Args[0], f, 0); okp {
								R.OK("R08.7", fmt.Sprintf("%s#deadline-context[%d]", fn, n), call.Pos(), fn, name+" per attempt derives from a deadline context created before the loop: the attempts share one budget")
								continue
							}
						}
					}
				}
				R.Check(isRange, "R08.7", fmt.Sprintf("%s#deadline-context[%d]", fn, n), call.Pos(), fn, name+" is created per work item of a range loop", name+" is created inside a retry loop: the deadline bounds one attempt, not the operation, so a responder that stalls every attempt holds the caller for (number of attempts) x (timeout) instead of the stated timeout")
			}
		}
	}
	R.Floor("R08.7:deadline-contexts", n, 2)
}

// pollBounded: the duration is the poll parameter itself, or an expression over it and constants only (a cap, a margin) –
// nothing read from the driver's configuration.
func pollBounded(d *core.Term, want string) bool {
	has := false
	for _, l := range d.Leaves() {
		switch {
		case l == want:
			has = true
		case strings.HasPrefix(l, "recv") || strings.HasPrefix(l, "param:") || strings.HasPrefix(l, "free:") || strings.HasPrefix(l, "global:") || strings.HasPrefix(l, "@"):
			return false
		}
	}
	return has
}

func runC08(c *Ctx) {
	R := c.R
	checkPollDeadline(c)
	checkLookupsConcurrent(c, "R08.6")
	fs := ModReach(c.P, c08Roots(c)...)
	checkPerAttemptDeadlines(c, fs)
	R.Analysed["run_path_functions"] = len(fs)
	nprim := 0
	kinds := map[string]int{}
	for _, f := range fs {
		fn := core.FuncName(f)
		if strings.Contains(fn, "Mock") {
			continue
		}
		for _, b := range f.Blocks {
			for _, in := range b.Instrs {
				switch x := in.(type) {
				case *ssa.UnOp:
					if x.Op != token.ARROW {
						continue
					}
					nprim++
					kinds["chan-recv"]++
					key := fmt.Sprintf("%s#recv[%s]", fn, chanName(c, x.X))
					ok, why := chanGoverned(c, x.X, f)
					R.Check(ok, "R08.1", key, x.Pos(), fn, "channel receive is bounded: "+why, "channel receive can block for ever: "+why)
				case *ssa.Select:
					nprim++
					kinds["select"]++
					R.Check(!x.Blocking || hasTimerCase(c, x), "R08.1", fmt.Sprintf("%s#select", fn), x.Pos(), fn, "select has a default or a timer case", "blocking select without a timer/context case")
				case *ssa.Call:
					if k, ok, why := blockingCall(c, f, x); k != "" {
						nprim++
						kinds[k]++
						key := fmt.Sprintf("%s#%s", fn, k)
						R.Check(ok, "R08.1", key, x.Pos(), fn, k+" is governed: "+why, k+" is not governed by any finite deadline: "+why)
					}
				}
			}
		}
	}
	R.Extra["blocking_primitives"] = kinds
	R.Floor("R08.1:blocking-primitives", nprim, 15)
	checkLoops(c, fs)
	checkAttachOrder(c, "R08.3")
	checkCancellation(c)
}

func chanName(c *Ctx, v ssa.Value) string {
	d := c.P.Def(v)
	switch x := d.(type) {
	case *ssa.MakeChan:
		// the variable it is stored in
		for _, r := range *x.Referrers() {
			if st, ok := r.(*ssa.Store); ok {
				if a, ok := st.Addr.(*ssa.Alloc); ok {
					return a.Comment
				}
			}
		}
		return "chan"
	case *ssa.Call:
		if cal := x.Common().StaticCallee(); cal != nil {
			return cal.String()
		}
	}
	return "chan"
}

// chanGoverned: a timer channel, or a channel that a producer goroutine closes in a defer.
func chanGoverned(c *Ctx, v ssa.Value, f *ssa.Function) (bool, string) {
	// timer.C / ticker.C: the channel field of a time.Timer or time.Ticker
	if ld, ok := v.(*ssa.UnOp); ok {
		if fa, ok := ld.X.(*ssa.FieldAddr); ok && core.FieldName(fa) == "C" {
			if pt, ok := fa.X.Type().Underlying().(*types.Pointer); ok {
				if ts := pt.Elem().String(); ts == "time.Timer" || ts == "time.Ticker" {
					return true, "timer channel " + ts + ".C"
				}
			}
		}
	}
	d := c.P.DefX(v)
	switch x := d.(type) {
	case *ssa.Call:
		if cal := x.Common().StaticCallee(); cal != nil && (cal.String() == "time.After" || cal.String() == "(*time.Timer).C") {
			return true, "timer channel " + cal.String()
		}
		if x.Common().IsInvoke() && x.Common().Method.Name() == "Done" {
			ok, why := ctxDeadline(c, x.Common().Value, f, 0)
			return ok, "ctx.Done() of " + why
		}
	case *ssa.MakeChan:
		// closed in a deferred call of some goroutine of the enclosing function
		root := x.Parent()
		for root.Parent() != nil {
			root = root.Parent()
		}
		// the producer may have been split off into a function of the same package that receives the channel as a parameter
		var producers []*ssa.Function
		for _, g := range ModReach(c.P, root) {
			if core.FuncPkg(g) == core.FuncPkg(root) {
				producers = append(producers, g)
			}
		}
		for _, g := range producers {
			for _, b := range g.Blocks {
				for _, in := range b.Instrs {
					call, ok := in.(*ssa.Call)
					if !ok {
						continue
					}
					if bi, ok := call.Common().Value.(*ssa.Builtin); ok && bi.Name() == "close" && c.P.DefX(call.Common().Args[0]) == ssa.Value(x) {
						// the closing closure is invoked from a defer (directly or through sync.Once.Do)
						if deferredIn(c, g) {
							return true, "closed by a deferred call of the producer goroutine (" + core.FuncName(g) + ")"
						}
					}
				}
			}
		}
		return false, "no producer closes it in a defer"
	}
	return false, fmt.Sprintf("channel of unknown origin (%T)", d)
}

// deferredIn: closure g is passed to a deferred call (e.g. defer once.Do(g)) or is itself deferred in its parent.
func deferredIn(c *Ctx, g *ssa.Function) bool { return deferredInDepth(c, g, 0) }

func deferredInDepth(c *Ctx, g *ssa.Function, depth int) bool {
	if depth > 3 {
		return false
	}
	// g is a named function / method that some module function defers (defer s.markSent())
	if g.Parent() == nil {
		for _, f := range c.P.ModFuncs {
			for _, b := range f.Blocks {
				for _, in := range b.Instrs {
					if df, ok := in.(*ssa.Defer); ok && df.Call.StaticCallee() == g {
						return true
					}
				}
			}
		}
		return false
	}
	par := g.Parent()
	// g is called from (or handed to a call such as once.Do inside) a closure that is itself deferred: defer signal(); signal = func() { once.Do(g) }
	for _, b := range par.Blocks {
		for _, in := range b.Instrs {
			call, ok := in.(*ssa.Call)
			if !ok {
				continue
			}
			vals := append([]ssa.Value{call.Common().Value}, call.Common().Args...)
			for _, v := range vals {
				if mc, ok := v.(*ssa.MakeClosure); ok && mc.Fn == ssa.Value(g) && deferredInDepth(c, par, depth+1) {
					return true
				}
			}
		}
	}
	for _, b := range par.Blocks {
		for _, in := range b.Instrs {
			df, ok := in.(*ssa.Defer)
			if !ok {
				continue
			}
			vals := append([]ssa.Value{df.Call.Value}, df.Call.Args...)
			for _, v := range vals {
				if mc, ok := v.(*ssa.MakeClosure); ok && mc.Fn == ssa.Value(g) {
					return true
				}
				if fnv, ok := v.(*ssa.Function); ok && fnv == g {
					return true
				}
			}
		}
	}
	return false
}

func hasTimerCase(c *Ctx, s *ssa.Select) bool {
	for _, st := range s.States {
		if ok, _ := chanGoverned(c, st.Chan, s.Parent()); ok {
			return true
		}
	}
	return false
}

// sourceReadWrapper: g is a module function that reads (Source.Read) from a packets.Source it received as a parameter, directly
// or by handing that parameter to another such function; returns the index of that parameter among the call arguments, or -1.
func sourceReadWrapper(c *Ctx, g *ssa.Function, depth int) int {
	if g == nil || !core.InModule(g) || len(g.Blocks) == 0 || depth > 3 {
		return -1
	}
	for i, pa := range g.Params {
		if !isNamed(pa.Type(), core.ModulePath+"/packets", "Source") {
			continue
		}
		for _, b := range g.Blocks {
			for _, in := range b.Instrs {
				call, ok := in.(*ssa.Call)
				if !ok {
					continue
				}
				cc := call.Common()
				if cc.IsInvoke() && cc.Value == ssa.Value(pa) && cc.Method.Name() == "Read" {
					return i
				}
				if h := cc.StaticCallee(); h != nil && h != g {
					if k := sourceReadWrapper(c, h, depth+1); k >= 0 && k < len(cc.Args) && cc.Args[k] == ssa.Value(pa) {
						return i
					}
				}
			}
		}
	}
	return -1
}

// blockingCall classifies a call; kind == "" when it is not a blocking primitive.
func blockingCall(c *Ctx, f *ssa.Function, call *ssa.Call) (kind string, ok bool, why string) {
	cc := call.Common()
	name := core.CalleeName(cc)
	exc := func(k string) (string, bool, string) {
		return k, true, "reviewed exception: " + blockingExceptions[k]
	}
	switch {
	case name == "iface:packets.Source.Read" || sourceReadWrapper(c, cc.StaticCallee(), 0) >= 0:
		var src ssa.Value
		if cc.IsInvoke() {
			src = cc.Value
		} else {
			src = cc.Args[sourceReadWrapper(c, cc.StaticCallee(), 0)]
		}
		if pa, isParam := src.(*ssa.Parameter); isParam && pa.Parent() == f {
			return "", false, "" // f is itself a wrapper around the read: governed at its call sites
		}
		okd, w := readDeadline(c, f, call, src)
		return "capture-read", okd, w
	case name == "(*os.File).Read":
		// the file's deadline is forwarded by the sibling SetReadDeadline method
		recvT := ""
		if f.Signature.Recv() != nil {
			recvT = f.Signature.Recv().Type().String()
		}
		for _, g := range c.P.ModFuncs {
			if g.Name() == "SetReadDeadline" && g.Signature.Recv() != nil && g.Signature.Recv().Type().String() == recvT {
				for _, b := range g.Blocks {
					for _, in := range b.Instrs {
						if cl, ok := in.(*ssa.Call); ok && core.CalleeName(cl.Common()) == "(*os.File).SetReadDeadline" {
							if _, isP := cl.Common().Args[1].(*ssa.Parameter); isP {
								return "file-read", true, "deadline forwarded to the same os.File by " + core.FuncName(g)
							}
						}
					}
				}
			}
		}
		return "file-read", false, "no SetReadDeadline forwards a deadline to this file"
	case name == "(*net.Dialer).DialContext":
		okc, w := ctxDeadline(c, cc.Args[1], f, 0)
		// or a dialer timeout
		if !okc {
			if al, ok := cc.Args[0].(*ssa.Alloc); ok {
				for _, r := range *al.Referrers() {
					if fa, ok := r.(*ssa.FieldAddr); ok && core.FieldName(fa) == "Timeout" {
						okc, w = true, "Dialer.Timeout is set"
					}
				}
			}
		}
		return "dial", okc, w
	case name == "net.Dial" || name == "net.DialTimeout":
		if s, ok := constStr(cc.Args[0]); ok && strings.HasPrefix(s, "udp") {
			return exc("net.Dial(udp)")
		}
		return "dial", name == "net.DialTimeout", name
	case name == "(*http.Client).Do":
		okr, w := reqDeadline(c, cc.Args[1], f, 0)
		if !okr && clientTimeout(c) {
			okr, w = true, "http.Client.Timeout is set"
		}
		return "http-request", okr, "request context: " + w + "; client timeout set: " + fmt.Sprint(clientTimeout(c))
	case name == "io.ReadAll":
		// body of a response: governed like the request that produced it
		okr := clientTimeout(c)
		w := "client timeout set: " + fmt.Sprint(okr)
		if !okr {
			// find the Do call in this function and reuse its verdict
			for _, b := range f.Blocks {
				for _, in := range b.Instrs {
					if cl, ok := in.(*ssa.Call); ok && core.CalleeName(cl.Common()) == "(*http.Client).Do" {
						okr, w = reqDeadline(c, cl.Common().Args[1], f, 0)
					}
				}
			}
		}
		return "http-body-read", okr, "response body read: " + w
	case name == "backoff.Retry" || strings.HasPrefix(name, "backoff.Retry["): // not backoff.RetryAfter, which only builds an error value
		okc, w := ctxDeadline(c, cc.Args[0], f, 0)
		return "retry", okc, w
	case name == "dyn" && len(cc.Args) >= 1 && strings.HasSuffix(cc.Args[0].Type().String(), "context.Context"):
		// resolver seam: LookupAddrFn(ctx, ip)
		if ld, ok := cc.Value.(*ssa.UnOp); ok {
			if g, ok := ld.X.(*ssa.Global); ok && g.Name() == "LookupAddrFn" {
				okc, w := ctxDeadline(c, cc.Args[0], f, 0)
				return "resolver-lookup", okc, w
			}
		}
		return "", false, ""
	case name == "net.LookupIP" || name == "net.LookupAddr" || name == "net.LookupHost":
		return exc("net.LookupIP")
	case name == "time.Sleep":
		for _, pa := range firstPath(f, call.Block()) {
			env := core.NewEnv(c.P, pa)
			d := env.Term(cc.Args[0])
			leaves := d.Leaves()
			okd := true
			for _, l := range leaves {
				if !(strings.HasPrefix(l, "param:") || strings.HasPrefix(l, "free:") || strings.HasPrefix(l, "recv") || l[0] >= '0' && l[0] <= '9' || strings.HasPrefix(l, "call:")) {
					okd = false
				}
			}
			return "sleep", okd, "duration " + d.String()
		}
		return "sleep", false, "duration unknown"
	case name == "(*sync.WaitGroup).Wait" || name == "(*errgroup.Group).Wait":
		return "join", true, "the joined goroutines are on the run path and held to the same rules"
	case name == "iface:syscall.RawConn.Write":
		return exc("iface:syscall.RawConn.Write")
	case name == "unix.Sendto":
		return exc("unix.Sendto")
	case name == "iface:syscall.RawConn.Control":
		return exc("iface:syscall.RawConn.Control")
	case name == "syscall.Recvfrom" || name == "unix.Recvfrom":
		nb := false
		if cst, ok := cc.Args[2].(*ssa.Const); ok && cst.Int64()&0x40 != 0 {
			nb = true
		}
		return "recvfrom", nb, fmt.Sprintf("MSG_DONTWAIT=%v", nb)
	case name == "iface:publicip.Fetcher.GetIP":
		return "", false, ""
	}
	return "", false, ""
}

// arming is one place in f where a read deadline is armed: a SetReadDeadline call, or a call of a helper of the module that makes
// that call on every path on which it reports success.
type arming struct {
	at  *ssa.Call  // the call in f
	src *core.Term // the source, in f's vocabulary
	dur *core.Term // the deadline handed over, in f's vocabulary
}

// armingHelperCall: the SetReadDeadline call that module function g makes before each of its success returns, or nil.
func armingHelperCall(g *ssa.Function) *ssa.Call {
	if g == nil || !core.InModule(g) || len(g.Blocks) == 0 {
		return nil
	}
	var set *ssa.Call
	for _, b := range g.Blocks {
		for _, in := range b.Instrs {
			if cl, ok := in.(*ssa.Call); ok && cl.Common().IsInvoke() && cl.Common().Method.Name() == "SetReadDeadline" {
				if set != nil {
					return nil
				}
				set = cl
			}
		}
	}
	if set == nil {
		return nil
	}
	res := g.Signature.Results()
	for _, b := range g.Blocks {
		ret, ok := b.Instrs[len(b.Instrs)-1].(*ssa.Return)
		if !ok || b.Comment == "recover" {
			continue
		}
		if res.Len() > 0 && isErrorType(res.At(res.Len()-1).Type()) {
			if cst, isC := ret.Results[len(ret.Results)-1].(*ssa.Const); !isC || !cst.IsNil() {
				continue // a failure return: the caller leaves
			}
		}
		if !set.Block().Dominates(b) {
			return nil
		}
	}
	return set
}

func deadlineArmings(c *Ctx, f *ssa.Function) []arming {
	var out []arming
	for _, b := range f.Blocks {
		for _, in := range b.Instrs {
			cl, ok := in.(*ssa.Call)
			if !ok {
				continue
			}
			if cl.Common().IsInvoke() {
				if cl.Common().Method.Name() != "SetReadDeadline" {
					continue
				}
				for _, pa := range firstPath(f, cl.Block()) {
					env := core.NewEnv(c.P, pa)
					out = append(out, arming{cl, env.Term(cl.Common().Value), env.Term(cl.Common().Args[0])})
				}
				continue
			}
			g := cl.Common().StaticCallee()
			set := armingHelperCall(g)
			if set == nil {
				continue
			}
			var gsrc, gdur *core.Term
			for _, gpa := range firstPath(g, set.Block()) {
				genv := core.NewEnv(c.P, gpa)
				gsrc, gdur = genv.Term(set.Common().Value), genv.Term(set.Common().Args[0])
			}
			if gsrc == nil {
				continue
			}
			for _, pa := range firstPath(f, cl.Block()) {
				env := core.NewEnv(c.P, pa)
				out = append(out, arming{cl, liftWithEnv(env, gsrc, cl), liftWithEnv(env, gdur, cl)})
			}
		}
	}
	return out
}

// readDeadline: a SetReadDeadline(time.Now().Add(d)) on the same source dominates the read.
func readDeadline(c *Ctx, f *ssa.Function, read *ssa.Call, src ssa.Value) (bool, string) {
	srcKey := ""
	for _, pa := range firstPath(f, read.Block()) {
		env := core.NewEnv(c.P, pa)
		srcKey = env.Term(src).String()
	}
	for _, ar := range deadlineArmings(c, f) {
		if !core.InstrDominates(ar.at, read) || ar.src.String() != srcKey {
			continue
		}
		d := ar.dur
		if d.Op == "call" && d.Name == "(time.Time).Add" && len(d.Args) == 2 && d.Args[0].Op == "call" && d.Args[0].Name == "time.Now" {
			return true, "SetReadDeadline(time.Now().Add(" + d.Args[1].String() + ")) dominates the read"
		}
		return false, "SetReadDeadline is given " + d.String() + ", not time.Now().Add(d)"
	}
	return false, "no SetReadDeadline on the same source dominates the read"
}

// governingDeadline: the SetReadDeadline call on the same source that dominates the read (the one readDeadline accepts).
func governingDeadline(c *Ctx, f *ssa.Function, read *ssa.Call, src ssa.Value) *ssa.Call {
	srcKey := ""
	for _, pa := range firstPath(f, read.Block()) {
		srcKey = core.NewEnv(c.P, pa).Term(src).String()
	}
	var last *ssa.Call
	for _, ar := range deadlineArmings(c, f) {
		if !core.InstrDominates(ar.at, read) || ar.src.String() != srcKey {
			continue
		}
		// the closest one wins: a later dominating call re-arms the earlier
		if last == nil || core.InstrDominates(last, ar.at) {
			last = ar.at
		}
	}
	return last
}

// checkLoops is R08.2.
func checkLoops(c *Ctx, fs []*ssa.Function) {
	R := c.R
	n := 0
	classes := map[string]int{}
	for _, f := range fs {
		fn := core.FuncName(f)
		if strings.Contains(fn, "Mock") {
			continue
		}
		headers := map[*ssa.BasicBlock]map[*ssa.BasicBlock]bool{}
		for _, h := range f.Blocks {
			for _, t := range h.Preds {
				if !h.Dominates(t) {
					continue
				}
				loop := headers[h]
				if loop == nil {
					loop = map[*ssa.BasicBlock]bool{h: true}
					headers[h] = loop
				}
				work := []*ssa.BasicBlock{t}
				for len(work) > 0 {
					x := work[len(work)-1]
					work = work[:len(work)-1]
					if loop[x] {
						continue
					}
					loop[x] = true
					work = append(work, x.Preds...)
				}
			}
		}
		var hs []*ssa.BasicBlock
		for h := range headers {
			hs = append(hs, h)
		}
		sort.Slice(hs, func(i, j int) bool { return hs[i].Index < hs[j].Index })
		for li, h := range hs {
			n++
			loop := headers[h]
			cls, why := classifyLoop(c, f, h, loop)
			key := fmt.Sprintf("%s#loop[%d]", fn, li)
			pos := token.NoPos
			for _, in := range h.Instrs {
				if in.Pos().IsValid() {
					pos = in.Pos()
					break
				}
			}
			if cls == "" {
				if cls2, why2 := structuralLoopClass(c, f, h, loop); cls2 != "" {
					cls, why = cls2, why2
				}
			}
			if cls == "" {
				if reason, ok := loopExceptions[fn]; ok {
					cls, why = "table", reason
				}
			}
			classes[cls]++
			R.Check(cls != "", "R08.2", key, pos, fn, cls+": "+why, "loop has no recognised exit (not counted, no deadline-bearing context test on every iteration, no deadline-governed read that leaves it, not in the reviewed table): "+why)
		}
	}
	R.Extra["loop_classes"] = classes
	R.Floor("R08.2:loops", n, 15)
}

func classifyLoop(c *Ctx, f *ssa.Function, h *ssa.BasicBlock, loop map[*ssa.BasicBlock]bool) (string, string) {
	// exits
	type exit struct {
		from *ssa.BasicBlock
		iff  *ssa.If
	}
	var exits []exit
	for b := range loop {
		for _, s := range b.Succs {
			if !loop[s] {
				iff, _ := b.Instrs[len(b.Instrs)-1].(*ssa.If)
				exits = append(exits, exit{b, iff})
			}
		}
	}
	if len(exits) == 0 {
		return "", "no exit edge at all"
	}
	sort.Slice(exits, func(i, j int) bool { return exits[i].from.Index < exits[j].from.Index })
	var latches []*ssa.BasicBlock
	for _, p := range h.Preds {
		if loop[p] {
			latches = append(latches, p)
		}
	}
	everyIter := func(b *ssa.BasicBlock) bool {
		for _, l := range latches {
			if !b.Dominates(l) {
				return false
			}
		}
		return true
	}
	for _, e := range exits {
		if e.iff == nil {
			continue
		}
		// (a) counted / range
		switch x := e.iff.Cond.(type) {
		case *ssa.BinOp:
			switch x.Op {
			case token.LSS, token.LEQ, token.GTR, token.GEQ:
				for _, opnd := range []ssa.Value{x.X, x.Y} {
					if isInduction(opnd, h) && (e.from == h || everyIter(e.from)) {
						return "counted", "exit on a comparison of an induction variable that steps by a constant"
					}
				}
			}
		case *ssa.Extract:
			if _, ok := x.Tuple.(*ssa.Next); ok {
				return "counted", "range over a map/string"
			}
		}
		// (b) context test on every iteration
		if cc, _ := condCall(e.iff); cc != nil && cc.Common().IsInvoke() && cc.Common().Method.Name() == "Err" && (e.from == h || everyIter(e.from)) {
			if ok, why := ctxDeadline(c, cc.Common().Value, f, 0); ok {
				return "context", "tests ctx.Err() of a deadline-bearing context on every iteration (" + why + ")"
			}
		}
	}
	// (c) deadline-governed read whose failure leaves the loop
	for b := range loop {
		for _, in := range b.Instrs {
			call, ok := in.(*ssa.Call)
			if !ok {
				continue
			}
			name := core.CalleeName(call.Common())
			k, okd, why := blockingCall(c, f, call)
			if k != "capture-read" && name != "(*os.File).Read" || !okd {
				continue
			}
			// the deadline that bounds this loop is armed ONCE, before the loop: a deadline re-armed inside it is pushed out by
			// every packet that arrives and is skipped, so a trickle of unrelated packets keeps the loop alive for ever
			if k == "capture-read" {
				src := call.Common().Value
				if !call.Common().IsInvoke() {
					if idx := sourceReadWrapper(c, call.Common().StaticCallee(), 0); idx >= 0 {
						src = call.Common().Args[idx]
					}
				}
				if dl := governingDeadline(c, f, call, src); dl != nil && loop[dl.Block()] {
					return "", "the read deadline that is this loop's only bound is re-armed on every iteration (" + c.P.PosStr(dl.Pos()) + "): each packet that arrives and is skipped pushes it out, so unrelated traffic keeps the loop alive for ever"
				}
			}
			// some exit is control-dependent on this call's error
			for _, e := range exits {
				if e.iff == nil {
					continue
				}
				cnd := e.iff.Cond
				dep := false
				var visit func(v ssa.Value, d int)
				visit = func(v ssa.Value, d int) {
					if d > 4 || dep {
						return
					}
					switch y := v.(type) {
					case *ssa.Extract:
						if y.Tuple == ssa.Value(call) {
							dep = true
						}
					case *ssa.Call:
						if y == call {
							dep = true
						}
						for _, a := range y.Common().Args {
							visit(a, d+1)
						}
					case *ssa.BinOp:
						visit(y.X, d+1)
						visit(y.Y, d+1)
					case *ssa.UnOp:
						visit(y.X, d+1)
					case *ssa.Phi:
						for _, ed := range y.Edges {
							visit(ed, d+1)
						}
					}
				}
				visit(cnd, 0)
				if dep && everyIter(b) {
					// ReadAndParse hands the deadline over wrapped in the retryable no-packet class: a
					// CheckProbeRetryable→continue test evaluated BEFORE the deadline test swallows it
					if k == "capture-read" && !call.Common().IsInvoke() {
						if sw := deadlineSwallowed(f, loop, call); sw != "" {
							return "", sw
						}
					}
					return "governed-read", "every iteration performs a deadline-governed read (" + why + ") whose error leaves the loop"
				}
			}
		}
	}
	return "", fmt.Sprintf("%d exit(s), none counted / context / governed read", len(exits))
}

// isInduction: v is a header phi (or phi ± const) whose back-edge value is itself ± const.
func isInduction(v ssa.Value, h *ssa.BasicBlock) bool {
	if bo, ok := v.(*ssa.BinOp); ok && (bo.Op == token.ADD || bo.Op == token.SUB) {
		if _, isC := bo.Y.(*ssa.Const); isC {
			v = bo.X
		}
	}
	if cv, ok := v.(*ssa.Convert); ok {
		v = cv.X
	}
	// per-iteration loop variable captured by a closure (Go 1.22 semantics): *phi(alloc0, allocNext),
	// where allocNext is initialised from the previous copy and then stepped by a constant
	if ld, ok := v.(*ssa.UnOp); ok && ld.Op == token.MUL {
		if pphi, ok := ld.X.(*ssa.Phi); ok && pphi.Block() == h {
			for _, e := range pphi.Edges {
				al, ok := e.(*ssa.Alloc)
				if !ok || al.Block() == nil || !h.Dominates(al.Block()) || al.Block() == h {
					continue
				}
				for _, r := range *al.Referrers() {
					if st, ok := r.(*ssa.Store); ok && st.Addr == ssa.Value(al) {
						if bo, ok := st.Val.(*ssa.BinOp); ok && (bo.Op == token.ADD || bo.Op == token.SUB) {
							if _, isC := bo.Y.(*ssa.Const); isC {
								if l2, ok := bo.X.(*ssa.UnOp); ok && l2.X == ssa.Value(al) {
									return true
								}
							}
						}
					}
				}
			}
		}
	}
	phi, ok := v.(*ssa.Phi)
	if !ok || phi.Block() != h {
		return false
	}
	for _, e := range phi.Edges {
		if bo, ok := e.(*ssa.BinOp); ok && (bo.Op == token.ADD || bo.Op == token.SUB) && bo.X == ssa.Value(phi) {
			if _, isC := bo.Y.(*ssa.Const); isC {
				return true
			}
		}
	}
	return false
}

// checkCancellation is R08.4.
func checkCancellation(c *Ctx) {
	R := c.R
	for _, e := range Engines(c.P) {
		f := e.Fn
		// a WithTimeout derived from the ctx parameter
		derived := false
		for _, b := range f.Blocks {
			for _, in := range b.Instrs {
				if call, ok := in.(*ssa.Call); ok && call.Common().StaticCallee() != nil && call.Common().StaticCallee().String() == "context.WithTimeout" {
					if p, ok := c.P.Def(call.Common().Args[0]).(*ssa.Parameter); ok && p.Name() == "ctx" {
						derived = true
					}
				}
			}
		}
		R.Check(derived, "R08.4", e.Name+"#timeout-from-caller", f.Pos(), e.Name, "the engine's timeout context derives from the caller's ctx", "the engine's timeout context does not derive from the caller's ctx: external cancellation is not seen")
		rps, _ := core.ReturnPaths(c.P, f, 20000)
		nsucc, ncancel := 0, 0
		for _, rp := range rps {
			if rp.Ret.Block().Comment == "recover" {
				continue
			}
			isCtxErr := func(t *core.Term) bool {
				return t.Op == "call" && strings.HasSuffix(t.Name, "context.Context.Err") && len(t.Args) == 1 && (t.Args[0].Op == "param" || t.Args[0].Op == "shared" || strings.Contains(t.Args[0].String(), "ctx"))
			}
			if rp.Results[1].IsConst("nil") {
				nsucc++
				// the LAST test of the caller's context on the path must have found it alive
				f1, s1 := false, false
				for _, a := range rp.Atoms {
					nn := a.Norm()
					t := nn.Cond
					if t.Op == "binop" && t.Name == "==" && t.Args[1].IsConst("nil") && isCtxErr(t.Args[0]) && t.Args[0].Args[0].String() == "param:ctx" {
						f1, s1 = true, nn.Sign
					}
				}
				if !(f1 && s1) {
					R.FailPath("R08.4", e.Name+"#success-after-cancel-test", rp.Ret.Pos(), e.Name, "a success return is reachable without ctx.Err() == nil having been established: a cancelled run reports a result", rp.Path.String())
				}
			} else if isCtxErr(rp.Results[1]) && rp.Results[1].Args[0].String() == "param:ctx" {
				ncancel++
			}
		}
		R.Check(nsucc > 0 && ncancel > 0, "R08.4", e.Name+"#reports-cancellation", f.Pos(), e.Name, "cancellation is reported as ctx.Err()", fmt.Sprintf("engine has %d success paths and %d paths returning ctx.Err(): cancellation is not reported", nsucc, ncancel))
		if nsucc > 0 {
			R.OK("R08.4", e.Name+"#success-after-cancel-test", f.Pos(), e.Name, fmt.Sprintf("%d success paths, all behind ctx.Err() == nil", nsucc))
		}
	}
}

// deadlineSwallowed: in a loop that relies on the read deadline to end, the errors.Is(err, os.ErrDeadlineExceeded)
// exit must be tested before any CheckProbeRetryable(err) → continue, because ReadAndParse reports an expired
// deadline as a (retryable) ReceiveProbeNoPktError.
func deadlineSwallowed(f *ssa.Function, loop map[*ssa.BasicBlock]bool, read *ssa.Call) string {
	var deadlineIf, retryIf *ssa.BasicBlock
	for b := range loop {
		iff, ok := b.Instrs[len(b.Instrs)-1].(*ssa.If)
		if !ok {
			continue
		}
		cc, _ := condCall(iff)
		if cc == nil || cc.Common().StaticCallee() == nil {
			continue
		}
		switch cc.Common().StaticCallee().String() {
		case "errors.Is":
			if len(cc.Common().Args) == 2 {
				if ld, ok := cc.Common().Args[1].(*ssa.UnOp); ok {
					if g, ok := ld.X.(*ssa.Global); ok && g.Name() == "ErrDeadlineExceeded" {
						deadlineIf = b
					}
				}
			}
		default:
			if calleeIs(cc, "common.CheckProbeRetryable") {
				retryIf = b
			}
		}
	}
	if deadlineIf == nil {
		return "" // the loop leaves on any read error (err != nil): nothing can swallow the deadline
	}
	// the consumer tests errors.Is(err, os.ErrDeadlineExceeded) on the producer's result: the producer's deadline
	// branch must keep the read error in the chain (producer/consumer contract across the two functions)
	if why := deadlineChainDropped(read.Common().StaticCallee()); why != "" {
		return why
	}
	if retryIf != nil && retryIf != deadlineIf && retryIf.Dominates(deadlineIf) {
		return "the loop relies on the read deadline to end, but CheckProbeRetryable(err) → continue is tested before errors.Is(err, os.ErrDeadlineExceeded): ReadAndParse reports an expired deadline as a retryable no-packet error, so the timeout exit is unreachable and the loop spins for ever on a silent source"
	}
	return ""
}

// deadlineChainDropped inspects the producer (packets.ReadAndParse): on the true edge of its own
// errors.Is(err, os.ErrDeadlineExceeded) test the returned error must still contain err (returned as is, stored in the
// Err field of the returned struct literal, or passed to fmt.Errorf under a %w verb). Otherwise a caller that leaves its
// loop on errors.Is(result, os.ErrDeadlineExceeded) never sees the deadline.
func deadlineChainDropped(g *ssa.Function) string {
	if g == nil || len(g.Blocks) == 0 {
		return ""
	}
	found := false
	for _, b := range g.Blocks {
		iff, ok := b.Instrs[len(b.Instrs)-1].(*ssa.If)
		if !ok {
			continue
		}
		cc, ti := condCall(iff)
		if cc == nil || cc.Common().StaticCallee() == nil || cc.Common().StaticCallee().String() != "errors.Is" || len(cc.Common().Args) != 2 {
			continue
		}
		ld, ok := cc.Common().Args[1].(*ssa.UnOp)
		if !ok {
			continue
		}
		if gl, ok := ld.X.(*ssa.Global); !ok || gl.Name() != "ErrDeadlineExceeded" {
			continue
		}
		found = true
		errv := cc.Common().Args[0]
		tb := b.Succs[ti]
		ret, ok := tb.Instrs[len(tb.Instrs)-1].(*ssa.Return)
		if !ok {
			continue // not an immediate return: some later statement decides; not modelled, stay silent
		}
		for _, r := range ret.Results {
			if !isErrorType(r.Type()) {
				continue
			}
			if !wrapsValue(r, errv, 0) {
				return "the read helper " + core.FuncName(g) + " reports an expired read deadline with an error that no longer wraps the read error (errors.Is(err, os.ErrDeadlineExceeded) is false for it), but this loop leaves only on that test: on a silent source it spins for ever"
			}
		}
	}
	_ = found
	return ""
}

// wrapsValue: r is v, a struct literal with v stored in one of its fields, or fmt.Errorf(... %w ..., v).
func wrapsValue(r, v ssa.Value, d int) bool {
	if d > 4 {
		return false
	}
	if r == v {
		return true
	}
	switch x := r.(type) {
	case *ssa.MakeInterface:
		return wrapsValue(x.X, v, d+1)
	case *ssa.ChangeInterface:
		return wrapsValue(x.X, v, d+1)
	case *ssa.Alloc:
		for _, ref := range *x.Referrers() {
			if fa, ok := ref.(*ssa.FieldAddr); ok {
				for _, r2 := range *fa.Referrers() {
					if st, ok := r2.(*ssa.Store); ok && st.Addr == ssa.Value(fa) && wrapsValue(st.Val, v, d+1) {
						return true
					}
				}
			}
		}
	case *ssa.Call:
		if cal := x.Common().StaticCallee(); cal != nil && cal.String() == "fmt.Errorf" {
			if cst, ok := x.Common().Args[0].(*ssa.Const); ok && strings.Contains(cst.Value.ExactString(), "%w") {
				// varargs slice: stores into the backing array
				if sl, ok := x.Common().Args[1].(*ssa.Slice); ok {
					if al, ok := sl.X.(*ssa.Alloc); ok {
						for _, ref := range *al.Referrers() {
							if ia, ok := ref.(*ssa.IndexAddr); ok {
								for _, r2 := range *ia.Referrers() {
									if st, ok := r2.(*ssa.Store); ok && wrapsValue(st.Val, v, d+1) {
										return true
									}
								}
							}
						}
					}
				}
			}
		}
	}
	return false
}

// structuralLoopClass recognises two loop shapes by what they do rather than by where they are:
//   - "consumes": the loop condition tests len(x) of a loop-carried slice x that every iteration re-slices forward by a positive
//     constant (x = x[k:]): the length strictly decreases;
//   - "nonblocking-drain": the loop calls Recvfrom with MSG_DONTWAIT and is left when that call's byte count is negative: it ends
//     as soon as the queue is empty (that the queue cannot grow meanwhile is R08.3's attach order).
func structuralLoopClass(c *Ctx, f *ssa.Function, h *ssa.BasicBlock, loop map[*ssa.BasicBlock]bool) (string, string) {
	for b := range loop {
		for _, in := range b.Instrs {
			switch x := in.(type) {
			case *ssa.Phi:
				if b != h {
					continue
				}
				if _, isSlice := x.Type().Underlying().(*types.Slice); !isSlice {
					continue
				}
				shrinks := false
				for _, e := range x.Edges {
					if sl, ok := e.(*ssa.Slice); ok && sl.X == ssa.Value(x) && sl.High == nil {
						if cst, ok := sl.Low.(*ssa.Const); ok && cst.Value != nil && cst.Int64() > 0 && loop[sl.Block()] {
							shrinks = true
						}
					}
				}
				if !shrinks {
					continue
				}
				// some exit condition of the loop tests len(x)
				for lb := range loop {
					iff, ok := lb.Instrs[len(lb.Instrs)-1].(*ssa.If)
					if !ok {
						continue
					}
					if bo, ok := iff.Cond.(*ssa.BinOp); ok {
						for _, side := range []ssa.Value{bo.X, bo.Y} {
							if call, ok := side.(*ssa.Call); ok {
								if bi, ok := call.Common().Value.(*ssa.Builtin); ok && bi.Name() == "len" && call.Common().Args[0] == ssa.Value(x) && (!loop[lb.Succs[0]] || !loop[lb.Succs[1]]) {
									return "consumes", "every iteration re-slices the tested slice forward by a positive constant"
								}
							}
						}
					}
				}
			case *ssa.Call:
				cal := x.Common().StaticCallee()
				if cal == nil || cal.Name() != "Recvfrom" || len(x.Common().Args) < 3 {
					continue
				}
				flags, ok := x.Common().Args[2].(*ssa.Const)
				if !ok || flags.Value == nil || flags.Int64()&0x40 == 0 { // MSG_DONTWAIT
					continue
				}
				// an exit of the loop depends on the call's first result
				for lb := range loop {
					iff, ok := lb.Instrs[len(lb.Instrs)-1].(*ssa.If)
					if !ok || (loop[lb.Succs[0]] && loop[lb.Succs[1]]) {
						continue
					}
					dep := false
					var visit func(v ssa.Value, d int)
					visit = func(v ssa.Value, d int) {
						if d > 5 || dep || v == nil {
							return
						}
						switch y := v.(type) {
						case *ssa.Extract:
							if y.Tuple == ssa.Value(x) && y.Index == 0 {
								dep = true
							}
						case *ssa.BinOp:
							visit(y.X, d+1)
							visit(y.Y, d+1)
						case *ssa.Phi:
							for _, e := range y.Edges {
								visit(e, d+1)
							}
						case *ssa.UnOp:
							visit(y.X, d+1)
							if a, ok := y.X.(*ssa.Alloc); ok {
								for _, r := range *a.Referrers() {
									if st, ok := r.(*ssa.Store); ok && st.Addr == ssa.Value(a) {
										visit(st.Val, d+1)
									}
								}
							}
						}
					}
					visit(iff.Cond, 0)
					if dep {
						return "nonblocking-drain", "drains with MSG_DONTWAIT and leaves when nothing is queued"
					}
				}
			}
		}
	}
	return "", ""
}
