// Package cbpf is the checker's own reading of classic BPF (analysis A6): a
// decoder for raw instructions and an interpreter for loop-free filter
// programs, written from the BPF documentation (Linux networking/filter.txt,
// McCanne & Jacobson 1993), independent of golang.org/x/net/bpf.
package cbpf

import "fmt"

// Ins is one decoded instruction.
type Ins struct {
	Kind string // ldabs ldind ldxmsh ldimm ldximm jeq jgt jge jset ja retk reta tax txa alu
	Size int    // 1 2 4 for loads
	K    uint32
	Jt   int
	Jf   int
	Op   string // for alu
}

func (i Ins) String() string {
	switch i.Kind {
	case "ldabs":
		return fmt.Sprintf("ld%d [%d]", i.Size, i.K)
	case "ldind":
		return fmt.Sprintf("ld%d [x+%d]", i.Size, i.K)
	case "ldxmsh":
		return fmt.Sprintf("ldxb 4*([%d]&0xf)", i.K)
	case "jeq", "jgt", "jge", "jset":
		return fmt.Sprintf("%s #%#x jt %d jf %d", i.Kind, i.K, i.Jt, i.Jf)
	case "retk":
		return fmt.Sprintf("ret #%d", i.K)
	}
	return fmt.Sprintf("%s k=%#x", i.Kind, i.K)
}

// Decode turns a raw (op, jt, jf, k) quadruple into an Ins.
func Decode(op uint16, jt, jf uint8, k uint32) (Ins, error) {
	class := op & 0x07
	switch class {
	case 0x00: // LD
		size := map[uint16]int{0x00: 4, 0x08: 2, 0x10: 1}[op&0x18]
		if op&0x18 == 0x18 {
			return Ins{}, fmt.Errorf("bad load size in op %#x", op)
		}
		switch op & 0xe0 {
		case 0x20:
			return Ins{Kind: "ldabs", Size: size, K: k}, nil
		case 0x40:
			return Ins{Kind: "ldind", Size: size, K: k}, nil
		case 0x00:
			return Ins{Kind: "ldimm", K: k}, nil
		}
		return Ins{}, fmt.Errorf("unsupported LD mode in op %#x", op)
	case 0x01: // LDX
		switch op & 0xe0 {
		case 0xa0:
			if op&0x18 != 0x10 {
				return Ins{}, fmt.Errorf("MSH must be a byte load, op %#x", op)
			}
			return Ins{Kind: "ldxmsh", Size: 1, K: k}, nil
		case 0x00:
			return Ins{Kind: "ldximm", K: k}, nil
		}
		return Ins{}, fmt.Errorf("unsupported LDX mode in op %#x", op)
	case 0x05: // JMP
		if op&0x08 != 0 {
			return Ins{}, fmt.Errorf("jump on X not supported, op %#x", op)
		}
		switch op & 0xf0 {
		case 0x00:
			return Ins{Kind: "ja", K: k}, nil
		case 0x10:
			return Ins{Kind: "jeq", K: k, Jt: int(jt), Jf: int(jf)}, nil
		case 0x20:
			return Ins{Kind: "jgt", K: k, Jt: int(jt), Jf: int(jf)}, nil
		case 0x30:
			return Ins{Kind: "jge", K: k, Jt: int(jt), Jf: int(jf)}, nil
		case 0x40:
			return Ins{Kind: "jset", K: k, Jt: int(jt), Jf: int(jf)}, nil
		}
		return Ins{}, fmt.Errorf("unsupported jump op %#x", op)
	case 0x06: // RET
		switch op & 0x18 {
		case 0x00:
			return Ins{Kind: "retk", K: k}, nil
		case 0x10:
			return Ins{Kind: "reta"}, nil
		}
		return Ins{}, fmt.Errorf("unsupported RET source in op %#x", op)
	case 0x07: // MISC
		if op&0xf8 == 0x00 {
			return Ins{Kind: "tax"}, nil
		}
		if op&0xf8 == 0x80 {
			return Ins{Kind: "txa"}, nil
		}
	}
	return Ins{}, fmt.Errorf("unsupported opcode %#x", op)
}

// Validate checks what the kernel verifier checks for these programs: forward,
// in-range jumps and a return at the end (so the program is a DAG).
func Validate(prog []Ins) error {
	if len(prog) == 0 {
		return fmt.Errorf("empty program")
	}
	for pc, in := range prog {
		switch in.Kind {
		case "jeq", "jgt", "jge", "jset":
			if pc+1+in.Jt >= len(prog) || pc+1+in.Jf >= len(prog) {
				return fmt.Errorf("jump out of range at %d", pc)
			}
		case "ja":
			if pc+1+int(in.K) >= len(prog) {
				return fmt.Errorf("jump out of range at %d", pc)
			}
		}
	}
	last := prog[len(prog)-1]
	if last.Kind != "retk" && last.Kind != "reta" {
		return fmt.Errorf("program does not end in a return")
	}
	return nil
}

// Run interprets the program on a frame; the result is the number of bytes to
// keep (0 = drop). A load beyond the end of the frame drops it, as in the kernel.
func Run(prog []Ins, frame []byte) uint32 {
	var a, x uint32
	load := func(off uint32, size int) (uint32, bool) {
		if uint64(off)+uint64(size) > uint64(len(frame)) {
			return 0, false
		}
		switch size {
		case 1:
			return uint32(frame[off]), true
		case 2:
			return uint32(frame[off])<<8 | uint32(frame[off+1]), true
		default:
			return uint32(frame[off])<<24 | uint32(frame[off+1])<<16 | uint32(frame[off+2])<<8 | uint32(frame[off+3]), true
		}
	}
	for pc := 0; pc < len(prog); pc++ {
		in := prog[pc]
		switch in.Kind {
		case "ldabs":
			v, ok := load(in.K, in.Size)
			if !ok {
				return 0
			}
			a = v
		case "ldind":
			if uint64(x)+uint64(in.K) > 0xffffffff {
				return 0
			}
			v, ok := load(x+in.K, in.Size)
			if !ok {
				return 0
			}
			a = v
		case "ldxmsh":
			v, ok := load(in.K, 1)
			if !ok {
				return 0
			}
			x = 4 * (v & 0xf)
		case "ldimm":
			a = in.K
		case "ldximm":
			x = in.K
		case "tax":
			x = a
		case "txa":
			a = x
		case "ja":
			pc += int(in.K)
		case "jeq":
			if a == in.K {
				pc += in.Jt
			} else {
				pc += in.Jf
			}
		case "jgt":
			if a > in.K {
				pc += in.Jt
			} else {
				pc += in.Jf
			}
		case "jge":
			if a >= in.K {
				pc += in.Jt
			} else {
				pc += in.Jf
			}
		case "jset":
			if a&in.K != 0 {
				pc += in.Jt
			} else {
				pc += in.Jf
			}
		case "retk":
			return in.K
		case "reta":
			return a
		default:
			return 0
		}
	}
	return 0
}

// LoadSites lists the (mode, offset, size) triples a program loads, for deriving length thresholds.
func LoadSites(prog []Ins) [][3]int {
	var out [][3]int
	for _, in := range prog {
		switch in.Kind {
		case "ldabs":
			out = append(out, [3]int{0, int(in.K), in.Size})
		case "ldind":
			out = append(out, [3]int{1, int(in.K), in.Size})
		case "ldxmsh":
			out = append(out, [3]int{0, int(in.K), 1})
		}
	}
	return out
}
