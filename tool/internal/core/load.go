// Package core holds the shared analyses of the trcheck static checker:
// loading /repo (A0), origin terms (A2), path enumeration (A1), call-graph
// helpers (A8), error-class summaries (A3), locksets (A5) and reporting.
package core

import (
	"fmt"
	"go/token"
	"go/types"
	"os"
	"sort"
	"strings"

	"golang.org/x/tools/go/callgraph"
	"golang.org/x/tools/go/callgraph/cha"
	"golang.org/x/tools/go/callgraph/vta"
	"golang.org/x/tools/go/packages"
	"golang.org/x/tools/go/ssa"
	"golang.org/x/tools/go/ssa/ssautil"
)

// ModulePath is the import path prefix of the analysed module.
const ModulePath = "github.com/DataDog/datadog-traceroute"

// Prog is one loaded build (one GOOS/GOARCH) of /repo.
type Prog struct {
	GOOS     string
	Dir      string
	Fset     *token.FileSet
	Pkgs     []*packages.Package // module root packages
	AllPkgs  int
	SSA      *ssa.Program
	SSAPkgs  map[string]*ssa.Package // by short path relative to module ("common", "packets", "" for root)
	ModFuncs []*ssa.Function         // every function (incl. anonymous) whose package is in the module
	AllFuncs map[*ssa.Function]bool
	cg       *callgraph.Graph

	fieldStores     map[string][]*ssa.Store
	structClobbered map[string]bool
}

// GoBin is the toolchain that can type-check /repo (go.mod asks for go >= 1.25.6).
const GoBin = "/opt/veriftools/go1.26.8/bin"

// RepoDir returns the directory of the analysed tree.
func RepoDir() string {
	if d := os.Getenv("TRCHECK_REPO"); d != "" {
		return d
	}
	return "/repo"
}

// Load type-checks and SSA-builds the working tree for the given GOOS.
// overlay may be nil; it maps absolute file names to replacement content.
func Load(goos string, overlay map[string][]byte) (*Prog, error) {
	dir := RepoDir()
	// go/packages resolves the go command through this process's PATH
	if !strings.HasPrefix(os.Getenv("PATH"), GoBin+":") {
		os.Setenv("PATH", GoBin+":"+os.Getenv("PATH"))
	}
	env := append(os.Environ(),
		"PATH="+GoBin+":"+os.Getenv("PATH"),
		"GOFLAGS=-mod=readonly", "GOWORK=off", "CGO_ENABLED=0",
		"GOOS="+goos, "GOARCH=amd64", "GOPROXY=off", "GOSUMDB=off", "GOTOOLCHAIN=local")
	cfg := &packages.Config{
		Mode:    packages.LoadAllSyntax,
		Dir:     dir,
		Env:     env,
		Tests:   false,
		Overlay: overlay,
	}
	pkgs, err := packages.Load(cfg, "./...")
	if err != nil {
		return nil, fmt.Errorf("packages.Load: %w", err)
	}
	if len(pkgs) == 0 {
		return nil, fmt.Errorf("no packages loaded from %s", dir)
	}
	var errs []string
	n := 0
	packages.Visit(pkgs, nil, func(p *packages.Package) {
		n++
		for _, e := range p.Errors {
			errs = append(errs, e.Error())
		}
	})
	if len(errs) > 0 {
		sort.Strings(errs)
		if len(errs) > 10 {
			errs = errs[:10]
		}
		return nil, fmt.Errorf("type/load errors (%s): %s", goos, strings.Join(errs, "; "))
	}
	p := &Prog{GOOS: goos, Dir: dir, Fset: pkgs[0].Fset, AllPkgs: n, SSAPkgs: map[string]*ssa.Package{}}
	for _, pk := range pkgs {
		if pk.PkgPath == ModulePath || strings.HasPrefix(pk.PkgPath, ModulePath+"/") {
			p.Pkgs = append(p.Pkgs, pk)
		}
	}
	sort.Slice(p.Pkgs, func(i, j int) bool { return p.Pkgs[i].PkgPath < p.Pkgs[j].PkgPath })
	prog, _ := ssautil.AllPackages(pkgs, ssa.InstantiateGenerics)
	prog.Build()
	p.SSA = prog
	for _, pk := range p.Pkgs {
		sp := prog.Package(pk.Types)
		if sp == nil {
			return nil, fmt.Errorf("no SSA package for %s", pk.PkgPath)
		}
		p.SSAPkgs[strings.TrimPrefix(strings.TrimPrefix(pk.PkgPath, ModulePath), "/")] = sp
	}
	p.AllFuncs = ssautil.AllFunctions(prog)
	for f := range p.AllFuncs {
		if InModule(f) {
			p.ModFuncs = append(p.ModFuncs, f)
		}
	}
	sort.Slice(p.ModFuncs, func(i, j int) bool {
		a, b := p.ModFuncs[i], p.ModFuncs[j]
		if a.String() != b.String() {
			return a.String() < b.String()
		}
		return a.Pos() < b.Pos()
	})
	return p, nil
}

// FuncPkg returns the types.Package a function belongs to (following
// anonymous functions to their parent, instantiations to their origin).
func FuncPkg(f *ssa.Function) *types.Package {
	for f != nil {
		if f.Pkg != nil {
			return f.Pkg.Pkg
		}
		if o := f.Origin(); o != nil && o != f {
			f = o
			continue
		}
		if f.Parent() != nil {
			f = f.Parent()
			continue
		}
		if f.Object() != nil {
			return f.Object().Pkg()
		}
		return nil
	}
	return nil
}

// InModule reports whether the function is defined in the analysed module.
func InModule(f *ssa.Function) bool {
	pk := FuncPkg(f)
	if pk == nil {
		return false
	}
	return pk.Path() == ModulePath || strings.HasPrefix(pk.Path(), ModulePath+"/")
}

// ShortPkg returns the package path relative to the module.
func ShortPkg(pk *types.Package) string {
	if pk == nil {
		return "?"
	}
	s := strings.TrimPrefix(pk.Path(), ModulePath)
	s = strings.TrimPrefix(s, "/")
	if s == "" {
		return "."
	}
	return s
}

// FuncName gives a stable, line-free name: "icmp.(*icmpDriver).handleProbeLayers",
// "common.TracerouteParallel$2".
func FuncName(f *ssa.Function) string {
	if f == nil {
		return "<nil>"
	}
	pk := FuncPkg(f)
	if pk == nil {
		return f.String()
	}
	s := f.String()
	if strings.HasPrefix(pk.Path(), ModulePath) {
		s = strings.ReplaceAll(s, ModulePath+"/", "")
		s = strings.ReplaceAll(s, ModulePath+".", "root.")
	}
	return s
}

// Func looks a module function up by its FuncName. It returns nil when absent.
func (p *Prog) Func(name string) *ssa.Function {
	for _, f := range p.ModFuncs {
		if FuncName(f) == name {
			return f
		}
	}
	// a method anchored with a value receiver that now has a pointer receiver (or the reverse) is the same method
	alt := ""
	switch {
	case strings.HasPrefix(name, "(*"):
		alt = "(" + name[2:]
	case strings.HasPrefix(name, "("):
		alt = "(*" + name[1:]
	}
	if alt != "" {
		for _, f := range p.ModFuncs {
			if FuncName(f) == alt {
				return f
			}
		}
	}
	return nil
}

// Pos renders a position relative to the repository root.
func (p *Prog) Pos(pos token.Pos) (string, int) {
	if !pos.IsValid() {
		return "", 0
	}
	ps := p.Fset.Position(pos)
	f := strings.TrimPrefix(ps.Filename, p.Dir+"/")
	return f, ps.Line
}

// PosStr renders file:line.
func (p *Prog) PosStr(pos token.Pos) string {
	f, l := p.Pos(pos)
	if f == "" {
		return "?"
	}
	return fmt.Sprintf("%s:%d", f, l)
}

// CallGraph returns the VTA call graph (built lazily over a CHA seed).
func (p *Prog) CallGraph() *callgraph.Graph {
	if p.cg == nil {
		p.cg = vta.CallGraph(p.AllFuncs, cha.CallGraph(p.SSA))
	}
	return p.cg
}
