package core

import (
	"encoding/json"
	"fmt"
	"go/token"
	"os"
	"path/filepath"
	"sort"
	"strings"
	"time"
)

// Obligation is one decided instance of a rule.
type Obligation struct {
	Rule      string `json:"rule"`
	Construct string `json:"construct"` // line-free key: <func>#<site>
	File      string `json:"file,omitempty"`
	Line      int    `json:"line,omitempty"`
	Func      string `json:"function,omitempty"`
	Status    string `json:"status"` // ok | violation | known | info
	Detail    string `json:"detail,omitempty"`
	Path      string `json:"path,omitempty"`
}

// Floor records how many instances a rule matched against the hand-confirmed minimum.
type Floor struct {
	Found int `json:"found"`
	Floor int `json:"floor"`
}

// Finding is one entry of /verif/known_findings.json.
type Finding struct {
	Status       string `json:"status"` // known | fixed
	Property     string `json:"property"`
	Rule         string `json:"rule"`
	Construct    string `json:"construct"`
	What         string `json:"what"`
	FailingInput string `json:"failing_input,omitempty"`
	FixCommit    string `json:"fix_commit,omitempty"`
}

// Report accumulates what one check covered.
type Report struct {
	Property    string
	Tier        string
	Seed        int
	Explanation string
	Assumptions []string
	NotDecided  []string
	Obligs      []Obligation
	Floors      map[string]Floor
	Analysed    map[string]any
	Samples     []any
	Extra       map[string]any
	Exhaustive  bool
	start       time.Time
	prog        *Prog
}

// NewReport starts a report.
func NewReport(prop, tier string, seed int) *Report {
	return &Report{Property: prop, Tier: tier, Seed: seed, Floors: map[string]Floor{}, Analysed: map[string]any{}, Extra: map[string]any{}, start: time.Now()}
}

// SetProg records the build under analysis (positions are rendered against it).
func (r *Report) SetProg(p *Prog) { r.prog = p }

func (r *Report) add(status, rule, construct string, pos token.Pos, fn, detail, path string) {
	o := Obligation{Rule: rule, Construct: construct, Status: status, Func: fn, Detail: detail, Path: path}
	if r.prog != nil && pos.IsValid() {
		o.File, o.Line = r.prog.Pos(pos)
	}
	if r.prog != nil && r.prog.GOOS != "linux" {
		o.Detail = "[" + r.prog.GOOS + "] " + detail
		if status == "violation" {
			// already reported on the primary (linux) build: one construct, one report
			for _, x := range r.Obligs {
				if x.Status == "violation" && x.Rule == rule && x.Construct == construct {
					return
				}
			}
			// constructs that only exist in the secondary build's platform files are outside the claim
			if strings.HasSuffix(o.File, "_"+r.prog.GOOS+".go") {
				o.Status = "info"
				o.Detail += " (platform-only file of the secondary build: outside the claim, reported for information)"
			}
		}
	}
	for _, x := range r.Obligs {
		if x == o {
			return // identical obligation already recorded (same construct reached by several paths)
		}
	}
	r.Obligs = append(r.Obligs, o)
}

// OK records a discharged obligation.
func (r *Report) OK(rule, construct string, pos token.Pos, fn, detail string) {
	r.add("ok", rule, construct, pos, fn, detail, "")
}

// Fail records a violated obligation.
func (r *Report) Fail(rule, construct string, pos token.Pos, fn, detail string) {
	r.add("violation", rule, construct, pos, fn, detail, "")
}

// FailPath records a violated path obligation.
func (r *Report) FailPath(rule, construct string, pos token.Pos, fn, detail, path string) {
	r.add("violation", rule, construct, pos, fn, detail, path)
}

// Info records a non-binding observation.
func (r *Report) Info(rule, construct string, pos token.Pos, fn, detail string) {
	r.add("info", rule, construct, pos, fn, detail, "")
}

// Check records ok or violation.
func (r *Report) Check(cond bool, rule, construct string, pos token.Pos, fn, okDetail, failDetail string) bool {
	if cond {
		r.OK(rule, construct, pos, fn, okDetail)
	} else {
		r.Fail(rule, construct, pos, fn, failDetail)
	}
	return cond
}

// Floor asserts that a rule matched at least floor instances (anchor resolution / blindness guard).
func (r *Report) Floor(rule string, found, floor int) {
	tag := rule
	if r.prog != nil && r.prog.GOOS != "linux" {
		tag = rule + "@" + r.prog.GOOS
	}
	r.Floors[tag] = Floor{found, floor}
	if found < floor {
		r.Fail(rule, "anchor#floor", token.NoPos, "", fmt.Sprintf("rule matched %d instance(s), fewer than the %d confirmed by hand: an anchor no longer resolves or the rule went blind", found, floor))
	}
}

// Sample adds a written-out obligation / case to the evidence.
func (r *Report) Sample(v any) {
	if len(r.Samples) < 12 {
		r.Samples = append(r.Samples, v)
	}
}

// VerifDir is the directory that holds evidence/ and known_findings.json.
func VerifDir() string {
	if d := os.Getenv("TRCHECK_VERIF"); d != "" {
		return d
	}
	return "/verif"
}

func loadFindings() ([]Finding, error) {
	b, err := os.ReadFile(filepath.Join(VerifDir(), "known_findings.json"))
	if err != nil {
		if os.IsNotExist(err) {
			return nil, nil
		}
		return nil, err
	}
	var fs []Finding
	if err := json.Unmarshal(b, &fs); err != nil {
		return nil, fmt.Errorf("known_findings.json: %w", err)
	}
	return fs, nil
}

// Finish prints the verdict lines, writes evidence and replay files, and
// returns the process exit code.
func (r *Report) Finish(replayFilter string) int {
	// evidence must not depend on map iteration order
	sort.SliceStable(r.Obligs, func(i, j int) bool {
		a, b := r.Obligs[i], r.Obligs[j]
		if a.Rule != b.Rule {
			return a.Rule < b.Rule
		}
		if a.Construct != b.Construct {
			return a.Construct < b.Construct
		}
		if a.File != b.File {
			return a.File < b.File
		}
		if a.Line != b.Line {
			return a.Line < b.Line
		}
		if a.Status != b.Status {
			return a.Status < b.Status
		}
		return a.Detail < b.Detail
	})
	findings, ferr := loadFindings()
	if ferr != nil {
		r.Fail("R00", "known_findings#load", token.NoPos, "", ferr.Error())
	}
	known := map[string]Finding{}
	for _, f := range findings {
		if f.Status == "known" && f.Property == r.Property {
			known[f.Rule+"|"+f.Construct] = f
		}
	}
	evDir := filepath.Join(VerifDir(), "evidence")
	replayDir := filepath.Join(evDir, "replay")
	os.MkdirAll(replayDir, 0o755)
	// remove stale replay files of this property
	if old, _ := filepath.Glob(filepath.Join(replayDir, r.Property+"-*.json")); old != nil && replayFilter == "" {
		for _, f := range old {
			os.Remove(f)
		}
	}
	// replay: re-decide only the obligation named in the replay file
	if replayFilter != "" {
		var rf struct{ Rule, Construct string }
		if b, err := os.ReadFile(replayFilter); err == nil && json.Unmarshal(b, &rf) == nil && rf.Rule != "" {
			var keep []Obligation
			for _, o := range r.Obligs {
				if o.Rule == rf.Rule && o.Construct == rf.Construct {
					keep = append(keep, o)
				}
			}
			if len(keep) == 0 {
				fmt.Printf("replay: obligation %s [%s] no longer exists on the current tree\n", rf.Rule, rf.Construct)
			}
			for _, o := range keep {
				fmt.Printf("replay: %s %s:%d %s [%s] status=%s: %s", o.Rule, o.File, o.Line, o.Func, o.Construct, o.Status, o.Detail)
				if o.Path != "" {
					fmt.Printf("; path: %s", o.Path)
				}
				fmt.Println()
			}
			r.Obligs = keep
		} else {
			fmt.Println("replay: cannot read", replayFilter)
		}
	}
	nviol, nknown, nok := 0, 0, 0
	var knownLines []string
	seenKnown := map[string]bool{}
	for i := range r.Obligs {
		o := &r.Obligs[i]
		if o.Status != "violation" {
			if o.Status == "ok" {
				nok++
			}
			continue
		}
		if f, ok := known[o.Rule+"|"+o.Construct]; ok {
			o.Status = "known"
			nknown++
			k := o.Rule + "|" + o.Construct
			if !seenKnown[k] {
				seenKnown[k] = true
				line := fmt.Sprintf("KNOWN-FINDING: property=%s rule=%s construct=%s %s", r.Property, o.Rule, o.Construct, f.What)
				knownLines = append(knownLines, line)
				fmt.Println(line)
			}
			continue
		}
		nviol++
	}
	vi := 0
	for _, o := range r.Obligs {
		if o.Status != "violation" {
			continue
		}
		vi++
		loc := o.File
		if o.Line > 0 {
			loc = fmt.Sprintf("%s:%d", o.File, o.Line)
		}
		fmt.Printf("%s %s %s %s [%s]: %s", r.Property, o.Rule, loc, o.Func, o.Construct, o.Detail)
		if o.Path != "" {
			fmt.Printf("; path: %s", o.Path)
		}
		fmt.Println()
		rp := filepath.Join(replayDir, fmt.Sprintf("%s-%d.json", r.Property, vi))
		if replayFilter != "" {
			fmt.Printf("VIOLATION property=%s replay=%s\n", r.Property, replayFilter)
			continue
		}
		rb, _ := json.MarshalIndent(map[string]any{
			"property": r.Property, "rule": o.Rule, "construct": o.Construct, "file": o.File, "line": o.Line,
			"function": o.Func, "obligation": o.Detail, "path": o.Path,
			"explanation": "re-run `./check " + r.Property + " --replay <this file>` to re-decide this obligation on the current tree",
		}, "", " ")
		os.WriteFile(rp, rb, 0o644)
		fmt.Printf("VIOLATION property=%s replay=%s\n", r.Property, rp)
	}
	// evidence
	oblig := nok + nknown + nviol
	type ruleCount struct{ Ok, Known, Violation, Info int }
	perRule := map[string]*ruleCount{}
	var analysedFuncs = map[string]bool{}
	for _, o := range r.Obligs {
		rc := perRule[o.Rule]
		if rc == nil {
			rc = &ruleCount{}
			perRule[o.Rule] = rc
		}
		switch o.Status {
		case "ok":
			rc.Ok++
		case "known":
			rc.Known++
		case "violation":
			rc.Violation++
		default:
			rc.Info++
		}
		if o.Func != "" {
			analysedFuncs[o.Func] = true
		}
	}
	var fl []string
	for f := range analysedFuncs {
		fl = append(fl, f)
	}
	sort.Strings(fl)
	r.Analysed["functions_with_obligations"] = fl
	samples := r.Samples
	if len(samples) == 0 {
		for i, o := range r.Obligs {
			if i >= 5 {
				break
			}
			samples = append(samples, o)
		}
	}
	if len(samples) == 0 {
		samples = append(samples, "no obligation generated")
	}
	cov := map[string]any{
		"explanation":    r.Explanation,
		"obligations":    oblig,
		"discharged":     nok,
		"known_findings": knownLines,
		"rule_instances": r.Floors,
		"per_rule":       perRule,
		"analysed":       r.Analysed,
		"samples":        samples,
		"not_decided":    r.NotDecided,
		"obligation_list": func() []Obligation {
			if len(r.Obligs) > 400 {
				return r.Obligs[:400]
			}
			return r.Obligs
		}(),
	}
	if r.Exhaustive {
		cov["exhaustive"] = true
	}
	for k, v := range r.Extra {
		cov[k] = v
	}
	ev := map[string]any{
		"property_id": r.Property,
		"tier":        r.Tier,
		"seed":        r.Seed,
		"level":       "other",
		"coverage":    cov,
		"assumptions": r.Assumptions,
		"wall_s":      time.Since(r.start).Seconds(),
		"violations":  nviol,
	}
	if r.Assumptions == nil {
		ev["assumptions"] = []string{}
	}
	eb, _ := json.MarshalIndent(ev, "", " ")
	if replayFilter == "" {
		if err := os.WriteFile(filepath.Join(evDir, r.Property+".json"), eb, 0o644); err != nil {
			fmt.Println("cannot write evidence:", err)
			return 2
		}
	}
	fmt.Printf("%s %s: %d obligations, %d discharged, %d known finding(s), %d violation(s) [%s]\n",
		r.Property, r.Tier, oblig, nok, nknown, nviol, strings.TrimSpace(fmt.Sprintf("%.1fs", time.Since(r.start).Seconds())))
	if nviol > 0 {
		return 1
	}
	return 0
}
