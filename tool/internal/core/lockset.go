package core

import (
	"fmt"
	"go/token"
	"go/types"
	"sort"
	"strings"

	"golang.org/x/tools/go/ssa"
)

// Access is one read or write of a memory object with the mutexes held (A5).
type Access struct {
	Obj    string // "recv.sentProbes", "var:common.TracerouteParallel.results", "global:packets.curPacketID"
	Write  bool
	Locks  []string
	Instr  ssa.Instruction
	Fn     *ssa.Function
	Atomic bool // object has a sync/atomic type
	Typ    types.Type
	// Site is the instruction of the ROOT function through which the access is reached
	// (the access itself when it is in the root function): ordering against spawns / joins is decided on it.
	Site ssa.Instruction
}

// LockAnalysis collects accesses under a root function, following static
// module callees and closures with the lockset held at the call site.
type LockAnalysis struct {
	P        *Prog
	Accesses []Access
	seen     map[string]bool
	// StopAt: callees not to descend into (e.g. the other goroutine's entry)
	StopAt map[*ssa.Function]bool
}

// NewLockAnalysis creates an empty analysis.
func NewLockAnalysis(p *Prog) *LockAnalysis {
	return &LockAnalysis{P: p, seen: map[string]bool{}, StopAt: map[*ssa.Function]bool{}}
}

type lockset map[string]bool

func (l lockset) clone() lockset {
	o := lockset{}
	for k := range l {
		o[k] = true
	}
	return o
}
func (l lockset) key() string {
	var s []string
	for k := range l {
		s = append(s, k)
	}
	sort.Strings(s)
	return strings.Join(s, ",")
}
func (l lockset) list() []string {
	var s []string
	for k := range l {
		s = append(s, k)
	}
	sort.Strings(s)
	return s
}
func intersect(a, b lockset) lockset {
	o := lockset{}
	for k := range a {
		if b[k] {
			o[k] = true
		}
	}
	return o
}

// frame maps a function's receiver / free variables to object names of the root context.
type frame struct {
	site   ssa.Instruction // root-function instruction that led into this frame (nil in the root frame)
	fn     *ssa.Function
	recv   string                    // object name of *receiver ("recv", "recv.config", "" when unknown)
	free   map[*ssa.FreeVar]string   // object name the free variable points to
	params map[*ssa.Parameter]string // pointer parameters bound to objects
}

// VarName names a local variable object.
func VarName(a *ssa.Alloc) string {
	n := a.Comment
	if n == "" {
		n = a.Name()
	}
	return "var:" + FuncName(a.Parent()) + "." + n
}

// objOf names the object an address designates, or "" when it is not tracked.
func (la *LockAnalysis) objOf(fr *frame, v ssa.Value) string {
	switch x := v.(type) {
	case *ssa.FieldAddr:
		base := la.objOf(fr, x.X)
		if base == "" {
			return ""
		}
		st := x.X.Type().Underlying().(*types.Pointer).Elem().Underlying().(*types.Struct)
		return base + "." + st.Field(x.Field).Name()
	case *ssa.IndexAddr:
		return la.objOf(fr, x.X) // element of array/slice: attribute to the container
	case *ssa.Parameter:
		if fr.fn.Signature.Recv() != nil && len(fr.fn.Params) > 0 && fr.fn.Params[0] == x {
			return fr.recv
		}
		return fr.params[x]
	case *ssa.FreeVar:
		return fr.free[x]
	case *ssa.Alloc:
		return VarName(x)
	case *ssa.Global:
		pk := "?"
		if x.Pkg != nil {
			pk = x.Pkg.Pkg.Name()
		}
		return "global:" + pk + "." + x.Name()
	case *ssa.UnOp:
		if x.Op == token.MUL {
			// pointer / slice / map loaded from a tracked location: the pointee is named after the location
			inner := la.objOf(fr, x.X)
			if inner == "" {
				return ""
			}
			switch x.Type().Underlying().(type) {
			case *types.Pointer:
				return inner + "→" // the pointee, as opposed to the slot that holds the pointer
			case *types.Slice, *types.Map:
				return inner
			}
		}
	case *ssa.Slice:
		return la.objOf(fr, x.X)
	case *ssa.MakeInterface:
		return la.objOf(fr, x.X)
	}
	return ""
}

func isAtomicType(t types.Type) bool {
	if p, ok := t.(*types.Pointer); ok {
		t = p.Elem()
	}
	if n, ok := t.(*types.Named); ok && n.Obj().Pkg() != nil && n.Obj().Pkg().Path() == "sync/atomic" {
		return true
	}
	return false
}

// IsSyncType reports whether t is a synchronisation object (sync, atomic, context, errgroup, channel).
func IsSyncType(t types.Type) bool {
	if t == nil {
		return false
	}
	if _, ok := t.Underlying().(*types.Chan); ok {
		return true
	}
	return isSyncType(t)
}

func isSyncType(t types.Type) bool {
	if p, ok := t.(*types.Pointer); ok {
		t = p.Elem()
	}
	if n, ok := t.(*types.Named); ok && n.Obj().Pkg() != nil {
		switch n.Obj().Pkg().Path() {
		case "sync", "sync/atomic", "context", "golang.org/x/sync/errgroup":
			return true
		}
	}
	return false
}

// mutexOp classifies a call as Lock/Unlock on a sync.Mutex/RWMutex and names the mutex object.
func (la *LockAnalysis) mutexOp(fr *frame, c *ssa.CallCommon) (op string, obj string) {
	f := c.StaticCallee()
	if f == nil || f.Pkg == nil || f.Pkg.Pkg.Path() != "sync" || f.Signature.Recv() == nil {
		return "", ""
	}
	rt := f.Signature.Recv().Type().String()
	if !strings.Contains(rt, "Mutex") {
		return "", ""
	}
	switch f.Name() {
	case "Lock", "RLock":
		op = "lock"
	case "Unlock", "RUnlock":
		op = "unlock"
	default:
		return "", ""
	}
	if len(c.Args) == 0 {
		return "", ""
	}
	obj = la.objOf(fr, c.Args[0])
	if obj == "" {
		obj = fmt.Sprintf("?mutex@%s", la.P.PosStr(c.Pos()))
	}
	return op, obj
}

// Collect analyses fn (and what it calls) with the given receiver object name and initially held locks.
func (la *LockAnalysis) Collect(fn *ssa.Function, recvObj string, held []string) {
	fr := &frame{fn: fn, recv: recvObj, free: map[*ssa.FreeVar]string{}, params: map[*ssa.Parameter]string{}}
	la.bindFree(fr, nil)
	h := lockset{}
	for _, k := range held {
		h[k] = true
	}
	la.analyse(fr, h, 0)
}

// bindFree names the objects behind a closure's free variables: the enclosing
// function's locals (captured by reference) or, transitively, its own captures.
func (la *LockAnalysis) bindFree(fr *frame, parent *frame) {
	fn := fr.fn
	if len(fn.FreeVars) == 0 || fn.Parent() == nil {
		return
	}
	for _, fv := range fn.FreeVars {
		b := la.P.Binding(fv)
		if b == nil {
			continue
		}
		switch x := b.(type) {
		case *ssa.Alloc:
			fr.free[fv] = VarName(x)
		case *ssa.FreeVar:
			if parent != nil {
				fr.free[fv] = parent.free[x]
			} else {
				// resolve through the parent's own binding chain
				pf := &frame{fn: fn.Parent(), free: map[*ssa.FreeVar]string{}, params: map[*ssa.Parameter]string{}}
				la.bindFree(pf, nil)
				fr.free[fv] = pf.free[x]
			}
		case *ssa.Parameter:
			// a captured pointer parameter of the parent (e.g. the receiver)
			if parent != nil {
				if parent.fn.Signature.Recv() != nil && len(parent.fn.Params) > 0 && parent.fn.Params[0] == x {
					fr.free[fv] = parent.recv
				} else {
					fr.free[fv] = parent.params[x]
				}
			}
		}
	}
}

func (la *LockAnalysis) record(fr *frame, obj string, write bool, held lockset, in ssa.Instruction, t types.Type) {
	if obj == "" {
		return
	}
	site := fr.site
	if site == nil {
		site = in
	}
	la.Accesses = append(la.Accesses, Access{Obj: obj, Write: write, Locks: held.list(), Instr: in, Fn: fr.fn, Atomic: isAtomicType(t), Typ: t, Site: site})
}

func (la *LockAnalysis) analyse(fr *frame, entry lockset, depth int) {
	fn := fr.fn
	if fn == nil || len(fn.Blocks) == 0 || depth > 8 {
		return
	}
	key := fmt.Sprintf("%p|%s|%s|%p", fn, fr.recv, entry.key(), fr.site)
	if la.seen[key] {
		return
	}
	la.seen[key] = true
	// forward must-dataflow of held locks
	in := map[*ssa.BasicBlock]lockset{fn.Blocks[0]: entry.clone()}
	work := []*ssa.BasicBlock{fn.Blocks[0]}
	out := map[*ssa.BasicBlock]lockset{}
	transfer := func(b *ssa.BasicBlock, h lockset, emit bool) lockset {
		h = h.clone()
		for _, ins := range b.Instrs {
			switch x := ins.(type) {
			case *ssa.Defer:
				// deferred Unlock keeps the lock until return; other deferred calls are analysed at the defer point
				if op, _ := la.mutexOp(fr, &x.Call); op != "" {
					continue
				}
				if emit {
					la.call(fr, &x.Call, h, ins, depth)
				}
			case *ssa.Go:
				// a new goroutine context: not part of this one
				continue
			case *ssa.Call:
				if op, obj := la.mutexOp(fr, &x.Call); op == "lock" {
					h[obj] = true
					continue
				} else if op == "unlock" {
					delete(h, obj)
					continue
				}
				if emit {
					la.call(fr, &x.Call, h, ins, depth)
				}
			case *ssa.Store:
				if emit {
					if _, isAlloc := x.Addr.(*ssa.Alloc); isAlloc && !x.Addr.(*ssa.Alloc).Heap {
						continue
					}
					la.record(fr, la.objOf(fr, x.Addr), true, h, ins, derefType(x.Addr.Type()))
				}
			case *ssa.MapUpdate:
				if emit {
					la.record(fr, la.objOf(fr, x.Map), true, h, ins, x.Map.Type())
				}
			case *ssa.UnOp:
				if emit && x.Op == token.MUL {
					if a, isAlloc := x.X.(*ssa.Alloc); isAlloc && !a.Heap {
						continue
					}
					la.record(fr, la.objOf(fr, x.X), false, h, ins, x.Type())
				}
			case *ssa.Lookup:
				if emit {
					la.record(fr, la.objOf(fr, x.X), false, h, ins, x.X.Type())
				}
			case *ssa.Range:
				if emit {
					la.record(fr, la.objOf(fr, x.X), false, h, ins, x.X.Type())
				}
			}
		}
		return h
	}
	for len(work) > 0 {
		b := work[len(work)-1]
		work = work[:len(work)-1]
		o := transfer(b, in[b], false)
		if prev, ok := out[b]; ok && prev.key() == o.key() {
			continue
		}
		out[b] = o
		for _, s := range b.Succs {
			if cur, ok := in[s]; !ok {
				in[s] = o.clone()
				work = append(work, s)
			} else {
				n := intersect(cur, o)
				if n.key() != cur.key() {
					in[s] = n
					work = append(work, s)
				}
			}
		}
	}
	for _, b := range fn.Blocks {
		if h, ok := in[b]; ok {
			transfer(b, h, true)
		}
	}
}

func derefType(t types.Type) types.Type {
	if p, ok := t.Underlying().(*types.Pointer); ok {
		return p.Elem()
	}
	return t
}

// call descends into module callees / closures with the current lockset.
func (la *LockAnalysis) call(fr *frame, c *ssa.CallCommon, h lockset, site ssa.Instruction, depth int) {
	// atomic method calls: a synchronised access of the object
	if f := c.StaticCallee(); f != nil && f.Pkg != nil && f.Pkg.Pkg.Path() == "sync/atomic" && f.Signature.Recv() != nil && len(c.Args) > 0 {
		obj := la.objOf(fr, c.Args[0])
		w := f.Name() != "Load"
		if obj != "" {
			rs := fr.site
			if rs == nil {
				rs = site
			}
			la.Accesses = append(la.Accesses, Access{Obj: obj, Write: w, Locks: h.list(), Instr: site, Fn: fr.fn, Atomic: true, Site: rs})
		}
		return
	}
	var callee *ssa.Function
	var closure *ssa.MakeClosure
	if f := c.StaticCallee(); f != nil {
		callee = f
		if mc, ok := c.Value.(*ssa.MakeClosure); ok {
			closure = mc
		}
	} else if !c.IsInvoke() {
		// call of a function value held in a local: resolve through Def
		switch d := la.P.Def(c.Value).(type) {
		case *ssa.MakeClosure:
			callee = d.Fn.(*ssa.Function)
			closure = d
		case *ssa.Function:
			callee = d
		}
	}
	// builtin append/copy/delete on tracked objects
	if b, ok := c.Value.(*ssa.Builtin); ok {
		switch b.Name() {
		case "delete":
			if len(c.Args) > 0 {
				la.record(fr, la.objOf(fr, c.Args[0]), true, h, site, c.Args[0].Type())
			}
		case "copy":
			if len(c.Args) > 0 {
				la.record(fr, la.objOf(fr, c.Args[0]), true, h, site, c.Args[0].Type())
			}
		}
		return
	}
	if callee == nil || !InModule(callee) || la.StopAt[callee] {
		return
	}
	sub := &frame{fn: callee, free: map[*ssa.FreeVar]string{}, params: map[*ssa.Parameter]string{}, site: fr.site}
	if sub.site == nil {
		sub.site = site
	}
	if callee.Signature.Recv() != nil && len(c.Args) > 0 {
		sub.recv = la.objOf(fr, c.Args[0])
		for i, p := range callee.Params {
			if i == 0 || i >= len(c.Args) {
				continue
			}
			if _, ok := p.Type().Underlying().(*types.Pointer); ok {
				sub.params[p] = la.objOf(fr, c.Args[i])
			}
		}
	} else {
		for i, p := range callee.Params {
			if i >= len(c.Args) {
				continue
			}
			switch p.Type().Underlying().(type) {
			case *types.Pointer, *types.Slice, *types.Map:
				sub.params[p] = la.objOf(fr, c.Args[i])
			}
		}
	}
	if closure != nil {
		for i, fv := range callee.FreeVars {
			sub.free[fv] = la.objOf(fr, closure.Bindings[i])
		}
	} else {
		la.bindFree(sub, fr)
	}
	la.analyse(sub, h, depth+1)
}

// ObjOfIn names the object designated by address v inside fn (closure captures resolved to the enclosing function's variables).
func (la *LockAnalysis) ObjOfIn(fn *ssa.Function, recvObj string, v ssa.Value) string {
	fr := &frame{fn: fn, recv: recvObj, free: map[*ssa.FreeVar]string{}, params: map[*ssa.Parameter]string{}}
	la.bindFree(fr, nil)
	return la.objOf(fr, v)
}

// Related reports whether two object names overlap in memory: equal, or one is a field path inside the other.
func Related(a, b string) bool {
	if a == b {
		return true
	}
	return strings.HasPrefix(a, b+".") || strings.HasPrefix(b, a+".")
}
