package core

import (
	"fmt"
	"go/constant"
	"go/token"
	"go/types"
	"sort"
	"strings"

	"golang.org/x/tools/go/ssa"
)

// Term is the origin of an SSA value (analysis A2): an expression tree over
// root labels (receiver/parameter field paths, globals, constants, results of
// named calls). Terms are path-relative: phi nodes and loads of locals are
// resolved against the CFG path the Env was built for.
type Term struct {
	Op   string // recv param free global const zero field call extract tuple binop not neg conv index lookup slice len assert alloc make closure range phi clobbered unknown
	Name string
	Args []*Term
	ID   string // identity of the producing instruction (calls, allocs); not printed by String
	Typ  types.Type
	Val  ssa.Value // originating SSA value when there is one
}

func (t *Term) str(b *strings.Builder, ids bool) {
	if t == nil {
		b.WriteString("<nil>")
		return
	}
	switch t.Op {
	case "recv":
		b.WriteString("recv")
	case "param":
		b.WriteString("param:" + t.Name)
	case "free":
		b.WriteString("free:" + t.Name)
	case "global":
		b.WriteString("@" + t.Name)
	case "const":
		b.WriteString(t.Name)
	case "zero":
		b.WriteString("zero:" + t.Name)
	case "field":
		t.Args[0].str(b, ids)
		b.WriteString("." + t.Name)
	case "call":
		b.WriteString(t.Name)
		if ids && t.ID != "" {
			b.WriteString("@" + t.ID)
		}
		b.WriteString("(")
		for i, a := range t.Args {
			if i > 0 {
				b.WriteString(", ")
			}
			a.str(b, ids)
		}
		b.WriteString(")")
	case "extract":
		t.Args[0].str(b, ids)
		b.WriteString("#" + t.Name)
	case "binop":
		b.WriteString("(")
		t.Args[0].str(b, ids)
		b.WriteString(" " + t.Name + " ")
		t.Args[1].str(b, ids)
		b.WriteString(")")
	case "not":
		b.WriteString("!")
		t.Args[0].str(b, ids)
	case "conv":
		b.WriteString("conv[" + t.Name + "](")
		t.Args[0].str(b, ids)
		b.WriteString(")")
	case "index", "lookup":
		t.Args[0].str(b, ids)
		b.WriteString("[")
		t.Args[1].str(b, ids)
		b.WriteString("]")
	case "len":
		b.WriteString("len(")
		t.Args[0].str(b, ids)
		b.WriteString(")")
	default:
		b.WriteString(t.Op)
		if t.Name != "" {
			b.WriteString(":" + t.Name)
		}
		if ids && t.ID != "" {
			b.WriteString("@" + t.ID)
		}
		if len(t.Args) > 0 {
			b.WriteString("(")
			for i, a := range t.Args {
				if i > 0 {
					b.WriteString(", ")
				}
				a.str(b, ids)
			}
			b.WriteString(")")
		}
	}
}

// String renders the term without instruction identities (rule vocabulary).
func (t *Term) String() string {
	var b strings.Builder
	t.str(&b, false)
	return b.String()
}

// Key renders the term with instruction identities: two terms with equal keys
// denote the same run-time value on the path.
func (t *Term) Key() string {
	var b strings.Builder
	t.str(&b, true)
	return b.String()
}

// Walk visits t and all sub-terms.
func (t *Term) Walk(f func(*Term) bool) {
	if t == nil {
		return
	}
	if !f(t) {
		return
	}
	for _, a := range t.Args {
		a.Walk(f)
	}
}

// Contains reports whether some sub-term renders exactly as s.
func (t *Term) Contains(s string) bool {
	found := false
	t.Walk(func(x *Term) bool {
		if found {
			return false
		}
		if x.String() == s {
			found = true
		}
		return !found
	})
	return found
}

// Has reports whether some sub-term satisfies pred.
func (t *Term) Has(pred func(*Term) bool) bool {
	found := false
	t.Walk(func(x *Term) bool {
		if found {
			return false
		}
		if pred(x) {
			found = true
		}
		return !found
	})
	return found
}

// StripConv removes conversions and interface boxing at the top of a term.
func (t *Term) StripConv() *Term {
	for t != nil && t.Op == "conv" {
		t = t.Args[0]
	}
	return t
}

// IsConst reports whether t is the given constant rendering ("nil", "true", "0"...).
func (t *Term) IsConst(s string) bool {
	return t != nil && t.Op == "const" && t.Name == s
}

// Leaves returns the sorted set of root labels in the term.
func (t *Term) Leaves() []string {
	set := map[string]bool{}
	var rec func(x *Term)
	rec = func(x *Term) {
		if x == nil {
			return
		}
		switch x.Op {
		case "recv", "param", "free", "global", "const", "zero", "alloc", "make", "unknown", "clobbered", "range":
			set[x.String()] = true
			return
		case "field":
			// render the whole access path when it bottoms out in a root
			r := x
			for r.Op == "field" {
				r = r.Args[0]
			}
			switch r.Op {
			case "recv", "param", "free", "global":
				set[x.String()] = true
				return
			}
		case "call":
			set["call:"+x.Name] = true
		}
		for _, a := range x.Args {
			rec(a)
		}
	}
	rec(t)
	var out []string
	for k := range set {
		out = append(out, k)
	}
	sort.Strings(out)
	return out
}

// Path is one acyclic path through a function's CFG.
type Path struct {
	Fn     *ssa.Function
	Blocks []*ssa.BasicBlock
	idx    map[*ssa.BasicBlock]int
}

// NewPath builds a Path from a block list.
func NewPath(fn *ssa.Function, blocks []*ssa.BasicBlock) *Path {
	p := &Path{Fn: fn, Blocks: blocks, idx: map[*ssa.BasicBlock]int{}}
	for i, b := range blocks {
		p.idx[b] = i
	}
	return p
}

// String renders b0→b2→b5.
func (p *Path) String() string {
	var s []string
	for _, b := range p.Blocks {
		s = append(s, fmt.Sprintf("b%d", b.Index))
	}
	return strings.Join(s, "→")
}

// On reports whether the block is on the path.
func (p *Path) On(b *ssa.BasicBlock) bool { _, ok := p.idx[b]; return ok }

// Last returns the final block.
func (p *Path) Last() *ssa.BasicBlock { return p.Blocks[len(p.Blocks)-1] }

// EnumPaths enumerates all acyclic entry→target paths (every block at most
// once). ok is false when more than limit paths exist.
func EnumPaths(fn *ssa.Function, target *ssa.BasicBlock, limit int) (paths []*Path, ok bool) {
	if len(fn.Blocks) == 0 {
		return nil, true
	}
	// blocks that can reach target
	reach := map[*ssa.BasicBlock]bool{target: true}
	work := []*ssa.BasicBlock{target}
	for len(work) > 0 {
		b := work[len(work)-1]
		work = work[:len(work)-1]
		for _, p := range b.Preds {
			if !reach[p] {
				reach[p] = true
				work = append(work, p)
			}
		}
	}
	ok = true
	var cur []*ssa.BasicBlock
	on := map[*ssa.BasicBlock]bool{}
	var dfs func(b *ssa.BasicBlock)
	dfs = func(b *ssa.BasicBlock) {
		if !ok || !reach[b] || on[b] {
			return
		}
		cur = append(cur, b)
		on[b] = true
		if b == target {
			if len(paths) >= limit {
				ok = false
			} else {
				paths = append(paths, NewPath(fn, append([]*ssa.BasicBlock(nil), cur...)))
			}
		} else {
			for _, s := range b.Succs {
				dfs(s)
			}
		}
		on[b] = false
		cur = cur[:len(cur)-1]
	}
	dfs(fn.Blocks[0])
	return paths, ok
}

// Env evaluates SSA values to Terms along one Path.
type Env struct {
	Prog   *Prog
	Path   *Path
	Subst  map[ssa.Value]*Term // parameters / free variables of an inlined callee
	Depth  int
	Inline bool // inline single-block module callees
	memo   map[ssa.Value]*Term
	prefix string // identity prefix for inlined frames
}

// NewEnv creates an evaluator for the path.
func NewEnv(p *Prog, path *Path) *Env {
	return &Env{Prog: p, Path: path, Inline: true, memo: map[ssa.Value]*Term{}}
}

func typeName(t types.Type) string {
	return types.TypeString(t, func(p *types.Package) string { return p.Name() })
}

// CalleeName names the callee of a call for terms and tables:
// "packets.(*FrameParser).GetICMPInfo", "netip.AddrPortFrom",
// "iface:packets.Source.Read", "dyn" for calls of function values.
func CalleeName(c *ssa.CallCommon) string {
	if c.IsInvoke() {
		recv := c.Value.Type()
		return "iface:" + typeName(recv) + "." + c.Method.Name()
	}
	if f := c.StaticCallee(); f != nil {
		return shortFuncName(f)
	}
	if b, ok := c.Value.(*ssa.Builtin); ok {
		return "builtin:" + b.Name()
	}
	return "dyn"
}

func shortFuncName(f *ssa.Function) string {
	if f.Origin() != nil {
		f = f.Origin()
	}
	pk := FuncPkg(f)
	name := f.Name()
	if f.Signature.Recv() != nil {
		rt := f.Signature.Recv().Type()
		return typeNameQual(rt, pk) + "." + name
	}
	if f.Parent() != nil {
		return shortFuncName(f.Parent()) + "$" + strings.TrimPrefix(name, f.Parent().Name()+"$")
	}
	if pk != nil {
		return pk.Name() + "." + name
	}
	return name
}

func typeNameQual(t types.Type, _ *types.Package) string {
	s := typeName(t)
	if strings.HasPrefix(s, "*") {
		return "(*" + s[1:] + ")"
	}
	return "(" + s + ")"
}

func constString(c *ssa.Const) string {
	if c.Value == nil {
		if _, ok := c.Type().Underlying().(*types.Struct); ok {
			return "zero:" + typeName(c.Type())
		}
		if _, ok := c.Type().Underlying().(*types.Array); ok {
			return "zero:" + typeName(c.Type())
		}
		return "nil"
	}
	switch c.Value.Kind() {
	case constant.String:
		return fmt.Sprintf("%q", constant.StringVal(c.Value))
	case constant.Bool:
		if constant.BoolVal(c.Value) {
			return "true"
		}
		return "false"
	}
	return c.Value.ExactString()
}

// instrPos is the position of an instruction on the path: (block order, index).
func (e *Env) instrPos(in ssa.Instruction) (int, int, bool) {
	b := in.Block()
	bi, ok := e.Path.idx[b]
	if !ok {
		return 0, 0, false
	}
	for i, x := range b.Instrs {
		if x == in {
			return bi, i, true
		}
	}
	return bi, 0, false
}

// addrRoot decomposes an address into its root value and field/index path.
func addrRoot(v ssa.Value) (root ssa.Value, path []string) {
	for {
		switch x := v.(type) {
		case *ssa.FieldAddr:
			st := x.X.Type().Underlying().(*types.Pointer).Elem().Underlying().(*types.Struct)
			path = append([]string{st.Field(x.Field).Name()}, path...)
			v = x.X
		case *ssa.IndexAddr:
			idx := "?"
			if c, ok := x.Index.(*ssa.Const); ok {
				idx = constString(c)
			}
			path = append([]string{"[" + idx + "]"}, path...)
			v = x.X
		default:
			return v, path
		}
	}
}

func isPrefix(a, b []string) bool {
	if len(a) > len(b) {
		return false
	}
	for i := range a {
		if a[i] != b[i] {
			return false
		}
	}
	return true
}

// load resolves *addr at instruction `at` against the stores on the path.
func (e *Env) load(addr ssa.Value, at ssa.Instruction, typ types.Type) *Term {
	root, lp := addrRoot(addr)
	alloc, isAlloc := root.(*ssa.Alloc)
	abi, aii, ok := e.instrPos(at)
	if !ok {
		return &Term{Op: "unknown", Name: "load-off-path", Typ: typ}
	}
	if isAlloc && writtenByClosure(alloc) {
		// captured by reference and written inside a closure: its value is not a function of this path
		t := &Term{Op: "shared", Name: allocName(alloc), ID: e.prefix + alloc.Name(), Typ: typ}
		for _, f := range lp {
			t = projField(t, f)
		}
		return t
	}
	if isAlloc {
		// scan the path backwards for the last store / clobbering call
		for bi := abi; bi >= 0; bi-- {
			b := e.Path.Blocks[bi]
			hi := len(b.Instrs) - 1
			if bi == abi {
				hi = aii - 1
			}
			for ii := hi; ii >= 0; ii-- {
				switch in := b.Instrs[ii].(type) {
				case *ssa.Store:
					r, sp := addrRoot(in.Addr)
					if r != root {
						continue
					}
					if isPrefix(sp, lp) {
						t := e.Term(in.Val)
						for _, f := range lp[len(sp):] {
							t = projField(t, f)
						}
						return t
					}
					if isPrefix(lp, sp) {
						// partial store into the loaded aggregate: build lazily as composite
						return e.composite(alloc, lp, at, typ)
					}
				case ssa.CallInstruction:
					c := in.Common()
					for _, a := range c.Args {
						if r, _ := addrRoot(a); r == root {
							if ai, ok2 := a.(ssa.Instruction); ok2 || a == root {
								_ = ai
								cid := ""
								if cv, isV := in.(ssa.Value); isV {
									cid = e.prefix + cv.Name()
								}
								ct := &Term{Op: "clobbered", Name: CalleeName(c), Args: []*Term{{Op: "alloc", Name: allocName(alloc), ID: e.prefix + alloc.Name(), Typ: alloc.Type(), Val: alloc}}, ID: cid}
								for _, f := range lp {
									ct = projField(ct, f)
								}
								ct.Typ = typ
								return ct
							}
						}
					}
				}
			}
		}
		return &Term{Op: "zero", Name: typeName(typ), Typ: typ}
	}
	// heap / foreign memory: honour an identical-address store earlier on the path, else a field read
	at0 := e.Term(addr)
	key := at0.Key()
	for bi := abi; bi >= 0; bi-- {
		b := e.Path.Blocks[bi]
		hi := len(b.Instrs) - 1
		if bi == abi {
			hi = aii - 1
		}
		for ii := hi; ii >= 0; ii-- {
			if st, ok := b.Instrs[ii].(*ssa.Store); ok {
				if _, isA := rootOf(st.Addr).(*ssa.Alloc); isA {
					continue
				}
				if e.Term(st.Addr).Key() == key {
					return e.Term(st.Val)
				}
			}
		}
	}
	return derefTerm(at0, typ)
}

func rootOf(v ssa.Value) ssa.Value { r, _ := addrRoot(v); return r }

func allocName(a *ssa.Alloc) string {
	if a.Comment != "" {
		return a.Comment
	}
	return a.Name()
}

// composite renders an aggregate local whose fields were stored one by one.
func (e *Env) composite(alloc *ssa.Alloc, lp []string, at ssa.Instruction, typ types.Type) *Term {
	st, ok := typ.Underlying().(*types.Struct)
	if !ok {
		return &Term{Op: "unknown", Name: "partial-store", Typ: typ}
	}
	t := &Term{Op: "struct", Name: typeName(typ), Typ: typ}
	for i := 0; i < st.NumFields(); i++ {
		f := st.Field(i)
		fa := &fakeAddr{root: alloc, path: append(append([]string(nil), lp...), f.Name())}
		t.Args = append(t.Args, &Term{Op: "kv", Name: f.Name(), Args: []*Term{e.loadPath(fa, at, f.Type())}})
	}
	return t
}

type fakeAddr struct {
	root *ssa.Alloc
	path []string
}

// loadPath is load() for a synthetic (root, path) address on an Alloc.
func (e *Env) loadPath(fa *fakeAddr, at ssa.Instruction, typ types.Type) *Term {
	abi, aii, _ := e.instrPos(at)
	for bi := abi; bi >= 0; bi-- {
		b := e.Path.Blocks[bi]
		hi := len(b.Instrs) - 1
		if bi == abi {
			hi = aii - 1
		}
		for ii := hi; ii >= 0; ii-- {
			if in, ok := b.Instrs[ii].(*ssa.Store); ok {
				r, sp := addrRoot(in.Addr)
				if r != ssa.Value(fa.root) {
					continue
				}
				if isPrefix(sp, fa.path) {
					t := e.Term(in.Val)
					for _, f := range fa.path[len(sp):] {
						t = projField(t, f)
					}
					return t
				}
				if isPrefix(fa.path, sp) {
					if st, ok := typ.Underlying().(*types.Struct); ok {
						t := &Term{Op: "struct", Name: typeName(typ), Typ: typ}
						for i := 0; i < st.NumFields(); i++ {
							f := st.Field(i)
							sub := &fakeAddr{root: fa.root, path: append(append([]string(nil), fa.path...), f.Name())}
							t.Args = append(t.Args, &Term{Op: "kv", Name: f.Name(), Args: []*Term{e.loadPath(sub, at, f.Type())}})
						}
						return t
					}
					return &Term{Op: "unknown", Name: "partial-store", Typ: typ}
				}
			}
		}
	}
	return &Term{Op: "zero", Name: typeName(typ), Typ: typ}
}

// projField projects a named field out of a term.
func projField(t *Term, f string) *Term {
	if t.Op == "struct" {
		for _, kv := range t.Args {
			if kv.Name == f {
				return kv.Args[0]
			}
		}
	}
	if t.Op == "zero" {
		return &Term{Op: "zero", Name: t.Name + "." + f}
	}
	return &Term{Op: "field", Name: f, Args: []*Term{t}}
}

// derefTerm turns an address term into the value stored there.
func derefTerm(a *Term, typ types.Type) *Term {
	switch a.Op {
	case "field":
		return &Term{Op: "field", Name: a.Name, Args: a.Args, Typ: typ}
	case "index":
		return &Term{Op: "index", Args: a.Args, Typ: typ}
	case "global":
		return &Term{Op: "global", Name: a.Name, Typ: typ, ID: "load"}
	}
	return &Term{Op: "deref", Args: []*Term{a}, Typ: typ}
}

// Term evaluates v on the path.
func (e *Env) Term(v ssa.Value) *Term {
	if t, ok := e.memo[v]; ok {
		return t
	}
	if e.Subst != nil {
		if t, ok := e.Subst[v]; ok {
			return t
		}
	}
	t := e.term(v)
	if t.Typ == nil {
		t.Typ = v.Type()
	}
	if t.Val == nil {
		t.Val = v
	}
	e.memo[v] = t
	return t
}

func (e *Env) term(v ssa.Value) *Term {
	switch x := v.(type) {
	case *ssa.Const:
		s := constString(x)
		if strings.HasPrefix(s, "zero:") {
			return &Term{Op: "zero", Name: strings.TrimPrefix(s, "zero:")}
		}
		return &Term{Op: "const", Name: s}
	case *ssa.Parameter:
		fn := x.Parent()
		if fn.Signature.Recv() != nil && len(fn.Params) > 0 && fn.Params[0] == x {
			return &Term{Op: "recv"}
		}
		return &Term{Op: "param", Name: x.Name()}
	case *ssa.FreeVar:
		return &Term{Op: "free", Name: x.Name()}
	case *ssa.Global:
		pk := "?"
		if x.Pkg != nil {
			pk = x.Pkg.Pkg.Name()
		}
		return &Term{Op: "global", Name: pk + "." + x.Name()}
	case *ssa.Function:
		return &Term{Op: "func", Name: shortFuncName(x)}
	case *ssa.Builtin:
		return &Term{Op: "func", Name: "builtin:" + x.Name()}
	case *ssa.Alloc:
		return &Term{Op: "alloc", Name: allocName(x), ID: e.prefix + x.Name(), Typ: x.Type(), Val: x}
	case *ssa.FieldAddr:
		st := x.X.Type().Underlying().(*types.Pointer).Elem().Underlying().(*types.Struct)
		return &Term{Op: "field", Name: st.Field(x.Field).Name(), Args: []*Term{e.ptrTarget(x.X)}}
	case *ssa.Field:
		st := x.X.Type().Underlying().(*types.Struct)
		return projField(e.Term(x.X), st.Field(x.Field).Name())
	case *ssa.IndexAddr:
		return &Term{Op: "index", Args: []*Term{e.ptrTarget(x.X), e.Term(x.Index)}}
	case *ssa.Index:
		return &Term{Op: "index", Args: []*Term{e.Term(x.X), e.Term(x.Index)}}
	case *ssa.Lookup:
		return &Term{Op: "lookup", Args: []*Term{e.Term(x.X), e.Term(x.Index)}, ID: e.prefix + x.Name()}
	case *ssa.UnOp:
		switch x.Op {
		case token.MUL:
			if fv, ok := x.X.(*ssa.FreeVar); ok && e.Subst[fv] == nil {
				if t := e.captured(fv); t != nil {
					return t
				}
			}
			return e.load(x.X, x, x.Type())
		case token.NOT:
			return &Term{Op: "not", Args: []*Term{e.Term(x.X)}}
		case token.ARROW:
			return &Term{Op: "recvchan", Args: []*Term{e.Term(x.X)}, ID: e.prefix + x.Name()}
		default:
			return &Term{Op: "unop", Name: x.Op.String(), Args: []*Term{e.Term(x.X)}}
		}
	case *ssa.BinOp:
		return &Term{Op: "binop", Name: x.Op.String(), Args: []*Term{e.Term(x.X), e.Term(x.Y)}}
	case *ssa.Convert:
		return &Term{Op: "conv", Name: typeName(x.Type()), Args: []*Term{e.Term(x.X)}}
	case *ssa.ChangeType:
		return &Term{Op: "conv", Name: typeName(x.Type()), Args: []*Term{e.Term(x.X)}}
	case *ssa.MakeInterface:
		return e.Term(x.X)
	case *ssa.ChangeInterface:
		return e.Term(x.X)
	case *ssa.SliceToArrayPointer:
		return e.Term(x.X)
	case *ssa.MultiConvert:
		return &Term{Op: "conv", Name: typeName(x.Type()), Args: []*Term{e.Term(x.X)}}
	case *ssa.TypeAssert:
		return &Term{Op: "assert", Name: typeName(x.AssertedType), Args: []*Term{e.Term(x.X)}, ID: e.prefix + x.Name()}
	case *ssa.Extract:
		tup := e.Term(x.Tuple)
		if tup.Op == "tuple" && x.Index < len(tup.Args) {
			return tup.Args[x.Index]
		}
		return &Term{Op: "extract", Name: fmt.Sprint(x.Index), Args: []*Term{tup}}
	case *ssa.Slice:
		base := e.ptrTarget(x.X)
		if pt, ok := x.X.Type().Underlying().(*types.Pointer); ok {
			if _, isArr := pt.Elem().Underlying().(*types.Array); isArr {
				if al, isAlloc := x.X.(*ssa.Alloc); isAlloc && al.Comment != "varargs" && al.Comment != "slicelit" && al.Comment != "makeslice" {
					base = e.load(x.X, x, pt.Elem()) // slicing a local array: its current contents
				}
			}
		}
		t := &Term{Op: "slice", Args: []*Term{base}}
		for _, o := range []ssa.Value{x.Low, x.High, x.Max} {
			if o == nil {
				t.Args = append(t.Args, &Term{Op: "const", Name: "_"})
			} else {
				t.Args = append(t.Args, e.Term(o))
			}
		}
		return t
	case *ssa.MakeSlice:
		return &Term{Op: "make", Name: typeName(x.Type()), Args: []*Term{e.Term(x.Len), e.Term(x.Cap)}, ID: e.prefix + x.Name()}
	case *ssa.MakeMap:
		return &Term{Op: "make", Name: typeName(x.Type()), ID: e.prefix + x.Name()}
	case *ssa.MakeChan:
		return &Term{Op: "make", Name: typeName(x.Type()), ID: e.prefix + x.Name()}
	case *ssa.MakeClosure:
		t := &Term{Op: "closure", Name: shortFuncName(x.Fn.(*ssa.Function)), ID: e.prefix + x.Name()}
		for _, b := range x.Bindings {
			t.Args = append(t.Args, e.Term(b))
		}
		return t
	case *ssa.Range:
		return &Term{Op: "range", Args: []*Term{e.Term(x.X)}, ID: e.prefix + x.Name()}
	case *ssa.Next:
		return &Term{Op: "next", Args: []*Term{e.Term(x.Iter)}, ID: e.prefix + x.Name()}
	case *ssa.Select:
		return &Term{Op: "select", ID: e.prefix + x.Name()}
	case *ssa.Phi:
		return e.phi(x)
	case *ssa.Call:
		return e.call(x)
	}
	return &Term{Op: "unknown", Name: fmt.Sprintf("%T", v)}
}

// ptrTarget renders the object a pointer designates: a local alloc, or the
// pointer's own origin (recv, recv.config …), so that field reads print as paths.
func (e *Env) ptrTarget(v ssa.Value) *Term {
	return e.Term(v)
}

func (e *Env) phi(x *ssa.Phi) *Term {
	b := x.Block()
	// loop-carried value: keep symbolic (paths visit a loop header once)
	for i, p := range b.Preds {
		if b.Dominates(p) {
			t := &Term{Op: "loopphi", Name: x.Comment, ID: e.prefix + x.Name()}
			for j, q := range b.Preds {
				if j != i && !b.Dominates(q) {
					t.Args = append(t.Args, e.Term(x.Edges[j]))
				}
			}
			return t
		}
	}
	bi, ok := e.Path.idx[b]
	if ok && bi > 0 {
		prev := e.Path.Blocks[bi-1]
		for i, p := range b.Preds {
			if p == prev {
				return e.Term(x.Edges[i])
			}
		}
	}
	// off-path or entry: keep symbolic
	t := &Term{Op: "phi", ID: e.prefix + x.Name()}
	return t
}

func (e *Env) call(x *ssa.Call) *Term {
	c := x.Common()
	name := CalleeName(c)
	var args []*Term
	if c.IsInvoke() {
		args = append(args, e.Term(c.Value))
	}
	for _, a := range c.Args {
		args = append(args, e.Term(a))
	}
	if b, ok := c.Value.(*ssa.Builtin); ok && b.Name() == "len" && len(args) == 1 {
		return &Term{Op: "len", Args: args}
	}
	if e.Inline && e.Depth < 4 {
		if f := c.StaticCallee(); f != nil && InModule(f) && f.Synthetic == "" && (len(f.Blocks) == 1 || InlineLockedAccessors && len(f.Blocks) == 2 && f.Blocks[1].Comment == "recover") {
			if r := e.inlineSingle(f, c, args, x); r != nil {
				return r
			}
		}
	}
	if name == "dyn" {
		args = append([]*Term{e.Term(c.Value)}, args...)
	}
	return &Term{Op: "call", Name: name, Args: args, ID: e.prefix + x.Name()}
}

// InlineLockedAccessors also substitutes straight-line callees of the form Lock; defer Unlock; return expr. The matcher rules
// keep it off (they recognise the locked lookups as calls); provenance rules that only follow values switch it on.
var InlineLockedAccessors bool

// inlineSingle substitutes a single-block module callee (accessor).
func (e *Env) inlineSingle(f *ssa.Function, c *ssa.CallCommon, args []*Term, site *ssa.Call) *Term {
	blk := f.Blocks[0]
	ret, ok := blk.Instrs[len(blk.Instrs)-1].(*ssa.Return)
	if !ok {
		return nil
	}
	for _, in := range blk.Instrs {
		switch x := in.(type) {
		case *ssa.Defer:
			// a locked accessor (mu.Lock(); defer mu.Unlock(); return expr) is still a straight-line function of its arguments
			if cal := x.Call.StaticCallee(); cal != nil && cal.Pkg != nil && cal.Pkg.Pkg.Path() == "sync" && (cal.Name() == "Unlock" || cal.Name() == "RUnlock") {
				continue
			}
			return nil
		case *ssa.Go, *ssa.Panic:
			return nil
		case *ssa.Call:
			// a locked accessor written with an explicit Lock / Unlock pair is a locked accessor all the same: the matcher rules
			// want to see it as a call
			if cal := x.Common().StaticCallee(); !InlineLockedAccessors && cal != nil && cal.Pkg != nil && cal.Pkg.Pkg.Path() == "sync" && (cal.Name() == "Lock" || cal.Name() == "RLock") {
				return nil
			}
		}
	}
	sub := &Env{Prog: e.Prog, Path: NewPath(f, f.Blocks[:1]), Subst: map[ssa.Value]*Term{}, Depth: e.Depth + 1,
		Inline: true, memo: map[ssa.Value]*Term{}, prefix: e.prefix + site.Name() + "/"}
	if len(f.Params) != len(args) {
		return nil
	}
	for i, p := range f.Params {
		sub.Subst[p] = args[i]
	}
	if len(f.FreeVars) > 0 {
		mc, ok := c.Value.(*ssa.MakeClosure)
		if !ok {
			return nil
		}
		for i, fv := range f.FreeVars {
			sub.Subst[fv] = e.Term(mc.Bindings[i])
		}
	}
	if len(ret.Results) == 1 {
		return sub.Term(ret.Results[0])
	}
	t := &Term{Op: "tuple"}
	for _, r := range ret.Results {
		t.Args = append(t.Args, sub.Term(r))
	}
	return t
}

// Atom is a signed branch condition on a path.
type Atom struct {
	Cond  *Term
	Sign  bool // the condition's truth value on this path
	Block *ssa.BasicBlock
}

// Norm pushes negations into the sign and rewrites != as negated ==.
func (a Atom) Norm() Atom {
	for {
		switch {
		case a.Cond.Op == "not":
			a = Atom{Cond: a.Cond.Args[0], Sign: !a.Sign, Block: a.Block}
		case a.Cond.Op == "binop" && a.Cond.Name == "!=":
			c := *a.Cond
			c.Name = "=="
			a = Atom{Cond: &c, Sign: !a.Sign, Block: a.Block}
		default:
			return a
		}
	}
}

func (a Atom) String() string {
	n := a.Norm()
	if n.Sign {
		return n.Cond.String()
	}
	return "¬" + n.Cond.String()
}

// Key identifies the atom's condition value (sign excluded).
func (a Atom) Key() string { return a.Norm().Cond.Key() }

// Atoms lists the branch conditions taken along the path (the last block's
// own terminator is not included).
func (e *Env) Atoms() []Atom {
	var out []Atom
	for i := 0; i+1 < len(e.Path.Blocks); i++ {
		b := e.Path.Blocks[i]
		if len(b.Instrs) == 0 {
			continue
		}
		iff, ok := b.Instrs[len(b.Instrs)-1].(*ssa.If)
		if !ok {
			continue
		}
		next := e.Path.Blocks[i+1]
		sign := b.Succs[0] == next
		if b.Succs[0] == b.Succs[1] {
			continue
		}
		out = append(out, Atom{Cond: e.Term(iff.Cond), Sign: sign, Block: b})
	}
	return out
}

// Feasible rejects paths that hold the same condition value with both signs,
// or a constant condition with the wrong sign.
func Feasible(atoms []Atom) bool {
	seen := map[string]bool{}
	for _, a := range atoms {
		n := a.Norm()
		if n.Cond.Op == "const" {
			if (n.Cond.Name == "true") != n.Sign {
				return false
			}
			continue
		}
		// equality of two constants folds
		if n.Cond.Op == "binop" && n.Cond.Name == "==" && n.Cond.Args[0].Op == "const" && n.Cond.Args[1].Op == "const" {
			if (n.Cond.Args[0].Name == n.Cond.Args[1].Name) != n.Sign {
				return false
			}
			continue
		}
		k := n.Cond.Key()
		if s, ok := seen[k]; ok && s != n.Sign {
			return false
		}
		seen[k] = n.Sign
	}
	return true
}

// LoadField resolves the value of alloc.field as seen at instruction `at`.
func (e *Env) LoadField(alloc *ssa.Alloc, field string, at ssa.Instruction, typ types.Type) *Term {
	return e.loadPath(&fakeAddr{root: alloc, path: []string{field}}, at, typ)
}

// RetPath is one feasible path to a return of a function.
type RetPath struct {
	Ret     *ssa.Return
	Path    *Path
	Env     *Env
	Atoms   []Atom
	Results []*Term
}

// ReturnPaths enumerates the feasible acyclic paths to every return of fn.
func ReturnPaths(p *Prog, fn *ssa.Function, limit int) (out []RetPath, ok bool) {
	ok = true
	for _, b := range fn.Blocks {
		if len(b.Instrs) == 0 {
			continue
		}
		ret, isRet := b.Instrs[len(b.Instrs)-1].(*ssa.Return)
		if !isRet {
			continue
		}
		paths, complete := EnumPaths(fn, b, limit)
		if !complete {
			ok = false
		}
		for _, pa := range paths {
			env := NewEnv(p, pa)
			atoms := env.Atoms()
			if !Feasible(atoms) {
				continue
			}
			rp := RetPath{Ret: ret, Path: pa, Env: env, Atoms: atoms}
			for _, r := range ret.Results {
				rp.Results = append(rp.Results, env.Term(r))
			}
			out = append(out, rp)
		}
	}
	return out, ok
}

// IntBits returns the width of an integer type (int/uint = 64) and whether it is signed; 0 if not an integer.
func IntBits(t types.Type) (bits int, signed bool) {
	b, ok := t.Underlying().(*types.Basic)
	if !ok || b.Info()&types.IsInteger == 0 {
		return 0, false
	}
	signed = b.Info()&types.IsUnsigned == 0
	switch b.Kind() {
	case types.Int8, types.Uint8:
		return 8, signed
	case types.Int16, types.Uint16:
		return 16, signed
	case types.Int32, types.Uint32:
		return 32, signed
	default:
		return 64, signed
	}
}

// Narrowing reports whether a conv term loses range.
func (t *Term) Narrowing() bool {
	if t.Op != "conv" || t.Typ == nil || t.Args[0].Typ == nil {
		return false
	}
	tb, ts := IntBits(t.Typ)
	sb, ss := IntBits(t.Args[0].Typ)
	if tb == 0 || sb == 0 {
		return false
	}
	if tb < sb {
		return true
	}
	if tb == sb && ts != ss {
		return true
	}
	return false
}

// InstrDominates reports whether instruction a is executed before b on every path to b.
func InstrDominates(a, b ssa.Instruction) bool {
	ba, bb := a.Block(), b.Block()
	if ba == bb {
		for _, in := range ba.Instrs {
			if in == a {
				return true
			}
			if in == b {
				return false
			}
		}
		return false
	}
	return ba.Dominates(bb)
}

// Def follows v through loads of single-store locals and closure captures to
// the value that was stored: FreeVar → MakeClosure binding → Alloc → its only
// Store. It returns v itself when no unique definition exists.
func (p *Prog) Def(v ssa.Value) ssa.Value {
	for i := 0; i < 16; i++ {
		switch x := v.(type) {
		case *ssa.UnOp:
			if x.Op != token.MUL {
				return v
			}
			inner := p.Def(x.X)
			if a, ok := inner.(*ssa.Alloc); ok {
				if s := singleStore(a); s != nil {
					v = s.Val
					continue
				}
			}
			return v
		case *ssa.FreeVar:
			b := p.Binding(x)
			if b == nil {
				return v
			}
			v = b
		case *ssa.MakeInterface:
			v = x.X
		case *ssa.ChangeInterface:
			v = x.X
		case *ssa.ChangeType:
			v = x.X
		default:
			return v
		}
	}
	return v
}

// DefX is Def extended across calls: a parameter whose every call site inside the module passes the same defining value
// (a helper that was split off its only caller: a sender / receiver function, a locked accessor) is replaced by that value.
func (p *Prog) DefX(v ssa.Value) ssa.Value {
	for i := 0; i < 8; i++ {
		v = p.Def(v)
		if ld, isLoad := v.(*ssa.UnOp); isLoad && ld.Op == token.MUL {
			// a field that the whole module assigns exactly once (state gathered in a struct literal): the assigned value
			if fa, isFA := ld.X.(*ssa.FieldAddr); isFA {
				if st := p.uniqueFieldStore(fa); st != nil {
					v = st.Val
					continue
				}
			}
			return v
		}
		pa, ok := v.(*ssa.Parameter)
		if !ok {
			return v
		}
		g := pa.Parent()
		idx := -1
		for k, q := range g.Params {
			if q == pa {
				idx = k
			}
		}
		n := p.CallGraph().Nodes[g]
		if n == nil || idx < 0 {
			return v
		}
		var origin ssa.Value
		for _, in := range n.In {
			if in.Caller.Func == nil || !InModule(in.Caller.Func) {
				continue
			}
			cc := in.Site.Common()
			if cc.IsInvoke() {
				return v
			}
			off := len(g.Params) - len(cc.Args)
			if off < 0 || idx-off < 0 || idx-off >= len(cc.Args) {
				return v
			}
			d := p.Def(cc.Args[idx-off])
			if origin != nil && origin != d {
				return v
			}
			origin = d
		}
		if origin == nil {
			return v
		}
		v = origin
	}
	return v
}

func fieldStoreKey(fa *ssa.FieldAddr) (string, *types.Named) {
	pt, ok := fa.X.Type().Underlying().(*types.Pointer)
	if !ok {
		return "", nil
	}
	nt, ok := pt.Elem().(*types.Named)
	if !ok || nt.Obj().Pkg() == nil {
		return "", nil
	}
	return nt.Obj().Pkg().Path() + "." + nt.Obj().Name() + "#" + fmt.Sprint(fa.Field), nt
}

// uniqueFieldStore: the one store the module makes into field fa of a module struct type, if there is exactly one and no
// whole-struct assignment of that type exists.
func (p *Prog) uniqueFieldStore(fa *ssa.FieldAddr) *ssa.Store {
	if p.fieldStores == nil {
		p.fieldStores = map[string][]*ssa.Store{}
		p.structClobbered = map[string]bool{}
		for _, f := range p.ModFuncs {
			for _, b := range f.Blocks {
				for _, in := range b.Instrs {
					st, ok := in.(*ssa.Store)
					if !ok {
						continue
					}
					if a, ok := st.Addr.(*ssa.FieldAddr); ok {
						if k, _ := fieldStoreKey(a); k != "" {
							p.fieldStores[k] = append(p.fieldStores[k], st)
						}
					}
					if nt, ok := st.Val.Type().(*types.Named); ok && nt.Obj().Pkg() != nil {
						if _, isStruct := nt.Underlying().(*types.Struct); isStruct {
							if _, isConst := st.Val.(*ssa.Const); !isConst {
								p.structClobbered[nt.Obj().Pkg().Path()+"."+nt.Obj().Name()] = true
							}
						}
					}
				}
			}
		}
	}
	k, nt := fieldStoreKey(fa)
	if k == "" || !strings.HasPrefix(nt.Obj().Pkg().Path(), ModulePath) || p.structClobbered[nt.Obj().Pkg().Path()+"."+nt.Obj().Name()] {
		return nil
	}
	if sts := p.fieldStores[k]; len(sts) == 1 {
		return sts[0]
	}
	return nil
}

func singleStore(a *ssa.Alloc) *ssa.Store {
	var st *ssa.Store
	n := 0
	var visit func(v ssa.Value)
	seen := map[ssa.Value]bool{}
	visit = func(v ssa.Value) {
		if seen[v] || v.Referrers() == nil {
			return
		}
		seen[v] = true
		for _, r := range *v.Referrers() {
			switch x := r.(type) {
			case *ssa.Store:
				if x.Addr == v {
					st = x
					n++
				}
			case *ssa.MakeClosure:
				// captured by reference: look at stores through the free variable
				fn := x.Fn.(*ssa.Function)
				for i, b := range x.Bindings {
					if b == v {
						visit(fn.FreeVars[i])
					}
				}
			}
		}
	}
	visit(a)
	if n == 1 {
		return st
	}
	return nil
}

// Binding returns the value bound to a free variable at the (unique) MakeClosure of its function.
func (p *Prog) Binding(fv *ssa.FreeVar) ssa.Value {
	fn := fv.Parent()
	par := fn.Parent()
	if par == nil {
		return nil
	}
	idx := -1
	for i, f := range fn.FreeVars {
		if f == fv {
			idx = i
		}
	}
	var out ssa.Value
	n := 0
	for _, b := range par.Blocks {
		for _, in := range b.Instrs {
			if mc, ok := in.(*ssa.MakeClosure); ok && mc.Fn == ssa.Value(fn) && idx >= 0 {
				out = mc.Bindings[idx]
				n++
			}
		}
	}
	if n == 1 {
		return out
	}
	return nil
}

// ProjField projects a named field out of a term (struct literals are opened).
func ProjField(t *Term, f string) *Term { return projField(t, f) }

// writtenByClosure reports whether a local is captured by a closure that stores into it.
func writtenByClosure(a *ssa.Alloc) bool {
	if a.Referrers() == nil {
		return false
	}
	var writes func(v ssa.Value, depth int) bool
	writes = func(v ssa.Value, depth int) bool {
		if depth > 4 || v.Referrers() == nil {
			return false
		}
		for _, r := range *v.Referrers() {
			switch x := r.(type) {
			case *ssa.Store:
				if x.Addr == v {
					return true
				}
			case *ssa.FieldAddr:
				if writes(x, depth+1) {
					return true
				}
			case *ssa.IndexAddr:
				if writes(x, depth+1) {
					return true
				}
			case *ssa.MakeClosure:
				fn := x.Fn.(*ssa.Function)
				for i, b := range x.Bindings {
					if b == v && writes(fn.FreeVars[i], depth+1) {
						return true
					}
				}
			}
		}
		return false
	}
	for _, r := range *a.Referrers() {
		if mc, ok := r.(*ssa.MakeClosure); ok {
			fn := mc.Fn.(*ssa.Function)
			for i, b := range mc.Bindings {
				if b == ssa.Value(a) && writes(fn.FreeVars[i], 0) {
					return true
				}
			}
		}
	}
	return false
}

// FieldName returns the name of the field a FieldAddr designates.
func FieldName(fa *ssa.FieldAddr) string {
	return fa.X.Type().Underlying().(*types.Pointer).Elem().Underlying().(*types.Struct).Field(fa.Field).Name()
}

// Subst rebuilds t with leaves replaced by f (nil = keep); field selections are re-projected
// so that substituting a struct value for a pointer opens the selection.
func (t *Term) Subst(f func(*Term) *Term) *Term {
	if t == nil {
		return nil
	}
	if r := f(t); r != nil {
		return r
	}
	if len(t.Args) == 0 {
		return t
	}
	args := make([]*Term, len(t.Args))
	changed := false
	for i, a := range t.Args {
		args[i] = a.Subst(f)
		if args[i] != a {
			changed = true
		}
	}
	if !changed {
		return t
	}
	if t.Op == "field" {
		r := projField(args[0], t.Name)
		if r.Typ == nil {
			r.Typ = t.Typ
		}
		return r
	}
	n := *t
	n.Args = args
	return &n
}

// LoadValue returns the value stored in a local (or heap-allocated literal) as seen at instruction `at`.
func (e *Env) LoadValue(a *ssa.Alloc, at ssa.Instruction) *Term {
	return e.load(a, at, a.Type().Underlying().(*types.Pointer).Elem())
}

// captured evaluates a variable captured by reference that has exactly one store
// (and is never written by a closure) in the frame of the enclosing function.
func (e *Env) captured(fv *ssa.FreeVar) *Term {
	if e.Depth > 3 {
		return nil
	}
	b := e.Prog.Binding(fv)
	al, ok := b.(*ssa.Alloc)
	if !ok || writtenByClosure(al) {
		return nil
	}
	st := singleStore(al)
	if st == nil || st.Parent() != al.Parent() {
		return nil
	}
	paths, _ := EnumPaths(st.Parent(), st.Block(), 50)
	for _, pa := range paths {
		pe := &Env{Prog: e.Prog, Path: pa, Inline: e.Inline, Depth: e.Depth + 1, memo: map[ssa.Value]*Term{}, prefix: e.prefix + "^"}
		if !Feasible(pe.Atoms()) {
			continue
		}
		return pe.Term(st.Val)
	}
	return nil
}

// SingleStore returns the only store into a local (also through closures that capture it), or nil.
func SingleStore(a *ssa.Alloc) *ssa.Store { return singleStore(a) }
