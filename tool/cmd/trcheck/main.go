// Command trcheck decides the static clauses of properties C01–C20 on /repo's
// working tree. Usage: trcheck <ID> <quick|thorough> [--replay file]
package main

import (
	"fmt"
	"os"
	"strconv"

	"verif/tool/rules"
)

func main() {
	if len(os.Args) < 2 {
		fmt.Println("usage: trcheck <ID|dump> <quick|thorough> [--replay file]")
		os.Exit(2)
	}
	id := os.Args[1]
	tier := "quick"
	replay := ""
	for i := 2; i < len(os.Args); i++ {
		switch os.Args[i] {
		case "quick", "thorough":
			tier = os.Args[i]
		case "--replay":
			if i+1 < len(os.Args) {
				replay = os.Args[i+1]
				i++
			}
		}
	}
	if t := os.Getenv("VERIF_TIER"); t == "quick" || t == "thorough" {
		if len(os.Args) < 3 {
			tier = t
		}
	}
	seed, _ := strconv.Atoi(os.Getenv("VERIF_SEED"))
	os.Exit(rules.Run(id, tier, seed, replay))
}
