#!/usr/bin/env python3
"""Regenerates /verif/MANIFEST.json from the table below (kept in one place so the
claimed / not_applicable split stays consistent)."""
import json, os

HERE = os.path.dirname(os.path.abspath(__file__))

# id -> (technique, level text, level note, design ref)
CLAIMS = {
 "C01": ("path enumeration over go/ssa with path-relative origins (decision table of every matcher); must-compare / lookup-provenance / narrowing-before-check rules",
         "Static necessary conditions, decided for all inbound packets at once: on every CFG path to a returned ProbeResponse the quoted destination, quoted inner source (unless relaxed), direct-reply tuple, flags, echo id are compared with the run's own values, a sent-probe lookup keyed by the quoted identifier succeeded, the TTL comes from it, and no identifier is narrowed before its range check. Does not decide decoder correctness or arrival order. (R01.8) The SACK handshake matcher accepts a SYN-ACK only after comparing addresses, ports and the acknowledgement number with the run's own; (R01.9) entries of the sent-probe tables are created only in functions reached from SendProbe and from nowhere else (constructors may install an empty table), because the matchers read an entry as 'this probe was emitted'.",
         "Trusts go/types+go/ssa, gopacket/x-net field semantics, the frozen role table (cross-checked against the probe builders by C06); heap fields of the driver are assumed stable along one matcher path.", "3/C01"),
 "C02": ("decision-table queries (reply-form coverage, deny-list of rewritten fields, strict/relaxed switch), origin analysis of the listening budget",
         "Static clauses only: every catalogue reply form reaches an accept site, no accept path constrains a field routers rewrite, the strict/relaxed switch is exactly a switch on the INNER quoted source, the parallel engine's deadline originates from timeout+delays and the receiver keeps reading after the destination was seen. Encodings/timing are not decided. (R02.6) In every SendProbe the probe is recorded in the sent-probe table before Sink.WriteTo, so that a reply can never be looked up before its probe exists.",
         "Same trusted base as C01; catalogue of reply forms and rewritten-field deny-list are spelled out in the checker from the property text.", "3/C02"),
 "C03": ("dominance + origin rules over both engines (validated-slot writes, slice size, clip on every success return), decision table of validateProbe/ToHops",
         "Structural part: result slots are only written with a validated probe at its own TTL index, slice length is int(MaxTTL)+1, both engines return clipResults(MinTTL, results) on every success path, each protocol entry hands the same params to ToHops. The arithmetic inside clipResults is not decided. (R03.4 also) ToHops receives the engine's slice as a whole (result #0, or the Hops field of the ICMP/SACK helper's result), not a re-slice of it.",
         "Trusts go/ssa dominators; anchors TracerouteParallel/TracerouteSerial/validateProbe/clipResults/ToHops resolved by name with floors.", "3/C03"),
 "C04": ("decision-table query on the IsDest store of every accept path; origin check of GetDestinationHop/runE2eProbeOnce",
         "Nearly whole, statically: IsDest can be true only on paths that compare the OUTER source with the target and have the protocol's proof-of-arrival form; time-exceeded paths of ICMP/TCP-SYN store constant false; e2e RTT is the destination hop's RTT.",
         "Same trusted base as C01.", "3/C04"),
 "C05": ("decision-table provenance of RTT vs TTL (same lookup), dominance of timestamp/table-write over the wire write in every SendProbe, ToHops field origins",
         "Pairing and ordering clauses: RTT and TTL of an accepted reply come from the same sent-probe lookup; the send time is taken and stored before Sink.WriteTo; ToHops copies RTT of the same probe; numeric value/timing not decided.",
         "Same trusted base as C01; time.Now/time.Since semantics.", "3/C05"),
 "C06": ("interprocedural origin sets of every IP/TCP/UDP/ICMP layer literal in each SendProbe tree; serialise-option constants; CFG rules on the two engine send loops; who-may-call",
         "Builder and engine discipline for all TTLs: TTL field originates from SendProbe's ttl only, FixLengths/ComputeChecksums constant true with SetNetworkLayerForChecksum, flow fields are run-invariant, per-probe id is an injective affine function of ttl in >=16 bits, one SendProbe call per engine inside a +1 counted loop MinTTL..MaxTTL with pacing and stop-on-destination. gopacket's serialisation itself is trusted. (R06.7) The IP version and protocol / next-header constants of each probe literal agree with the layers serialised after it; identifiers computed by a module helper are decided through the helper's return paths (each injective in the ttl, path selection independent of the ttl).",
         "Trusts gopacket SerializeLayers given those options; Paris-mode rand.Uint32 ids are the documented probabilistic exception.", "3/C06"),
 "C07": ("exhaustive abstract evaluation (3x2 cases) of the parallel engine's update closure by path enumeration; must-pass-through of the merge on every accepted reply; lockset on the merge state",
         "The update rule is evaluated on every abstract (slot, reply) case and must equal first-wins/destination-overrides; every accepted+validated reply reaches the update under the mutex; results is read only after Wait. Together: the result depends on accepted replies only through the two rules, for every schedule. Delivery order by the driver and deadline races are not decided.",
         "Happens-before edges recognised: mutex, errgroup Wait, goroutine start.", "3/C07"),
 "C08": ("blocking-primitive enumeration over the module call graph with governor (deadline/ctx-origin) rules; loop-exit classification; attach-order rule",
         "Necessary condition for bounded termination: every blocking primitive reachable on the run path is governed by a finite deadline originating from parameters/constants and every loop has a recognised exit; both engines derive their ctx from the caller's and report cancellation. The numeric bound itself is a runtime quantity and is not decided. Producer/consumer contract: when a loop leaves on errors.Is(err, os.ErrDeadlineExceeded) for an error produced by the read helper, the helper's own deadline branch must return an error that still wraps the read error.",
         "Table of blocking library entry points; kernel honours deadlines.", "3/C08"),
 "C09": ("error-class summaries (fixpoint over the call graph) + retryable-means-skipped CFG rule + no-panic reachability + compiler bounds-check-elimination oracle (thorough)",
         "No error whose cause is the content of an inbound buffer reaches an engine in a fatal class (only the SACK capability verdicts may), retryable errors lead to continue with no state write, no panic/Must*/log.Fatal is reachable from ReceiveProbe/ReadHandshake in the module, and (thorough) the set of compiler-unproven bounds checks on the inbound path equals the reviewed table. Panics inside gopacket/x-net are not decided. (R09.3d) Every direct gopacket layer decode reachable from the inbound roots passes a non-nil DecodeFeedback (the decoders call df.SetTruncated() on short input).",
         "Classification table of library callees (content vs io); Go compiler's prove pass as auxiliary oracle.", "3/C09"),
 "C10": ("handle typestate by path enumeration with deferred closes and closer summaries; no-partial-success and cause-preservation (%w / Unwrap) rules; goroutine join post-dominance",
         "On every path of the four protocol entry points and the handle constructors each opened handle is closed exactly once (or escapes through a successful return), never used after a non-deferred close; every error return of the run path returns a nil result; io-class causes are wrapped with %w; every go/errgroup.Go is joined before return; each SetPacketFilter error is checked.",
         "Opener/closer tables for os/net/x-sys APIs; linux and darwin builds only (Windows cannot be type-checked here).", "3/C10"),
 "C11": ("decision-table query for a per-run discriminator on every accept path; atomic read-modify-write rule on the allocators; package-level-write reachability",
         "Every accept path compares a value unique to the run by construction (echo id from nextEchoID, local port held open until return, SACK 4-tuple); allocators use a single atomic Add per allocation and ids are base+ttl; no other package-level mutable state is written on the run path and each driver owns fresh parser/buffer/table. 65536-live-id arithmetic not decided. Package-level variables that run-path code hands to calls by address or by reference (pools, maps, caches) must be in the reviewed table.",
         "Same trusted base as C01/C10; sync/atomic semantics.", "3/C11"),
 "C12": ("extraction of the five cBPF programs from source + own abstract interpreter, exhaustive sweep over the frame equivalence classes against reference predicates; filter-vs-matcher containment",
         "Whole property modulo kernel/assembler semantics: every program extracted from the source is evaluated on the full product of the classes the programs can distinguish and must equal the reference predicate from the property statement; parameters originate from the right config fields; every SetPacketFilter site installs a program whose accept set contains the driver's reply forms; attach order drop-all, drain, filter.",
         "cBPF semantics as documented (implemented independently in the checker); bpf.Assemble is a faithful assembler.", "3/C12"),
 "C14": ("field-level lockset analysis per goroutine context (SendProbe tree vs ReceiveProbe tree of parallel drivers; go/errgroup closures)",
         "For every parallel-capable driver each receiver field touched by both the sender and receiver trees with a write has a common mutex or atomic type; every variable captured by concurrently running closures is accessed under a common mutex or after the Wait join; allocators are atomic; drivers are constructed per run. A type-keyed complement covers fields of module structs reached through pointers (two access paths that may name one object), and an access in the spawning loop's body counts as 'before the spawn' only for variables allocated afresh in that iteration.",
         "No pointer analysis (aliasing through fresh-allocation check only); library objects internally synchronised.", "3/C14"),
 "C15": ("counted-loop / one-go-per-iteration rule, per-path append counting inside each closure, all-or-error return shape",
         "One goroutine per requested unit, every closure path appends exactly one element to exactly one accumulator under the mutex (0 RTT on the probe error branch), public-IP closure never touches the error list, after Wait a non-empty error list returns (nil, errors.Join(all)), RunTraceroute returns it before any enrichment.",
         "sync.WaitGroup/Mutex semantics.", "3/C15"),
 "C16": ("struct-tag contract check on the type-checked program; origin rule for fresh identifiers; control-dependence of the Reachable store",
         "Only the structural clauses: the published JSON keys/kinds/omitempty are unchanged, every run/test id is assigned from a uuid.New() call inside the per-run loop, Reachable=true is stored only under the hop's own address test. The numeric self-consistency clauses are NOT decided by this family.",
         "encoding/json tag semantics.", "3/C16"),
 "C17": ("flag-plumbing origins (HTTP query key / CLI flag to SkipPrivateHops), must-pass-through RemovePrivateHops, placeholder literal shape, predicate atom",
         "The flag reaches TracerouteParams.SkipPrivateHops from both front ends, every success path of RunTraceroute with the flag set passes through RemovePrivateHops, the placeholder is a fresh hop whose only non-zero field is the replaced hop's TTL at the same index, the only condition is net.IP.IsPrivate on the hop's own address, all hops of all runs are visited.",
         "net.IP.IsPrivate is correct at block boundaries and for mapped forms (standard library).", "3/C17"),
 "C18": ("writer/reader key-origin agreement, error-branch effect rule, dominance rules in cache.GetWithExpiration, provider-iteration shape",
         "Map key and lookup argument share the closure's own ip; reader derives the key by the same conversion; lookup failure writes nothing and returns no error; Cache.Set only on the err==nil edge, callback not called on a hit; providers iterated in order, first success returned, 4xx/invalid body wrapped Permanent. No other outcome of a completely received answer that may carry a 4xx status is reported with a retryable error.",
         "go-cache and backoff library semantics.", "3/C18"),
 "C19": ("narrowing/overflow lint on the parameter path (interprocedural origins to TracerouteParams / query / flags), exhaustive-switch rule",
         "Every int->uint8/uint16 narrowing of a user parameter is dominated by a range check that rejects, no 8/16-bit arithmetic reaches a make size/index/loop bound, protocol/method switches end in an error default, port is range-checked before narrowing, TTL bounds reach the engine loops through conversions only. End-to-end behaviour of accepted extremes needs execution and is not decided. (R19.5) The HTTP layer hands the library exactly the integers the request states: every integer field of the parameters literal is a query decoder's result (converted or scaled by a constant at most), a decoder returns the parsed number itself or, only when the key is absent or not a number, its default, and the handler passes the literal unmodified to RunTraceroute behind err == nil.",
         "Interval reasoning limited to constants, widenings and dominating comparisons.", "3/C19"),
 "C20": ("decision table of performTCPFallback over the method constants, allocation-site census of NotSupportedError, %w-transparency along the call paths, call-graph reachability (no dial from the SYN path), e2e override dominance",
         "Selector shape per method, the exact set of sites that may produce NotSupportedError (dial failure, platform, no SACK-permitted, ACK without SACK), the class survives every wrapping up to the selector, no connection-opening call is reachable from the SYN traceroute, e2e probes rewrite every SACK-routing method to SYN before the run. The census is keyed by creating function and kind of cause with the reviewed number of sites, not by message text.",
         "VTA call graph over module functions; errors.As semantics.", "3/C20"),
}

NOT_APPLICABLE = {
 "C13": "Quantifies over what a real Linux kernel path (routers, sockets, RST/ICMP generation) does with the frames; no clause is a fact about this repository's source that is not already decided under C08-C10/C12, and static analysis cannot observe kernel behaviour.",
}

# properties whose check is built and registered (edit as the framework grows)
CLAIMED = json.load(open(os.path.join(HERE, "claimed.json")))

checks = []
for pid in sorted(CLAIMS):
    if pid not in CLAIMED:
        continue
    tech, text, note, ref = CLAIMS[pid]
    checks.append({
        "property_id": pid,
        "quick_cmd": f"./check {pid} quick",
        "thorough_cmd": f"./check {pid} thorough",
        "evidence_file": f"/verif/evidence/{pid}.json",
        "replay_cmd_template": f"./check {pid} --replay {{path}}",
        "engine": "trcheck",
        "level_claimed": {"category": "other", "text": text, "design_ref": "DESIGN.md section " + ref},
        "level_note": note,
        "technique": "static analysis: " + tech,
    })

na = [{"property_id": k, "reason": v} for k, v in sorted(NOT_APPLICABLE.items())]
for pid in sorted(CLAIMS):
    if pid not in CLAIMED:
        na.append({"property_id": pid, "reason": "static rules for this property are designed (DESIGN.md section 3) but not yet built at this commit; not claimed until the check exists"})

manifest = {
    "version": 1,
    "setup_cmd": "./setup.sh",
    "hooks": {
        "guard": "verif",
        "enable": "none: the checks read /repo's source (go/packages, go/ssa); no instrumentation is compiled into the repository",
        "baseline_off_cmd": "cd /repo && GOFLAGS=-mod=mod GOPROXY=off go test -vet=off -count=1 ./...",
        "source_commits": [],
        "add_only": True,
    },
    "engines": [{
        "name": "trcheck",
        "path": "/verif/tool",
        "serves_properties": sorted(CLAIMED),
        "kind_free_text": "repository-specific static analyser on golang.org/x/tools v0.50.0 (go/packages, go/ssa, VTA call graph): path enumeration with path-relative origins, error-class summaries, handle typestate, locksets, cBPF abstract interpreter",
    }],
    "checks": checks,
    "not_applicable": na,
    "notes": "All claims are at level 'other': each check decides named structural clauses (necessary conditions) of its property for all inputs/schedules at once and says in its evidence what it does not decide. Known findings: /verif/known_findings.json.",
}
json.dump(manifest, open(os.path.join(HERE, "MANIFEST.json"), "w"), indent=1)
print("claimed:", sorted(CLAIMED), "n/a:", [x["property_id"] for x in na])
