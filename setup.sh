#!/bin/sh
# Builds the checker offline from /verif/tool (module cache only).
set -eu
cd "$(dirname "$0")"
export GOFLAGS=-mod=mod GOPROXY=off GOSUMDB=off GOTOOLCHAIN=local
export PATH=/opt/veriftools/go1.26.8/bin:$PATH
unset GOWORK
mkdir -p bin evidence/replay
(cd tool && go build -o ../bin/trcheck ./cmd/trcheck)
echo "trcheck built"
